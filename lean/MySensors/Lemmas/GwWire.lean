/-
  Wire-validity of every reply kind (C05): each message a handler hands to `route`, and each set
  command built by `createSetMessage`, is valid for the configured version, canonical and
  re-decodable.  Table facts are Bool checkers decided per version on every build.
-/
import MySensors.Lemmas.GwTotal

namespace MySensors

/-- a message the gateway may put on the wire for version `c` -/
def Wire (c : ConstId) (x : Msg) : Prop :=
  validate c x = true ∧ carryable x.payload ∧ intsWithinLimit x

/-- an inbound message that was decoded from a line and validated -/
def Accepted (c : ConstId) (m : Msg) : Prop := validate c m = true ∧ Decoded m

theorem carryable_nil : carryable ([] : Str) := ⟨by simp, fun c hc => by simp at hc⟩

theorem numDigits_small (n : Int) (h : -1000 < n ∧ n < 1000) : numDigits n ≤ PyTables.intMaxDigits := by
  unfold numDigits
  have hn : n.natAbs < 1000 := by omega
  generalize n.natAbs = k at hn
  have h4 : (natDigits k).length ≤ 3 := natDigits_length_le k 3 (by omega) (by omega)
  have : (3 : Nat) ≤ PyTables.intMaxDigits := by decide
  omega

theorem accepted_facts {c : ConstId} {m : Msg} (h : Accepted c m) :
    carryable m.payload ∧ intsWithinLimit m := by
  obtain ⟨_, l, hl⟩ := h
  exact decode_some l m hl

/-! ### table facts -/

def subOk (t : VTables) (ty : Int) (o : Option Int) (rule : Rule) : Bool :=
  match o with
  | none => true
  | some s => (subTypesOf t ty).contains s && (payloadRule t ty s == rule) && decide (-1000 < s ∧ s < 1000)

def replyFacts (t : VTables) : Bool :=
  subOk t t.mtInternal t.iReboot emptyRule && subOk t t.mtInternal t.iPresentation emptyRule &&
  subOk t t.mtInternal t.iDiscover emptyRule &&
  subOk t t.mtInternal t.iIdResponse [[.coerceInt, .range 1 254, .coerceStr]] &&
  subOk t t.mtStream t.stConfigResponse [[.str]] && subOk t t.mtStream t.stResponse [[.str]] &&
  t.messageTypes.contains t.mtInternal && t.messageTypes.contains t.mtStream &&
  decide (t.mtInternal ≠ t.mtStream) && decide (-1000 < t.mtInternal ∧ t.mtInternal < 1000) &&
  decide (-1000 < t.mtStream ∧ t.mtStream < 1000) && decide (-1000 < t.mtSet ∧ t.mtSet < 1000) &&
  (t.iIdRequest != t.iReboot) && (t.iIdRequest != t.iPresentation) && (t.iIdRequest != t.iDiscover) &&
  (t.iIdResponse != t.iReboot) && (t.iIdResponse != t.iPresentation) && (t.iIdResponse != t.iDiscover) &&
  t.iIdRequest.isSome

theorem reply_facts (c : ConstId) : replyFacts (Tables.tables c) = true := by cases c <;> decide

/-- header of a system message (child 255) of type internal or stream -/
theorem headerOk_system (t : VTables) (x : Msg) (hn : 0 ≤ x.node ∧ x.node ≤ Tables.broadcastId)
    (hc : x.child = Tables.systemChildId)
    (ht : x.type = t.mtInternal ∨ x.type = t.mtStream) (ha : x.ack = 0 ∨ x.ack = 1)
    (hs : (subTypesOf t x.type).contains x.sub = true) : headerOk t x = true := by
  simp only [headerOk, childOk, typeOk, Bool.and_eq_true, decide_eq_true_eq]
  refine ⟨⟨⟨⟨hn, ?_⟩, ?_⟩, ha⟩, hs⟩
  · split
    · rfl
    · simp only [ht, ↓reduceIte, decide_eq_true_eq]; exact hc
  · simp only [hc, ↓reduceIte, decide_eq_true_eq]
    rcases ht with h | h
    · exact Or.inr (Or.inl h)
    · exact Or.inr (Or.inr h)

theorem evalV_empty_nil : evalV emptyRule [] = true := by decide

/-- a system message with an empty payload whose sub-type has the empty rule -/
theorem wire_system_empty (c : ConstId) (node ack sub : Int) (o : Option Int) (hn : 0 ≤ node ∧ node ≤ 255)
    (ha : ack = 0) (ho : o = some sub) (hf : subOk (Tables.tables c) (Tables.tables c).mtInternal o emptyRule = true)
    (hnd : numDigits node ≤ PyTables.intMaxDigits) :
    Wire c ⟨node, 255, (Tables.tables c).mtInternal, ack, sub, []⟩ := by
  subst ho ha
  simp only [subOk, Bool.and_eq_true, beq_iff_eq, decide_eq_true_eq] at hf
  obtain ⟨⟨h1, h2⟩, h3⟩ := hf
  have hfacts := reply_facts c
  simp only [replyFacts, Bool.and_eq_true, decide_eq_true_eq] at hfacts
  refine ⟨?_, carryable_nil, ?_⟩
  · simp only [validate, Bool.and_eq_true]
    refine ⟨headerOk_system _ _ (by simpa [Tables.broadcastId] using hn) rfl (Or.inl rfl) (Or.inl rfl) h1, ?_⟩
    show evalV (payloadRule (Tables.tables c) (Tables.tables c).mtInternal sub) [] = true
    rw [h2]; exact evalV_empty_nil
  · exact ⟨hnd, numDigits_small 255 (by omega), numDigits_small _ hfacts.1.1.1.1.1.1.1.1.1.2,
      numDigits_small 0 (by omega), numDigits_small _ h3⟩

end MySensors

namespace MySensors

theorem hexDigitChar_props : ∀ d : Fin 16, isSpace (hexDigitChar d.val) = false ∧ hexDigitChar d.val ≠ ';' := by
  decide

theorem hexBytes_chars (bs : List Nat) : ∀ ch ∈ hexBytes bs, ∃ d : Fin 16, ch = hexDigitChar d.val := by
  intro ch hch
  simp only [hexBytes, List.mem_flatMap] at hch
  obtain ⟨b, _, hb⟩ := hch
  simp only [hexByte, List.mem_cons, List.mem_nil_iff, or_false] at hb
  rcases hb with rfl | rfl
  · exact ⟨⟨b / 16 % 16, Nat.mod_lt _ (by decide)⟩, rfl⟩
  · exact ⟨⟨b % 16, Nat.mod_lt _ (by decide)⟩, rfl⟩

theorem carryable_of_chars (s : Str) (h : ∀ ch ∈ s, isSpace ch = false ∧ ch ≠ ';') : carryable s := by
  refine ⟨fun hm => (h _ hm).2 rfl, ?_⟩
  intro ch hl
  exact (h ch (List.mem_of_getLast? hl)).1

theorem carryable_hexBytes (bs : List Nat) : carryable (hexBytes bs) := by
  apply carryable_of_chars
  intro ch hch
  obtain ⟨d, rfl⟩ := hexBytes_chars bs ch hch
  exact hexDigitChar_props d

theorem carryable_append (a b : Str) (ha : ∀ ch ∈ a, isSpace ch = false ∧ ch ≠ ';')
    (hb : ∀ ch ∈ b, isSpace ch = false ∧ ch ≠ ';') : carryable (a ++ b) := by
  apply carryable_of_chars
  intro ch hch
  rcases List.mem_append.mp hch with h | h
  · exact ha ch h
  · exact hb ch h

theorem fwIntToHex_chars (ws : List Nat) (p : Str) (h : fwIntToHex ws = some p) :
    ∀ ch ∈ p, isSpace ch = false ∧ ch ≠ ';' := by
  unfold fwIntToHex at h
  split at h
  · cases h
    intro ch hch
    obtain ⟨d, rfl⟩ := hexBytes_chars _ ch hch
    exact hexDigitChar_props d
  · cases h

theorem renderInt_carryable (n : Int) : carryable (renderInt n) := by
  apply carryable_of_chars
  intro ch hch
  rcases renderInt_chars n ch hch with rfl | ⟨d, rfl⟩
  · exact ⟨minus_props.1, by decide⟩
  · exact ⟨(digitChar_props d).1, (digitChar_props d).2.2.1⟩

/-- wire-validity transfers along a change of ack to 0 and of the payload, given the new payload's rule -/
theorem validate_payload (c : ConstId) (m : Msg) (p : Str) (a : Int) (ha : a = 0 ∨ a = 1)
    (hv : validate c m = true) (hp : evalV (payloadRule (Tables.tables c) m.type m.sub) p = true) :
    validate c ⟨m.node, m.child, m.type, a, m.sub, p⟩ = true := by
  simp only [validate, Bool.and_eq_true] at hv ⊢
  exact ⟨C05_headerOk_ack _ m p a ha hv.1, hp⟩
where
  C05_headerOk_ack (t : VTables) (m : Msg) (p : Str) (a : Int) (ha : a = 0 ∨ a = 1) (h : headerOk t m = true) :
      headerOk t { m with ack := a, payload := p } = true := by
    simp only [headerOk, childOk, typeOk, Bool.and_eq_true, decide_eq_true_eq] at h ⊢
    obtain ⟨⟨⟨⟨h1, h2⟩, h3⟩, _⟩, h5⟩ := h
    exact ⟨⟨⟨⟨h1, h2⟩, h3⟩, ha⟩, h5⟩

theorem validate_ack (c : ConstId) (m : Msg) (hv : validate c m = true) : m.ack = 0 ∨ m.ack = 1 := by
  simp only [validate, headerOk, Bool.and_eq_true, decide_eq_true_eq] at hv
  exact hv.1.1.2

theorem validate_rule (c : ConstId) (m : Msg) (hv : validate c m = true) :
    evalV (payloadRule (Tables.tables c) m.type m.sub) m.payload = true := by
  simp only [validate, Bool.and_eq_true] at hv
  exact hv.2

/-- reboot reply / presentation request / discover: system messages with empty payload -/
theorem wire_reboot (c : ConstId) (m : Msg) (sub : Int) (ha : Accepted c m)
    (hs : (Tables.tables c).iReboot = some sub) :
    Wire c ⟨m.node, 255, (Tables.tables c).mtInternal, 0, sub, []⟩ := by
  have hf := reply_facts c
  simp only [replyFacts, Bool.and_eq_true] at hf
  exact wire_system_empty c m.node 0 sub _ (validate_node_range c m ha.1) rfl hs
    hf.1.1.1.1.1.1.1.1.1.1.1.1.1.1.1.1.1.1 (accepted_facts ha).2.1

theorem wire_presentation (c : ConstId) (node sub : Int) (hn : 0 ≤ node ∧ node ≤ 255)
    (hs : (Tables.tables c).iPresentation = some sub) :
    Wire c ⟨node, 255, (Tables.tables c).mtInternal, 0, sub, []⟩ := by
  have hf := reply_facts c
  simp only [replyFacts, Bool.and_eq_true] at hf
  exact wire_system_empty c node 0 sub _ hn rfl hs hf.1.1.1.1.1.1.1.1.1.1.1.1.1.1.1.1.1.2
    (numDigits_small node (by omega))

theorem wire_discover (c : ConstId) (sub : Int) (hs : (Tables.tables c).iDiscover = some sub) :
    Wire c ⟨255, 255, (Tables.tables c).mtInternal, 0, sub, []⟩ := by
  have hf := reply_facts c
  simp only [replyFacts, Bool.and_eq_true] at hf
  exact wire_system_empty c 255 0 sub _ (by omega) rfl hs hf.1.1.1.1.1.1.1.1.1.1.1.1.1.1.1.1.2
    (numDigits_small 255 (by omega))

end MySensors

namespace MySensors

theorem wire_idResponse (c : ConstId) (m : Msg) (sub id : Int) (ha : Accepted c m)
    (ht : m.type = (Tables.tables c).mtInternal) (hs : (Tables.tables c).iIdResponse = some sub)
    (hid : 1 ≤ id ∧ id ≤ 254) : Wire c ⟨m.node, m.child, m.type, 0, sub, renderInt id⟩ := by
  have hf := reply_facts c
  simp only [replyFacts, Bool.and_eq_true] at hf
  have hsub := hf.1.1.1.1.1.1.1.1.1.1.1.1.1.1.1.2
  rw [hs] at hsub
  simp only [subOk, Bool.and_eq_true, beq_iff_eq, decide_eq_true_eq] at hsub
  obtain ⟨⟨h1, h2⟩, h3⟩ := hsub
  have hidd : numDigits id ≤ PyTables.intMaxDigits := numDigits_small id (by omega)
  obtain ⟨hcarry, hlim⟩ := accepted_facts ha
  refine ⟨?_, renderInt_carryable id, ?_⟩
  · have hv := ha.1
    simp only [validate, headerOk, childOk, typeOk, Bool.and_eq_true, decide_eq_true_eq] at hv ⊢
    obtain ⟨⟨⟨⟨⟨hn, _⟩, hty⟩, _⟩, _⟩, _⟩ := hv
    refine ⟨⟨⟨⟨⟨hn, ?_⟩, hty⟩, Or.inl trivial⟩, ?_⟩, ?_⟩
    · have : m.type = (Tables.tables c).mtInternal ∧
          (some sub = (Tables.tables c).iIdRequest ∨ some sub = (Tables.tables c).iIdResponse) :=
        ⟨ht, Or.inr hs.symm⟩
      simp only [this, and_self, ↓reduceIte]
    · rw [ht]; exact h1
    · rw [ht, h2]
      simp [evalV, evalAll, evalAtom, pyInt_renderInt id hidd, hid.1, hid.2]
  · exact ⟨hlim.1, hlim.2.1, hlim.2.2.1, numDigits_small 0 (by omega), numDigits_small _ h3⟩

/-- a stream response: the request copied with the response sub-type and a hex payload -/
theorem wire_streamReply (c : ConstId) (m : Msg) (sub : Int) (p : Str) (ha : Accepted c m)
    (ht : m.type = (Tables.tables c).mtStream)
    (hs : (Tables.tables c).stConfigResponse = some sub ∨ (Tables.tables c).stResponse = some sub)
    (hp : ∀ ch ∈ p, isSpace ch = false ∧ ch ≠ ';') : Wire c ⟨m.node, m.child, m.type, m.ack, sub, p⟩ := by
  have hf := reply_facts c
  simp only [replyFacts, Bool.and_eq_true] at hf
  have hsub : subOk (Tables.tables c) (Tables.tables c).mtStream (some sub) [[.str]] = true := by
    rcases hs with h | h
    · rw [← h]; exact hf.1.1.1.1.1.1.1.1.1.1.1.1.1.1.2
    · rw [← h]; exact hf.1.1.1.1.1.1.1.1.1.1.1.1.1.2
  simp only [subOk, Bool.and_eq_true, beq_iff_eq, decide_eq_true_eq] at hsub
  obtain ⟨⟨h1, h2⟩, h3⟩ := hsub
  obtain ⟨_, hlim⟩ := accepted_facts ha
  refine ⟨?_, carryable_of_chars p hp, ?_⟩
  · have hv := ha.1
    simp only [validate, headerOk, childOk, typeOk, Bool.and_eq_true, decide_eq_true_eq] at hv ⊢
    obtain ⟨⟨⟨⟨⟨hn, hch⟩, hty⟩, hack⟩, _⟩, _⟩ := hv
    have hne : (Tables.tables c).mtInternal ≠ (Tables.tables c).mtStream := by
      simpa using hf.1.1.1.1.1.1.1.1.1.1.2
    have n1 : ¬ (m.type = (Tables.tables c).mtInternal ∧
        (some m.sub = (Tables.tables c).iIdRequest ∨ some m.sub = (Tables.tables c).iIdResponse)) := by
      intro h; rw [ht] at h; exact hne h.1.symm
    have n2 : ¬ (m.type = (Tables.tables c).mtInternal ∧
        (some sub = (Tables.tables c).iIdRequest ∨ some sub = (Tables.tables c).iIdResponse)) := by
      intro h; rw [ht] at h; exact hne h.1.symm
    simp only [n1, ↓reduceIte] at hch
    refine ⟨⟨⟨⟨⟨hn, ?_⟩, hty⟩, hack⟩, ?_⟩, ?_⟩
    · simp only [n2, ↓reduceIte]; exact hch
    · rw [ht]; exact h1
    · rw [ht, h2]; rfl
  · exact ⟨hlim.1, hlim.2.1, hlim.2.2.1, hlim.2.2.2.1, numDigits_small _ h3⟩

/-- a set command built by `createSetMessage` -/
theorem wire_created (g : GW) (node child : Int) (vt : Option Int) (value : Str) (ack : Int) (msg : Msg)
    (hm : createSetMessage g node child vt value ack = .ok msg) (hc : carryable value) : Wire g.const msg := by
  obtain ⟨vti, _, hm', hv, he⟩ := createSetMessage_node _ _ _ _ _ _ _ hm
  refine ⟨hv, by rw [hm']; exact hc, (encode_isSome_iff msg).mp he⟩

end MySensors
