/- Lemmas about the `int()` / `str()` model (core Lean only). -/
import MySensors.Py.Int
import MySensors.Lemmas.Str

namespace MySensors

/-! ### digits -/

theorem digitVal_digitChar : ∀ d : Fin 10, digitVal (digitChar d.val) = some d.val := by decide

theorem digitVal_digitChar' (d : Nat) (h : d < 10) : digitVal (digitChar d) = some d :=
  digitVal_digitChar ⟨d, h⟩

theorem digitChar_props : ∀ d : Fin 10,
    isSpace (digitChar d.val) = false ∧ isIntSpace (digitChar d.val) = false ∧
    digitChar d.val ≠ ';' ∧ digitChar d.val ≠ '-' ∧ digitChar d.val ≠ '+' ∧
    digitChar d.val ≠ '_' ∧ digitChar d.val ≠ '/' ∧ digitChar d.val ≠ '\n' := by decide

theorem minus_props : isSpace '-' = false ∧ isIntSpace '-' = false ∧ digitVal '-' = none := by decide

theorem natDigits_lt (n : Nat) : ∀ d ∈ natDigits n, d < 10 := by
  induction n using natDigits.induct with
  | case1 n h => rw [natDigits]; simp [h]
  | case2 n h ih =>
    rw [natDigits]; simp [h]
    intro d hd
    rcases hd with hd | hd
    · exact ih d hd
    · omega

theorem natDigits_ne_nil (n : Nat) : natDigits n ≠ [] := by
  rw [natDigits]; split <;> simp

theorem ofDigits_append (a b : List Nat) :
    ofDigits (a ++ b) = b.foldl (fun a d => 10 * a + d) (ofDigits a) := by
  simp [ofDigits, List.foldl_append]

theorem ofDigits_natDigits (n : Nat) : ofDigits (natDigits n) = n := by
  induction n using natDigits.induct with
  | case1 n h => rw [natDigits]; simp [h, ofDigits]
  | case2 n h ih =>
    rw [natDigits]; simp only [h, ↓reduceIte]
    rw [ofDigits_append, ih]; simp; omega

/-- `n < 10 ^ (natDigits n).length` and for `n ≥ 10` also a lower bound -/
theorem natDigits_length_le (n k : Nat) (hk : 0 < k) (h : n < 10 ^ k) : (natDigits n).length ≤ k := by
  induction n using natDigits.induct generalizing k with
  | case1 n hn => rw [natDigits]; simp [hn]; omega
  | case2 n hn ih =>
    rw [natDigits]; simp only [hn, ↓reduceIte, List.length_append, List.length_singleton]
    cases k with
    | zero => omega
    | succ k =>
      cases k with
      | zero => simp at h; omega
      | succ k =>
        have : n / 10 < 10 ^ (k + 1) := by
          rw [Nat.div_lt_iff_lt_mul (by omega)]
          calc n < 10 ^ (k + 1 + 1) := h
            _ = 10 ^ (k + 1) * 10 := by rw [Nat.pow_succ]
        have := ih (k + 1) (by omega) this
        omega

theorem ofDigits_lt (ds : List Nat) (h : ∀ d ∈ ds, d < 10) : ofDigits ds < 10 ^ ds.length := by
  suffices ∀ (acc k : Nat), acc < 10 ^ k →
      ds.foldl (fun a d => 10 * a + d) acc < 10 ^ (k + ds.length) by
    simpa [ofDigits] using this 0 0 (by simp)
  induction ds with
  | nil => intro acc k hk; simpa using hk
  | cons d ds ih =>
    intro acc k hk
    have hd : d < 10 := h d (by simp)
    have : 10 * acc + d < 10 ^ (k + 1) := by
      rw [Nat.pow_succ]; omega
    have := ih (fun x hx => h x (by simp [hx])) (10 * acc + d) (k + 1) this
    simpa [List.foldl_cons, Nat.add_assoc, Nat.add_comm 1] using this

theorem parseDigits_digits (ds : List Nat) (hlt : ∀ d ∈ ds, d < 10) (prev : Bool)
    (h : prev = true ∨ ds ≠ []) : parseDigits prev (ds.map digitChar) = some ds := by
  induction ds generalizing prev with
  | nil =>
    rcases h with h | h
    · simp [parseDigits, h]
    · exact absurd rfl h
  | cons d ds ih =>
    have hd := hlt d (by simp)
    simp only [List.map_cons, parseDigits, digitVal_digitChar' d hd]
    rw [ih (fun x hx => hlt x (by simp [hx])) true (Or.inl rfl)]
    rfl

/-- every digit list produced by the parser has entries below 10 -/
theorem parseDigits_lt (s : Str) (prev : Bool) (ds : List Nat)
    (h : parseDigits prev s = some ds) : ∀ d ∈ ds, d < 10 := by
  induction s generalizing prev ds with
  | nil => simp [parseDigits] at h; simp [h.2]
  | cons c cs ih =>
    simp only [parseDigits] at h
    cases hv : digitVal c with
    | some d =>
      rw [hv] at h
      simp only [Option.map_eq_some_iff] at h
      rcases h with ⟨ds', h1, rfl⟩
      have hd : d < 10 := by
        unfold digitVal at hv
        split at hv
        · rename_i z hz
          have := List.find?_some hz
          simp at hv this
          omega
        · simp at hv
      intro x hx
      simp at hx
      rcases hx with rfl | hx
      · exact hd
      · exact ih true ds' h1 x hx
    | none =>
      rw [hv] at h
      simp only at h
      split at h
      · exact ih false ds h
      · simp at h

theorem parseDigits_ne_nil (s : Str) (ds : List Nat) (h : parseDigits false s = some ds) :
    ds ≠ [] := by
  cases s with
  | nil => simp [parseDigits] at h
  | cons c cs =>
    simp only [parseDigits] at h
    cases hv : digitVal c with
    | some d =>
      rw [hv] at h
      simp only [Option.map_eq_some_iff] at h
      rcases h with ⟨ds', _, rfl⟩
      simp
    | none => rw [hv] at h; simp at h

/-! ### rendering -/

theorem renderNat_chars (n : Nat) : ∀ c ∈ renderNat n, ∃ d : Fin 10, c = digitChar d.val := by
  intro c hc
  simp only [renderNat, List.mem_map] at hc
  rcases hc with ⟨d, hd, rfl⟩
  exact ⟨⟨d, natDigits_lt n d hd⟩, rfl⟩

theorem renderNat_ne_nil (n : Nat) : renderNat n ≠ [] := by
  simp [renderNat, natDigits_ne_nil]

theorem parseUnsigned_renderNat (n : Nat) (h : (natDigits n).length ≤ PyTables.intMaxDigits) :
    parseUnsigned (renderNat n) = some n := by
  unfold parseUnsigned renderNat
  rw [parseDigits_digits _ (natDigits_lt n) false (Or.inr (natDigits_ne_nil n))]
  simp [h, ofDigits_natDigits]

/-- characters of a rendered integer: ASCII digits or '-' -/
theorem renderInt_chars (n : Int) :
    ∀ c ∈ renderInt n, c = '-' ∨ ∃ d : Fin 10, c = digitChar d.val := by
  intro c hc
  cases n with
  | ofNat k => exact Or.inr (renderNat_chars k c hc)
  | negSucc k =>
    simp only [renderInt, List.mem_cons] at hc
    rcases hc with rfl | hc
    · exact Or.inl rfl
    · exact Or.inr (renderNat_chars _ c hc)

theorem renderInt_ne_nil (n : Int) : renderInt n ≠ [] := by
  cases n with
  | ofNat k => exact renderNat_ne_nil k
  | negSucc k => simp [renderInt]

theorem renderInt_noSemi (n : Int) : ';' ∉ renderInt n := by
  intro h
  rcases renderInt_chars n _ h with h | ⟨d, h⟩
  · exact absurd h (by decide)
  · exact (digitChar_props d).2.2.1 h.symm

theorem renderInt_noSlash (n : Int) : '/' ∉ renderInt n := by
  intro h
  rcases renderInt_chars n _ h with h | ⟨d, h⟩
  · exact absurd h (by decide)
  · exact (digitChar_props d).2.2.2.2.2.2.1 h.symm

theorem renderInt_noIntSpace (n : Int) : ∀ c ∈ renderInt n, isIntSpace c = false := by
  intro c hc
  rcases renderInt_chars n c hc with rfl | ⟨d, rfl⟩
  · exact minus_props.2.1
  · exact (digitChar_props d).2.1

theorem strip_renderInt (n : Int) :
    rstripBy isIntSpace (lstripBy isIntSpace (renderInt n)) = renderInt n := by
  have h1 : lstripBy isIntSpace (renderInt n) = renderInt n := by
    apply lstripBy_fixed
    intro c hc
    exact renderInt_noIntSpace n c (List.mem_of_mem_head? hc)
  rw [h1]
  apply rstripBy_fixed
  intro c hc
  exact renderInt_noIntSpace n c (List.mem_of_getLast? hc)

theorem renderNat_head (n : Nat) : ∃ d : Fin 10, ∃ t, renderNat n = digitChar d.val :: t := by
  cases h : renderNat n with
  | nil => exact absurd h (renderNat_ne_nil n)
  | cons c t =>
    rcases renderNat_chars n c (by rw [h]; simp) with ⟨d, rfl⟩
    exact ⟨d, t, rfl⟩

theorem pyInt_renderInt (n : Int) (h : numDigits n ≤ PyTables.intMaxDigits) :
    pyInt (renderInt n) = some n := by
  unfold pyInt
  rw [strip_renderInt]
  cases n with
  | ofNat k =>
    simp only [renderInt]
    rcases renderNat_head k with ⟨d, t, ht⟩
    have h1 := (digitChar_props d).2.2.2.1
    have h2 := (digitChar_props d).2.2.2.2.1
    have hp := parseUnsigned_renderNat k (by simpa [numDigits] using h)
    rw [ht] at hp ⊢
    split
    · rename_i heq; simp at heq; exact absurd heq.1 h1
    · rename_i heq; simp at heq; exact absurd heq.1 h2
    · rw [hp]; rfl
  | negSucc k =>
    simp only [renderInt]
    have hp := parseUnsigned_renderNat (k + 1) (by simpa [numDigits] using h)
    rw [hp]
    simp [Int.negSucc_eq]

/-- an integer accepted by `int()` can be rendered again (digit limit) -/
theorem parseUnsigned_numDigits (s : Str) (n : Nat) (h : parseUnsigned s = some n) :
    (natDigits n).length ≤ PyTables.intMaxDigits := by
  unfold parseUnsigned at h
  cases hp : parseDigits false s with
  | none => rw [hp] at h; simp at h
  | some ds =>
    rw [hp] at h
    simp only at h
    split at h
    · rename_i hl
      simp at h
      subst h
      have hlt := ofDigits_lt ds (parseDigits_lt s false ds hp)
      have hne : 0 < ds.length := List.length_pos_iff.mpr (parseDigits_ne_nil s ds hp)
      exact Nat.le_trans (natDigits_length_le _ _ hne hlt) hl
    · simp at h

theorem pyInt_numDigits (s : Str) (n : Int) (h : pyInt s = some n) :
    numDigits n ≤ PyTables.intMaxDigits := by
  unfold pyInt at h
  split at h
  all_goals
    simp only [Option.map_eq_some_iff] at h
    rcases h with ⟨k, hk, rfl⟩
    have := parseUnsigned_numDigits _ k hk
    simpa [numDigits] using this

theorem pyStrInt_eq (n : Int) (h : numDigits n ≤ PyTables.intMaxDigits) :
    pyStrInt n = some (renderInt n) := by simp [pyStrInt, h]

end MySensors
