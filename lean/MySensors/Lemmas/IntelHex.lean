/-
  Round trip of the Intel-HEX model: whatever `hexWrite` emits, `hexLoad` reads back.
  Layers: text (lines), records (hex digits, checksum), memory image.  Core Lean only.
-/
import MySensors.Model.IntelHex
import MySensors.Lemmas.Ota

namespace MySensors

/-! ### hex digits, upper case -/

theorem hexVal_hexDigitCharU : ∀ d, d < 16 → hexVal (hexDigitCharU d) = some d := by decide

theorem isBreak_hexDigitCharU : ∀ d, d < 16 → isBreak (hexDigitCharU d) = false := by decide

theorem unhexlify_hexByteU_cons (b : Nat) (hb : b < 256) (rest : Str) :
    unhexlify (hexByteU b ++ rest) = (unhexlify rest).map (b :: ·) := by
  have h1 : hexVal (hexDigitCharU (b / 16 % 16)) = some (b / 16 % 16) :=
    hexVal_hexDigitCharU _ (Nat.mod_lt _ (by decide))
  have h2 : hexVal (hexDigitCharU (b % 16)) = some (b % 16) :=
    hexVal_hexDigitCharU _ (Nat.mod_lt _ (by decide))
  have hb' : 16 * (b / 16 % 16) + b % 16 = b := by omega
  simp only [hexByteU, List.cons_append, List.nil_append, unhexlify, h1, h2]
  cases unhexlify rest <;> simp [hb']

theorem unhexlify_hexBytesU (bs : List Nat) (h : IsBytes bs) : unhexlify (hexBytesU bs) = some bs := by
  induction bs with
  | nil => rfl
  | cons b bs ih =>
    have : hexBytesU (b :: bs) = hexByteU b ++ hexBytesU bs := by simp [hexBytesU]
    rw [this, unhexlify_hexByteU_cons b h.head, ih h.tail]
    rfl

theorem hexBytesU_noBreak (bs : List Nat) : ∀ c ∈ hexBytesU bs, isBreak c = false := by
  intro c hc
  simp only [hexBytesU, List.mem_flatMap] at hc
  obtain ⟨b, _, hb⟩ := hc
  simp only [hexByteU, List.mem_cons, List.not_mem_nil, or_false] at hb
  rcases hb with h | h <;> subst h <;> exact isBreak_hexDigitCharU _ (Nat.mod_lt _ (by decide))

theorem recLine_noBreak (bs : List Nat) : ∀ c ∈ recLine bs, isBreak c = false := by
  intro c hc
  simp only [recLine, List.mem_cons] at hc
  rcases hc with h | h
  · subst h; decide
  · exact hexBytesU_noBreak _ c h

theorem recLine_ne_nil (bs : List Nat) : recLine bs ≠ [] := by simp [recLine]

/-! ### text layer -/

theorem hexLinesAux_line (l rest : Str) (hl : ∀ c ∈ l, isBreak c = false) :
    ∀ acc : Str, (acc ≠ [] ∨ l ≠ []) →
      hexLinesAux acc (l ++ '\n' :: rest) = (acc.reverse ++ l) :: hexLinesAux [] rest := by
  induction l with
  | nil =>
    intro acc hne
    have hacc : acc ≠ [] := by
      rcases hne with h | h
      · exact h
      · exact absurd rfl h
    have he : acc.isEmpty = false := by cases acc <;> simp_all
    have hb : isBreak '\n' = true := by decide
    simp [hexLinesAux, hb, he]
  | cons c cs ih =>
    intro acc _
    have hc : isBreak c = false := hl c (List.mem_cons_self ..)
    have := ih (fun x hx => hl x (List.mem_cons_of_mem _ hx)) (c :: acc) (Or.inl (List.cons_ne_nil _ _))
    simp only [List.cons_append, hexLinesAux, hc]
    simpa using this

theorem hexLines_joinLines (ls : List Str) (h : ∀ l ∈ ls, l ≠ [] ∧ ∀ c ∈ l, isBreak c = false) :
    hexLines (joinLines ls) = ls := by
  induction ls with
  | nil => rfl
  | cons l ls ih =>
    have hl := h l (List.mem_cons_self ..)
    have hj : joinLines (l :: ls) = l ++ '\n' :: joinLines ls := by simp [joinLines]
    have ih' := ih (fun x hx => h x (List.mem_cons_of_mem _ hx))
    unfold hexLines at ih' ⊢
    rw [hj, hexLinesAux_line l _ hl.2 [] (Or.inr hl.1), ih']
    simp

/-! ### record layer -/

theorem cksum_lt (bs : List Nat) : cksum bs < 256 := Nat.mod_lt _ (by decide)

theorem hexLine_recLine (st : HexSt) (bs : List Nat) (h : IsBytes bs) :
    hexLine st (recLine bs) = hexRecord st (bs ++ [cksum bs]) := by
  have hb : IsBytes (bs ++ [cksum bs]) := by
    apply h.append
    intro x hx
    simp only [List.mem_cons, List.not_mem_nil, or_false] at hx
    subst hx
    exact cksum_lt bs
  simp [recLine, hexLine, unhexlify_hexBytesU _ hb, hexParsed]

theorem hexRecord_eof (st : HexSt) : hexRecord st (eofRec ++ [cksum eofRec]) = .eof := by
  simp [eofRec, cksum, hexRecord, hexTyped]

theorem hexRecord_ext (st : HexSt) (hi : Nat) (hhi : hi < 65536) :
    hexRecord st (extRec hi ++ [cksum (extRec hi)]) = .next { st with offset := hi * 65536 } := by
  have hw : hi / 256 % 256 * 256 + hi % 256 = hi := by omega
  have hs : (2 + 0 + 0 + 4 + (hi / 256 % 256 + (hi % 256 +
      (256 - (2 + (0 + (0 + (4 + (hi / 256 % 256 + (hi % 256 + 0)))))) % 256) % 256))) % 256 = 0 := by
    omega
  simp [extRec, cksum, hexRecord, hexTyped, word16, hw]
  omega

theorem hexRecord_data (st : HexSt) (a : Nat) (data : List Nat) (ha : a < 65536) :
    hexRecord st (dataRec a data ++ [cksum (dataRec a data)]) = hexData st a data := by
  have hw : a / 256 % 256 * 256 + a % 256 = a := by omega
  have hck : cksum (dataRec a data) =
      (256 - (data.length + (a / 256 % 256 + (a % 256 + (0 + data.sum)))) % 256) % 256 := by
    simp [cksum, dataRec, List.sum_cons]
  have hsum : (data.length + a / 256 % 256 + a % 256 + 0 +
      (data ++ [cksum (dataRec a data)]).sum) % 256 = 0 := by
    rw [List.sum_append, hck]
    simp only [List.sum_cons, List.sum_nil]
    omega
  have hcond : (data ++ [cksum (dataRec a data)]).length = data.length + 1 ∧ 0 ≤ 5 ∧
      (data.length + a / 256 % 256 + a % 256 + 0 +
        (data ++ [cksum (dataRec a data)]).sum) % 256 = 0 := ⟨by simp, by decide, hsum⟩
  show hexRecord st (data.length :: a / 256 % 256 :: a % 256 :: 0 ::
    (data ++ [cksum (dataRec a data)])) = _
  rw [hexRecord, if_pos hcond]
  simp [hexTyped, hw]

/-! ### memory layer -/

/-- `m` holds exactly the first `k` bytes of `img`, stored from `base` -/
structure Rep (m : HexMem) (base k : Nat) (img : List Nat) : Prop where
  bounds : memBounds m = if k = 0 then none else some (base, base + k - 1)
  inside : ∀ i, i < k → memGet (base + i) m = img[i]?
  outside : ∀ a, (a < base ∨ base + k ≤ a) → memGet a m = none

theorem Rep.empty (base : Nat) (img : List Nat) : Rep [] base 0 img :=
  ⟨rfl, fun _ h => absurd h (Nat.not_lt_zero _), fun _ _ => rfl⟩

theorem Rep.free {m : HexMem} {base k : Nat} {img : List Nat} (h : Rep m base k img) (n : Nat) :
    memFree (base + k) n m = true := by
  unfold memFree
  rw [List.all_eq_true]
  intro x hx
  rw [List.mem_range'_1] at hx
  rw [h.outside x (Or.inr hx.1)]
  rfl

theorem Rep.push {m : HexMem} {base k : Nat} {img : List Nat} (h : Rep m base k img) (n : Nat)
    (hn : 1 ≤ n) (hk : k + n ≤ img.length) :
    Rep (⟨base + k, ((img.drop k).take n).length, (img.drop k).take n⟩ :: m) base (k + n) img := by
  have hlen : ((img.drop k).take n).length = n := by
    rw [List.length_take, List.length_drop]; omega
  rw [hlen]
  refine ⟨?_, ?_, ?_⟩
  · have hn0 : ¬ n = 0 := by omega
    have hkn : ¬ k + n = 0 := by omega
    simp only [memBounds, hn0, if_false, h.bounds, hkn]
    by_cases hk0 : k = 0
    · subst hk0; simp
    · simp only [hk0, if_false]
      congr 2 <;> omega
  · intro i hi
    by_cases hik : i < k
    · have hc : ¬ (base + k ≤ base + i ∧ base + i < base + k + n) := by omega
      simp only [memGet, hc, if_false]
      exact h.inside i hik
    · have hc : base + k ≤ base + i ∧ base + i < base + k + n := by omega
      simp only [memGet, hc, and_self, if_true]
      have e : base + i - (base + k) = i - k := by omega
      rw [e, List.getElem?_take, if_pos (by omega), List.getElem?_drop]
      congr 1
      omega
  · intro a ha
    have hc : ¬ (base + k ≤ a ∧ a < base + k + n) := by omega
    simp only [memGet, hc, if_false]
    exact h.outside a (by omega)

theorem Rep.toBin {m : HexMem} {base : Nat} {img : List Nat} (h : Rep m base img.length img)
    (hne : 1 ≤ img.length) : memToBin m = img := by
  have hb := h.bounds
  have hn0 : ¬ img.length = 0 := by omega
  simp only [hn0, if_false] at hb
  unfold memToBin
  rw [hb]
  have hcount : base + img.length - 1 + 1 - base = img.length := by omega
  simp only [hcount]
  apply List.ext_getElem?
  intro i
  rw [List.getElem?_map]
  by_cases hi : i < img.length
  · rw [List.getElem?_range' hi, Option.map_some, Nat.one_mul, h.inside i hi,
      List.getElem?_eq_getElem hi]
    rfl
  · rw [List.getElem?_eq_none (by rw [List.length_range']; omega), Option.map_none]
    exact (List.getElem?_eq_none (by omega)).symm

/-! ### the writer's records are read back -/

theorem hexRun_eof (st : HexSt) : hexRun st [recLine eofRec] = some st := by
  have : hexLine st (recLine eofRec) = .eof := by
    rw [hexLine_recLine st eofRec (by intro x hx; simp [eofRec] at hx; omega), hexRecord_eof]
  simp [hexRun, this]

theorem isBytes_extRec (hi : Nat) : IsBytes (extRec hi) := by
  intro x hx
  simp [extRec] at hx
  omega

theorem hexRun_ext (st : HexSt) (cur hi : Nat) (hoff : st.offset = cur * 65536) (hhi : hi < 65536)
    (rest : List Str) :
    hexRun st (extLines cur hi ++ rest) = hexRun { st with offset := hi * 65536 } rest := by
  unfold extLines
  by_cases hc : cur = hi
  · subst hc
    have : ({ st with offset := cur * 65536 } : HexSt) = st := by cases st; simp_all
    simp [this]
  · have hl : hexLine st (recLine (extRec hi)) = .next { st with offset := hi * 65536 } := by
      rw [hexLine_recLine st _ (isBytes_extRec hi), hexRecord_ext st hi hhi]
    simp [hc, hexRun, hl]

theorem isBytes_dataRec (a : Nat) (data : List Nat) (hd : IsBytes data) (hl : data.length < 256) :
    IsBytes (dataRec a data) := by
  intro x hx
  simp only [dataRec, List.mem_cons] at hx
  rcases hx with h | h | h | h | h
  · omega
  · omega
  · omega
  · omega
  · exact hd x h

/-- bytes in the next data record -/
def wn (recLen addr : Nat) (img : List Nat) : Nat :=
  min (min recLen (65536 - addr % 65536)) img.length

theorem hexWriteAux_nil (recLen fuel cur addr : Nat) :
    hexWriteAux recLen fuel cur addr [] = [recLine eofRec] := by
  cases fuel <;> rfl

theorem hexWriteAux_step (recLen fuel cur addr : Nat) (img : List Nat) (h : img ≠ []) :
    hexWriteAux recLen (fuel + 1) cur addr img =
      extLines cur (addr / 65536) ++
        recLine (dataRec (addr % 65536) (img.take (wn recLen addr img))) ::
          hexWriteAux recLen fuel (addr / 65536) (addr + wn recLen addr img)
            (img.drop (wn recLen addr img)) := by
  cases img with
  | nil => exact absurd rfl h
  | cons b bs => rfl

theorem hexRun_write (recLen : Nat) (h1 : 1 ≤ recLen) (h255 : recLen ≤ 255) (img : List Nat)
    (himg : IsBytes img) (base : Nat) (h32 : base + img.length ≤ 4294967296) :
    ∀ (fuel k cur : Nat) (st : HexSt), k ≤ img.length → img.length - k ≤ fuel →
      st.offset = cur * 65536 → Rep st.mem base k img →
      ∃ st', hexRun st (hexWriteAux recLen fuel cur (base + k) (img.drop k)) = some st' ∧
        Rep st'.mem base img.length img := by
  intro fuel
  induction fuel with
  | zero =>
    intro k cur st hk hf _ hrep
    have hkl : k = img.length := by omega
    subst hkl
    rw [List.drop_length, hexWriteAux_nil, hexRun_eof]
    exact ⟨st, rfl, hrep⟩
  | succ fuel ih =>
    intro k cur st hk hf hoff hrep
    by_cases hkl : k = img.length
    · subst hkl
      rw [List.drop_length, hexWriteAux_nil, hexRun_eof]
      exact ⟨st, rfl, hrep⟩
    · have hklt : k < img.length := by omega
      have hne : img.drop k ≠ [] := by
        intro hnil
        have := List.drop_eq_nil_iff.mp hnil
        omega
      have hdl : (img.drop k).length = img.length - k := List.length_drop ..
      -- size of this record
      have hn1 : 1 ≤ wn recLen (base + k) (img.drop k) := by
        unfold wn; rw [hdl]; omega
      have hnk : k + wn recLen (base + k) (img.drop k) ≤ img.length := by
        unfold wn; rw [hdl]; omega
      have hnr : wn recLen (base + k) (img.drop k) ≤ 255 := by
        unfold wn; omega
      generalize hn : wn recLen (base + k) (img.drop k) = n at hn1 hnk hnr
      rw [hexWriteAux_step _ _ _ _ _ hne, hn]
      have hhi : (base + k) / 65536 < 65536 := by omega
      rw [hexRun_ext st cur _ hoff hhi]
      -- the data record
      have hdat : IsBytes ((img.drop k).take n) := (himg.drop k).take n
      have hdlen : ((img.drop k).take n).length = n := by
        rw [List.length_take, hdl]; omega
      have haddr : (base + k) % 65536 + (base + k) / 65536 * 65536 = base + k := by omega
      have hline : hexLine { st with offset := (base + k) / 65536 * 65536 }
          (recLine (dataRec ((base + k) % 65536) ((img.drop k).take n))) =
          .next { st with offset := (base + k) / 65536 * 65536,
                          mem := ⟨base + k, ((img.drop k).take n).length, (img.drop k).take n⟩ :: st.mem } := by
        rw [hexLine_recLine _ _ (isBytes_dataRec _ _ hdat (by omega)),
          hexRecord_data _ _ _ (Nat.mod_lt _ (by decide))]
        simp only [hexData, haddr, hrep.free, if_true]
      simp only [hexRun, hline]
      have hrep' := hrep.push n hn1 hnk
      have := ih (k + n) ((base + k) / 65536)
        { st with offset := (base + k) / 65536 * 65536,
                  mem := ⟨base + k, ((img.drop k).take n).length, (img.drop k).take n⟩ :: st.mem }
        hnk (by omega) rfl hrep'
      rw [List.drop_drop, Nat.add_assoc]
      exact this

/-- every record line the writer emits is non-empty and free of CR / LF -/
theorem hexWriteAux_lines (recLen : Nat) :
    ∀ (fuel cur addr : Nat) (img : List Nat), ∀ l ∈ hexWriteAux recLen fuel cur addr img,
      l ≠ [] ∧ ∀ c ∈ l, isBreak c = false := by
  intro fuel
  induction fuel with
  | zero =>
    intro cur addr img l hl
    cases img with
    | nil =>
      simp only [hexWriteAux, List.mem_cons, List.not_mem_nil, or_false] at hl
      subst hl; exact ⟨recLine_ne_nil _, recLine_noBreak _⟩
    | cons b bs =>
      simp only [hexWriteAux, List.mem_cons, List.not_mem_nil, or_false] at hl
      subst hl; exact ⟨recLine_ne_nil _, recLine_noBreak _⟩
  | succ fuel ih =>
    intro cur addr img l hl
    cases img with
    | nil =>
      simp only [hexWriteAux, List.mem_cons, List.not_mem_nil, or_false] at hl
      subst hl; exact ⟨recLine_ne_nil _, recLine_noBreak _⟩
    | cons b bs =>
      rw [hexWriteAux_step _ _ _ _ _ (List.cons_ne_nil _ _)] at hl
      rcases List.mem_append.mp hl with h | h
      · unfold extLines at h
        split at h
        · cases h
        · simp only [List.mem_cons, List.not_mem_nil, or_false] at h
          subst h; exact ⟨recLine_ne_nil _, recLine_noBreak _⟩
      · rcases List.mem_cons.mp h with h | h
        · subst h; exact ⟨recLine_ne_nil _, recLine_noBreak _⟩
        · exact ih _ _ _ l h

/-- `hexLoad ∘ hexWrite = id`: any non-empty image, any base address, any record length
    1..255, as long as the addresses fit 32 bits -/
theorem hexLoad_hexWrite (base recLen : Nat) (img : List Nat) (himg : IsBytes img)
    (hne : 1 ≤ img.length) (h1 : 1 ≤ recLen) (h255 : recLen ≤ 255)
    (h32 : base + img.length ≤ 4294967296) :
    hexLoad (hexWrite base recLen img) = some img := by
  unfold hexLoad hexWrite hexWriteLines
  rw [hexLines_joinLines _ (hexWriteAux_lines recLen _ _ _ _)]
  obtain ⟨st', hrun, hrep⟩ := hexRun_write recLen h1 h255 img himg base h32 img.length 0 0 {}
    (Nat.zero_le _) (by omega) rfl (Rep.empty base img)
  simp only [Nat.add_zero, List.drop_zero] at hrun
  rw [hrun]
  simp only [Option.map_some]
  rw [hrep.toBin hne]

end MySensors
