/- Lemmas for the MQTT model (core Lean only). -/
import MySensors.Model.Mqtt
import MySensors.Lemmas.Codec

namespace MySensors

/-! ### split / join -/

theorem consHead_append (c : Char) (l r : List Str) (h : l ≠ []) :
    consHead c (l ++ r) = consHead c l ++ r := by
  cases l with
  | nil => exact absurd rfl h
  | cons x xs => rfl

/-- `(a + d + b).split(d) = a.split(d) + b.split(d)` -/
theorem splitOn_append_cons (d : Char) (a b : Str) :
    splitOn d (a ++ d :: b) = splitOn d a ++ splitOn d b := by
  induction a with
  | nil => simp [splitOn_cons_eq]
  | cons c cs ih =>
    by_cases hc : c = d
    · subst hc
      show splitOn c (c :: (cs ++ c :: b)) = _
      rw [splitOn_cons_eq, splitOn_cons_eq, ih]; rfl
    · show splitOn d (c :: (cs ++ d :: b)) = _
      rw [splitOn_cons_ne d c _ hc, splitOn_cons_ne d c _ hc, ih,
        consHead_append _ _ _ (splitOn_ne_nil d cs)]

theorem lastN_append_length {α} (n : Nat) (xs ls : List α) (h : ls.length = n) :
    lastN n (xs ++ ls) = ls := by
  unfold lastN
  rw [List.length_append, h, Nat.add_sub_cancel]
  exact List.drop_left

theorem mem_of_mem_lastN {α} (n : Nat) (l : List α) (x : α) (h : x ∈ lastN n l) : x ∈ l :=
  List.mem_of_mem_drop h

theorem lastN_length_le {α} (n : Nat) (l : List α) : (lastN n l).length ≤ n := by
  unfold lastN
  rw [List.length_drop]
  omega

theorem lastN_short {α} (n : Nat) (l : List α) (h : l.length < n) : (lastN n l).length < n := by
  unfold lastN
  rw [List.length_drop]
  omega

/-- the levels of a topic built from a prefix and five '/'-free levels -/
theorem lastN_split_topic (p : Str) (ls : List Str) (hlen : ls.length = 5) (hns : ∀ l ∈ ls, '/' ∉ l) :
    lastN 5 (splitOn '/' (p ++ '/' :: joinWith '/' ls)) = ls := by
  rw [splitOn_append_cons, splitOn_join '/' ls (by intro h; rw [h] at hlen; simp at hlen) hns]
  exact lastN_append_length 5 _ ls hlen

/-! ### what `parseMqtt` does -/

theorem parseMqtt_own (p : Str) (ls : List Str) (payload : Str) (qos : Option Int)
    (hlen : ls.length = 5) (hns : ∀ l ∈ ls, '/' ∉ l) :
    parseMqtt p (p ++ '/' :: joinWith '/' ls) payload qos
      = some (joinWith ';' (ls.set 3 (qosAck qos) ++ [payload])) := by
  unfold parseMqtt
  simp only [lastN_split_topic p ls hlen hns, hlen, true_and, if_true]

theorem parseMqtt_some (p topic payload : Str) (qos : Option Int) (s : Str)
    (h : parseMqtt p topic payload qos = some s) :
    (lastN 5 (splitOn '/' topic)).length = 5 ∧
    topic = p ++ '/' :: joinWith '/' (lastN 5 (splitOn '/' topic)) ∧
    s = joinWith ';' ((lastN 5 (splitOn '/' topic)).set 3 (qosAck qos) ++ [payload]) := by
  unfold parseMqtt at h
  simp only at h
  split at h
  · rename_i hc
    simp at h
    exact ⟨hc.1, hc.2, h.symm⟩
  · simp at h

/-! ### topicOf -/

theorem dropLast_two {α} (l : List α) (a b : α) : (l ++ [a, b]).dropLast.dropLast = l := by
  have : l ++ [a, b] = (l ++ [a]) ++ [b] := by simp
  rw [this, List.dropLast_concat, List.dropLast_concat]

theorem topicOf_eq (m : Msg) (hl : intsWithinLimit m) :
    topicOf m = '/' :: joinWith '/' [renderInt m.node, renderInt m.child, renderInt m.type,
      renderInt m.ack, renderInt m.sub] := by
  rcases hl with ⟨h1, h2, h3, h4, h5⟩
  unfold topicOf encodeWith
  simp only [pyStrInt_eq, h1, h2, h3, h4, h5, Option.getD_some]
  have e : [renderInt m.node, renderInt m.child, renderInt m.type, renderInt m.ack,
      renderInt m.sub, ([] : Str)] = [renderInt m.node, renderInt m.child, renderInt m.type,
      renderInt m.ack, renderInt m.sub] ++ [[]] := rfl
  rw [e, joinWith_snoc _ _ _ (by simp)]
  generalize joinWith '/' [renderInt m.node, renderInt m.child, renderInt m.type, renderInt m.ack,
      renderInt m.sub] = J
  have : '/' :: (J ++ '/' :: [] ++ ['\n']) = ('/' :: J) ++ ['/', '\n'] := by simp
  rw [this, dropLast_two]

theorem renderInt_zero : renderInt 0 = ['0'] := by
  show renderNat 0 = _; rw [renderNat, natDigits]; decide

theorem renderInt_one : renderInt 1 = ['1'] := by
  show renderNat 1 = _; rw [renderNat, natDigits]; decide

theorem numDigits_zero : numDigits 0 = 1 := by
  show (natDigits 0).length = 1; rw [natDigits]; decide

theorem numDigits_one : numDigits 1 = 1 := by
  show (natDigits 1).length = 1; rw [natDigits]; decide

/-- the ack flag a received message carries -/
def ackOfQos (qos : Option Int) : Int :=
  match qos with
  | none => 0
  | some q => if q > 0 then 1 else 0

theorem qosAck_render (qos : Option Int) : qosAck qos = renderInt (ackOfQos qos) := by
  unfold qosAck ackOfQos
  cases qos with
  | none => exact renderInt_zero.symm
  | some q =>
    by_cases h : q > 0
    · simp [h, renderInt_one]
    · simp [h, renderInt_zero]

theorem numDigits_ackOfQos (qos : Option Int) : numDigits (ackOfQos qos) ≤ PyTables.intMaxDigits := by
  have : numDigits (ackOfQos qos) = 1 := by
    unfold ackOfQos
    cases qos with
    | none => exact numDigits_zero
    | some q =>
      by_cases h : q > 0
      · simp [h, numDigits_one]
      · simp [h, numDigits_zero]
  rw [this]; decide

theorem decode_nil : decode [] = none := by decide

/-- decoding does not need the trailing newline -/
theorem decode_append_nl (s : Str) : decode (s ++ ['\n']) = decode s := by
  unfold decode rstrip
  rw [rstripBy_append_true _ _ _ isSpace_nl]

end MySensors
