/-
  Lemmas for the subscription part of C17 (core Lean only):
  * `send` / `handle_subscription` never propagate a callback exception;
  * frame walk over the gateway model: no step other than an MQTT child presentation adds a
    child to the tree, and that one reports the child in `Out.subs`; the gateway kind never
    changes;
  * the coverage invariant over `runSubs`.
-/
import MySensors.Lemmas.Mqtt
import MySensors.Lemmas.AList

namespace MySensors

/-! ### callbacks -/

theorem tryExcept_callCb (b : Bool) : tryExcept (callCb b) = .returned := by
  cases b <;> rfl

theorem mqttSend_returned (o : Str) (r raises : Bool) (msg : Option Str) :
    (mqttSend o r raises msg).2 = .returned := by
  unfold mqttSend
  split
  · rfl
  · rfl
  · split
    · rfl
    · exact tryExcept_callCb raises

theorem mqttSend_pub_indep (o : Str) (r raises : Bool) (msg : Option Str) :
    (mqttSend o r raises msg).1 = (mqttSend o r false msg).1 := by
  unfold mqttSend
  split
  · rfl
  · rfl
  · split <;> rfl

theorem secondToLast_isSome {α} : ∀ (l : List α), 2 ≤ l.length → (secondToLast l).isSome = true
  | [], h => by simp at h
  | [_], h => by simp at h
  | [_, _], _ => rfl
  | _ :: b :: c :: rest, _ => by
    show (secondToLast (b :: c :: rest)).isSome = true
    exact secondToLast_isSome (b :: c :: rest) (by simp)

theorem secondToLast_append_two {α} (xs : List α) (a b : α) :
    secondToLast (xs ++ [a, b]) = some a := by
  induction xs with
  | nil => rfl
  | cons x xs ih =>
    cases h : xs ++ [a, b] with
    | nil => simp at h
    | cons y r =>
      cases r with
      | nil =>
        have := congrArg List.length h
        simp at this
      | cons z r' =>
        show secondToLast (x :: (xs ++ [a, b])) = some a
        rw [h]
        show secondToLast (y :: z :: r') = some a
        rw [← h]; exact ih

theorem splitOn_length_two (s : Str) (h : '/' ∈ s) : 2 ≤ (splitOn '/' s).length := by
  obtain ⟨a, b, rfl⟩ := List.append_of_mem h
  rw [splitOn_append_cons, List.length_append]
  have ha : (splitOn '/' a).length ≠ 0 := by
    intro e; exact splitOn_ne_nil '/' a (List.length_eq_zero_iff.mp e)
  have hb : (splitOn '/' b).length ≠ 0 := by
    intro e; exact splitOn_ne_nil '/' b (List.length_eq_zero_iff.mp e)
  omega

theorem subQos_isSome (s : Str) (h : '/' ∈ s) : ∃ q, subQos s = some q := by
  unfold subQos
  have := secondToLast_isSome (splitOn '/' s) (splitOn_length_two s h)
  rcases Option.isSome_iff_exists.mp this with ⟨lv, hlv⟩
  exact ⟨_, by rw [hlv]; rfl⟩

/-- what `handle_subscription` does for topics containing a '/': every topic is offered to the
    callback with the QoS read from its second-to-last level, and the call returns -/
theorem subscribeAll_eq (p : Str) (r : Str → Bool) (topics : List Str)
    (ht : ∀ t ∈ topics, '/' ∈ p ++ t) :
    subscribeAll p r topics = (topics.map fun t => (p ++ t, (subQos (p ++ t)).getD 0), .returned) := by
  induction topics with
  | nil => rfl
  | cons t ts ih =>
    obtain ⟨q, hq⟩ := subQos_isSome (p ++ t) (ht t (by simp))
    have ih' := ih (fun x hx => ht x (by simp [hx]))
    simp only [subscribeAll, hq, tryExcept_callCb, ih', List.map_cons, Option.getD_some]

theorem subscribeAll_total (p : Str) (r : Str → Bool) (topics : List Str)
    (ht : ∀ t ∈ topics, '/' ∈ p ++ t) :
    (subscribeAll p r topics).2 = .returned ∧
    (subscribeAll p r topics).1.map (·.1) = topics.map (p ++ ·) := by
  rw [subscribeAll_eq p r topics ht]
  simp [List.map_map, Function.comp_def]

theorem subscribeAll_indep (p : Str) (r : Str → Bool) (topics : List Str)
    (ht : ∀ t ∈ topics, '/' ∈ p ++ t) :
    (subscribeAll p r topics).1 = (subscribeAll p (fun _ => false) topics).1 := by
  rw [subscribeAll_eq p r topics ht, subscribeAll_eq p _ topics ht]

theorem mem_slashJoin (p : Str) (ls : List Str) : '/' ∈ p ++ slashJoin ls := by
  unfold slashJoin; simp

theorem subQos_plus (p a b c : Str) (ha : '/' ∉ a) (hb : '/' ∉ b) (hc : '/' ∉ c) :
    subQos (p ++ slashJoin [a, b, c, plus, plus]) = some 0 := by
  unfold subQos slashJoin
  rw [splitOn_append_cons, splitOn_join '/' _ (by simp)]
  · have : splitOn '/' p ++ [a, b, c, plus, plus] = (splitOn '/' p ++ [a, b, c]) ++ [plus, plus] := by simp
    rw [this, secondToLast_append_two]
    have : pyInt plus = none := by decide
    simp [this]
  · intro f hf
    simp at hf
    rcases hf with rfl | rfl | rfl | rfl | rfl
    · exact ha
    · exact hb
    · exact hc
    · decide

/-! ### frame walk over the gateway model -/

/-- the kind is unchanged and no child appears -/
structure Frame (g g' : GW) : Prop where
  kind : g'.kind = g.kind
  noNew : ∀ k c, isKnown g' k (some c) = true → isKnown g k (some c) = true

theorem Frame.refl (g : GW) : Frame g g := ⟨rfl, fun _ _ h => h⟩

theorem Frame.trans {a b c : GW} (h1 : Frame a b) (h2 : Frame b c) : Frame a c :=
  ⟨h2.kind.trans h1.kind, fun k ch h => h1.noNew k ch (h2.noNew k ch h)⟩

theorem frame_sensors (g g' : GW) (hk : g'.kind = g.kind) (hs : g'.sensors = g.sensors) : Frame g g' := by
  refine ⟨hk, fun k c h => ?_⟩
  unfold isKnown at h ⊢
  rw [hs] at h
  exact h

theorem isKnown_setNode (g : GW) (k : Int) (n' : Node) (a c : Int) :
    isKnown (setNode g k n') a (some c)
      = if a = k then (aget c n'.children).isSome else isKnown g a (some c) := by
  unfold isKnown setNode
  by_cases h : a = k
  · subst h; simp [aget_aset_same]
  · simp only [aget_aset_ne k a n' g.sensors h, h, if_false]

theorem frame_setNode (g : GW) (k : Int) (n n' : Node) (h : aget k g.sensors = some n)
    (hch : ∀ c, (aget c n'.children).isSome = true → (aget c n.children).isSome = true) :
    Frame g (setNode g k n') := by
  refine ⟨rfl, fun a c hk => ?_⟩
  rw [isKnown_setNode] at hk
  by_cases e : a = k
  · subst e
    simp only [if_true] at hk
    unfold isKnown
    rw [h]
    exact hch c hk
  · simpa [e] using hk

theorem frame_alert (g : GW) (m : Msg) : Frame g (alert g m).1 :=
  frame_sensors _ _ rfl rfl

theorem frame_setNode_alert (g : GW) (k : Int) (n n' : Node) (m : Msg) (h : aget k g.sensors = some n)
    (hch : ∀ c, (aget c n'.children).isSome = true → (aget c n.children).isSome = true) :
    Frame g (alert (setNode g k n') m).1 :=
  (frame_setNode g k n n' h hch).trans (frame_alert _ m)

theorem frame_addSensor (g : GW) (id : Int) : Frame g (addSensor g id) := by
  unfold addSensor
  split
  · exact Frame.refl g
  · refine ⟨rfl, fun a c hk => ?_⟩
    unfold isKnown at hk ⊢
    simp only at hk
    rw [aget_append_not_mem] at hk
    cases ha : aget a g.sensors with
    | some x => rw [ha] at hk; exact hk
    | none =>
      rw [ha] at hk
      by_cases e : a = id
      · simp [e, aget] at hk
      · simp [e] at hk

theorem frame_ret (g : GW) : Frame g (ret g).1 := Frame.refl g
theorem frame_emit (g : GW) (l : List Str) : Frame g (emit g l).1 := Frame.refl g
theorem frame_fail (g : GW) (e : Exc) : Frame g (fail g e).1 := Frame.refl g

theorem frame_seq (g : GW) (r : Res) (f : GW → Res) (h1 : Frame g r.1) (h2 : ∀ g1, Frame g1 (f g1).1) :
    Frame g (seq r f).1 := by
  unfold seq
  split
  · exact h1
  · exact h1.trans (h2 r.1)

theorem frame_enqueue (g : GW) (node : Int) (line : Str) : Frame g (enqueue g node line) := by
  unfold enqueue
  split
  · exact Frame.refl g
  · rename_i n hn
    exact frame_setNode g node n _ hn (fun _ h => h)

theorem frame_route (g : GW) (m : Msg) : Frame g (route g m).1 := by
  unfold route
  split
  · exact frame_ret g
  · split
    · exact frame_enqueue g _ _
    · exact frame_emit g _

theorem frame_requestPresentation (g : GW) (node : Int) : Frame g (requestPresentation g node).1 := by
  unfold requestPresentation
  split
  · split
    · exact frame_ret g
    · exact frame_route g _
  · exact frame_ret g

theorem frame_ifKnown (g : GW) (node : Int) (child : Option Int) (f : GW → Res)
    (h : ∀ g1, Frame g1 (f g1).1) : Frame g (ifKnown g node child f).1 := by
  unfold ifKnown
  split
  · exact h g
  · exact frame_requestPresentation g node

theorem frame_withNode (g : GW) (node : Int) (f : Node → Res)
    (h : ∀ n, aget node g.sensors = some n → Frame g (f n).1) : Frame g (withNode g node f).1 := by
  unfold withNode
  split
  · exact frame_fail g _
  · rename_i n hn; exact h n hn

theorem frame_withConst (g : GW) (o : Option Int) (f : Int → Res) (h : ∀ a, Frame g (f a).1) :
    Frame g (withConst g o f).1 := by
  unfold withConst
  split
  · exact frame_fail g _
  · exact h _

theorem frame_replyCopy (g : GW) (m : Msg) (kw : Kw) : Frame g (replyCopy g m kw).1 := by
  unfold replyCopy
  split
  · exact frame_fail g _
  · exact frame_route g _

theorem frame_smartSleep (g : GW) (node : Int) : Frame g (smartSleep g node).1 := by
  unfold smartSleep
  apply frame_withNode
  intro n hn
  exact frame_setNode g node n _ hn (fun _ h => h)

theorem frame_rebootReply (g : GW) (m : Msg) (b : Bool) : Frame g (rebootReply g m b).1 := by
  unfold rebootReply
  split
  · apply frame_withConst; intro sub; exact frame_replyCopy _ _ _
  · exact frame_ret g

theorem clearDesired_children (n : Node) (c vt : Int) : (clearDesired n c vt).children = n.children := by
  unfold clearDesired; split <;> rfl

theorem updateChildValue_children (n : Node) (child vt : Int) (v : Str) (c : Int)
    (h : (aget c (updateChildValue n child vt v).children).isSome = true) :
    (aget c n.children).isSome = true := by
  unfold updateChildValue at h
  split at h
  · exact h
  · rename_i ch hch
    rw [clearDesired_children] at h
    simp only at h
    by_cases e : c = child
    · subst e; rw [hch]; rfl
    · rw [aget_aset_ne child c _ n.children e] at h; exact h

theorem frame_handleSet (g : GW) (m : Msg) : Frame g (handleSet g m).1 := by
  unfold handleSet
  apply frame_ifKnown; intro g1
  apply frame_withNode; intro n hn
  apply frame_seq
  · exact frame_setNode_alert _ _ n _ _ hn (updateChildValue_children n _ _ _)
  · intro g3; exact frame_rebootReply _ _ _

theorem frame_handleReq (g : GW) (m : Msg) : Frame g (handleReq g m).1 := by
  unfold handleReq
  apply frame_ifKnown; intro g1
  apply frame_withNode; intro n _
  split
  · exact frame_ret g1
  · exact frame_replyCopy _ _ _

theorem frame_handleHeartbeat (g : GW) (m : Msg) : Frame g (handleHeartbeat g m).1 := by
  unfold handleHeartbeat
  apply frame_withNode; intro n hn
  exact frame_setNode_alert _ _ n _ _ hn (fun _ h => h)

theorem frame_handleIdRequest (g : GW) (m : Msg) : Frame g (handleIdRequest g m).1 := by
  unfold handleIdRequest
  split
  · exact frame_ret g
  · apply (frame_addSensor g _).trans
    apply frame_withConst; intro sub
    exact frame_replyCopy _ _ _

theorem frame_handleInternalBy (h : HandlerId) (g : GW) (m : Msg) :
    Frame g (handleInternalBy h g m).1 := by
  unfold handleInternalBy
  split
  · exact frame_handleIdRequest g m
  · exact frame_replyCopy _ _ _
  · exact frame_replyCopy _ _ _
  · apply frame_ifKnown; intro g1; apply frame_withNode; intro n hn
    exact frame_setNode_alert _ _ n _ _ hn (fun _ h => h)
  · apply frame_ifKnown; intro g1; apply frame_withNode; intro n hn
    exact frame_setNode_alert _ _ n _ _ hn (fun _ h => h)
  · apply frame_ifKnown; intro g1; apply frame_withNode; intro n hn
    exact frame_setNode_alert _ _ n _ _ hn (fun _ h => h)
  · exact frame_sensors _ _ rfl rfl
  · exact frame_alert g m
  · apply frame_seq
    · exact frame_alert g m
    · intro g1; apply frame_withConst; intro sub; exact frame_replyCopy _ _ _
  · apply frame_ifKnown; intro g1
    apply frame_seq
    · exact frame_smartSleep g1 _
    · intro g2; exact frame_handleHeartbeat g2 m
  · apply frame_ifKnown; intro g1; exact frame_ret g1
  · apply frame_ifKnown; intro g1; exact frame_handleHeartbeat g1 m
  · apply frame_ifKnown; intro g1; exact frame_smartSleep g1 _
  · exact frame_fail g _

theorem configReply_g' (g : GW) (m : Msg) (fid : Int × Int) (fw : Fw) (sub : Int) :
    (configReply g m fid fw sub).g = g := by
  unfold configReply; split
  · rfl
  · split <;> rfl

theorem blockReply_g' (g : GW) (m : Msg) (rt rv blk : Nat) (fw : Fw) (sub : Int) :
    (blockReply g m rt rv blk fw sub).g = g := by
  unfold blockReply; split
  · rfl
  · split <;> rfl

theorem frame_setOta (g : GW) (o : OtaState) : Frame g { g with ota := o } :=
  frame_sensors _ _ rfl rfl

theorem frame_config (g : GW) (m : Msg) : Frame g (otaConfigResponse g m).g := by
  unfold otaConfigResponse
  split
  · exact Frame.refl g
  · split
    · exact Frame.refl g
    · split
      · rw [configReply_g']; exact frame_setOta g _
      · exact frame_setOta g _

theorem frame_block (g : GW) (m : Msg) : Frame g (otaBlockResponse g m).g := by
  unfold otaBlockResponse
  split
  · split
    · exact Frame.refl g
    · split
      · rw [blockReply_g']; exact frame_setOta g _
      · exact frame_setOta g _
  · exact Frame.refl g

theorem frame_streamResBy (h : HandlerId) (g : GW) (m : Msg) : Frame g (streamResBy h g m).g := by
  unfold streamResBy
  split
  · exact frame_config g m
  · exact frame_block g m
  · exact Frame.refl g

theorem frame_finishStream (g : GW) (r : StreamRes) (m : Msg) (h : Frame g r.g) :
    Frame g (finishStream r m).1 := by
  unfold finishStream
  split
  · exact h
  · apply h.trans
    apply frame_seq
    · exact frame_alert _ _
    · intro g3; split
      · exact frame_ret g3
      · exact frame_route _ _

theorem frame_handleStream (g : GW) (m : Msg) : Frame g (handleStream g m).1 := by
  unfold handleStream
  apply frame_ifKnown; intro g1
  split
  · exact frame_ret g1
  · exact frame_finishStream g1 _ m (frame_streamResBy _ g1 m)

theorem frame_handleInternal (g : GW) (m : Msg) : Frame g (handleInternal g m).1 := by
  unfold handleInternal
  split
  · exact frame_ret g
  · split
    · exact frame_ret g
    · exact frame_handleInternalBy _ g m

theorem frame_storeDesired (g : GW) (node child : Int) (n : Node) (vt : Option Int) (value : Str)
    (hn : aget node g.sensors = some n) : Frame g (storeDesired g node child n vt value).1 := by
  unfold storeDesired
  split
  · exact frame_fail g _
  · split
    · exact frame_fail g _
    · exact frame_fail g _
    · exact frame_setNode g node n _ hn (fun _ h => h)

theorem frame_setChildValue (g : GW) (node child : Int) (vt : VT) (value : Str) (ack : Option Int) :
    Frame g (setChildValue g node child vt value ack).1 := by
  unfold setChildValue
  apply frame_ifKnown; intro g1
  apply frame_withNode; intro n hn
  unfold setKnown
  split
  · exact frame_fail g1 _
  · split
    · exact frame_storeDesired g1 node child n _ value hn
    · exact frame_emit g1 _

theorem frame_scheduleNode (fwt fwv : Int) (g : GW) (nid : Int) : Frame g (scheduleNode fwt fwv g nid) := by
  unfold scheduleNode
  split
  · exact Frame.refl g
  · rename_i n hn
    exact (frame_setOta g _).trans (frame_setNode { g with ota := _ } nid n _ hn (fun _ h => h))

theorem frame_foldl_scheduleNode (fwt fwv : Int) (nids : List Int) (g : GW) :
    Frame g (nids.foldl (scheduleNode fwt fwv) g) := by
  induction nids generalizing g with
  | nil => exact Frame.refl g
  | cons x xs ih => exact (frame_scheduleNode fwt fwv g x).trans (ih _)

theorem frame_makeUpdate (g : GW) (nids : List Int) (fwt fwv : Int) (image : Option (List Nat)) :
    Frame g (makeUpdate g nids fwt fwv image) := by
  unfold makeUpdate
  split
  · exact Frame.refl g
  · split
    · split
      · exact Frame.refl g
      · exact (frame_setOta g _).trans (frame_foldl_scheduleNode _ _ _ _)
    · split
      · exact Frame.refl g
      · exact frame_foldl_scheduleNode _ _ _ _

theorem frame_save (g : GW) : Frame g (save g) := by
  unfold save
  split
  · exact frame_sensors _ _ rfl rfl
  · exact Frame.refl g

/-! ### the one step that adds a child -/

theorem frame_presentNode (g : GW) (m : Msg) : Frame g (presentNode g m).1 := by
  unfold presentNode
  apply (frame_addSensor g m.node).trans
  apply frame_withNode
  intro n hn
  exact frame_setNode_alert _ _ n _ _ hn (fun _ h => h)

/-- a child presentation adds at most the presented child, and only when `addsChild` -/
theorem presentChild_kids (g : GW) (m : Msg) (hc : ¬ m.child = Tables.systemChildId) :
    (presentChild g m).1.kind = g.kind ∧
    ∀ k c, isKnown (presentChild g m).1 k (some c) = true →
      isKnown g k (some c) = true ∨ (k = m.node ∧ c = m.child ∧ addsChild g m = true) := by
  unfold presentChild ifKnown
  by_cases hk : isKnown g m.node none = true
  · simp only [hk, if_true]
    unfold withNode
    cases hn : aget m.node g.sensors with
    | none =>
      exact ⟨rfl, fun k c h => Or.inl h⟩
    | some n =>
      simp only
      cases hch : aget m.child n.children with
      | some ch => exact ⟨rfl, fun k c h => Or.inl h⟩
      | none =>
        simp only
        refine ⟨rfl, fun k c h => ?_⟩
        have h' : isKnown (setNode g m.node { n with children := n.children ++ [(m.child, ⟨m.child, m.sub, m.payload, []⟩)] }) k (some c) = true := by
          have := (frame_alert (setNode g m.node { n with children := n.children ++ [(m.child, ⟨m.child, m.sub, m.payload, []⟩)] }) m).noNew k c h
          exact this
        rw [isKnown_setNode] at h'
        by_cases e : k = m.node
        · subst e
          simp only [if_true] at h'
          rw [aget_append_not_mem] at h'
          cases hcc : aget c n.children with
          | some x =>
            left
            unfold isKnown; rw [hn]; simp [hcc]
          | none =>
            rw [hcc] at h'
            by_cases e2 : c = m.child
            · right
              refine ⟨rfl, e2, ?_⟩
              unfold addsChild
              have : isKnown g m.node (some m.child) = false := by
                unfold isKnown; rw [hn]; simp [hch]
              simp [hc, hk, this]
            · simp [e2] at h'
        · left; simpa [e] using h'
  · simp only [hk]
    have := frame_requestPresentation g m.node
    exact ⟨this.kind, fun k c h => Or.inl (this.noNew k c h)⟩

theorem handlePresentation_kids (g : GW) (m : Msg) :
    (handlePresentation g m).1.kind = g.kind ∧
    ∀ k c, isKnown (handlePresentation g m).1 k (some c) = true →
      isKnown g k (some c) = true ∨ (k = m.node ∧ c = m.child ∧ addsChild g m = true) := by
  unfold handlePresentation
  split
  · have := frame_presentNode g m
    exact ⟨this.kind, fun k c h => Or.inl (this.noNew k c h)⟩
  · rename_i hc
    exact presentChild_kids g m hc

/-- every child of the state after a step was there before or is reported in `subs` -/
def KidsStep (g : GW) (r : Res) : Prop :=
  r.1.kind = g.kind ∧
  ∀ k c, isKnown r.1 k (some c) = true → isKnown g k (some c) = true ∨ (k, c) ∈ r.2.subs

theorem KidsStep.ofFrame {g : GW} {r : Res} (h : Frame g r.1) : KidsStep g r :=
  ⟨h.kind, fun k c hk => Or.inl (h.noNew k c hk)⟩

theorem kids_dispatchBy (h : HandlerId) (g : GW) (m : Msg) (hk : g.kind = .mqtt) :
    KidsStep g (dispatchBy h g m) := by
  unfold dispatchBy
  split
  · have hp := handlePresentation_kids g m
    split
    · refine ⟨hp.1, fun k c hkc => ?_⟩
      rcases hp.2 k c hkc with h1 | ⟨e1, e2, _⟩
      · exact Or.inl h1
      · right
        show (k, c) ∈ (handlePresentation g m).2.subs ++ [(m.node, m.child)]
        simp [e1, e2]
    · rename_i hna
      refine ⟨hp.1, fun k c hkc => ?_⟩
      rcases hp.2 k c hkc with h1 | ⟨_, _, ha⟩
      · exact Or.inl h1
      · exact absurd ⟨hk, ha⟩ hna
  · exact KidsStep.ofFrame (frame_handleSet g m)
  · exact KidsStep.ofFrame (frame_handleReq g m)
  · exact KidsStep.ofFrame (frame_handleInternal g m)
  · exact KidsStep.ofFrame (frame_handleStream g m)
  · exact KidsStep.ofFrame (frame_fail g _)

theorem kids_logic (g : GW) (line : Str) (hk : g.kind = .mqtt) : KidsStep g (logic g line) := by
  unfold logic
  split
  · exact KidsStep.ofFrame (frame_ret g)
  · split
    · unfold dispatch
      split
      · exact KidsStep.ofFrame (frame_fail g _)
      · exact kids_dispatchBy _ g _ hk
    · exact KidsStep.ofFrame (frame_ret g)

theorem transportFilter_fst' (g0 : GW) (r : Res) : (transportFilter g0 r).1 = r.1 := by
  unfold transportFilter; split <;> rfl

theorem transportFilter_subs (g0 : GW) (r : Res) : (transportFilter g0 r).2.subs = r.2.subs := by
  unfold transportFilter; split <;> rfl

theorem kids_step (g : GW) (op : Op) (hk : g.kind = .mqtt) (hnr : op ≠ .restart) :
    KidsStep g (step g op) := by
  cases op with
  | line s =>
    have := kids_logic g s hk
    refine ⟨?_, ?_⟩
    · simp only [step, transportFilter_fst']; exact this.1
    · intro k c h
      simp only [step, transportFilter_fst', transportFilter_subs] at h ⊢
      exact this.2 k c h
  | setValue n c vt v a =>
    have := frame_setChildValue g n c vt v a
    refine ⟨?_, ?_⟩
    · simp only [step, transportFilter_fst']; exact this.kind
    · intro k ch h
      simp only [step, transportFilter_fst'] at h
      exact Or.inl (this.noNew k ch h)
  | update nids t v img => exact KidsStep.ofFrame (frame_makeUpdate g nids t v img)
  | clock t => exact KidsStep.ofFrame (frame_sensors _ _ rfl rfl)
  | metric b => exact KidsStep.ofFrame (frame_sensors _ _ rfl rfl)
  | saveTick => exact KidsStep.ofFrame (frame_save g)
  | stop => exact KidsStep.ofFrame (frame_save g)
  | restart => exact absurd rfl hnr

/-! ### coverage -/

theorem renderInt_two : renderInt 2 = ['2'] := by
  show renderNat 2 = _; rw [renderNat, natDigits]; decide

theorem renderInt_four : renderInt 4 = ['4'] := by
  show renderNat 4 = _; rw [renderNat, natDigits]; decide

theorem tables_types (c : ConstId) :
    (Tables.tables c).mtSet = 1 ∧ (Tables.tables c).mtReq = 2 ∧ (Tables.tables c).mtStream = 4 := by
  cases c <;> exact ⟨rfl, rfl, rfl⟩

theorem presentationTopics_eq (c : ConstId) (n ch : Int) :
    presentationTopics (Tables.tables c) n ch = childTopics n ch := by
  obtain ⟨h1, h2, h4⟩ := tables_types c
  simp only [presentationTopics, setReqTopics, streamTopic, childTopics, h1, h2, h4, renderInt_one,
    renderInt_two, renderInt_four, List.cons_append, List.nil_append]

/-- `init_topics` with persistence walks the whole tree -/
theorem restoredTopics_cover (g : GW) (hw : WellKeyed g) (n c : Int)
    (hk : isKnown g n (some c) = true) : ∀ t ∈ childTopics n c, t ∈ restoredTopics g := by
  unfold isKnown at hk
  cases hn : aget n g.sensors with
  | none => rw [hn] at hk; simp at hk
  | some nd =>
    rw [hn] at hk
    simp only at hk
    rcases Option.isSome_iff_exists.mp hk with ⟨ch, hch⟩
    have m1 := aget_mem n nd g.sensors hn
    have m2 := aget_mem c ch nd.children hch
    obtain ⟨e1, e2⟩ := hw n nd m1
    have e3 := e2 c ch m2
    intro t ht
    rw [← presentationTopics_eq g.const n c] at ht
    unfold presentationTopics at ht
    rw [List.mem_append] at ht
    unfold restoredTopics
    rw [List.mem_append]
    rcases ht with ht | ht
    · left
      rw [List.mem_flatMap]
      refine ⟨(n, nd), m1, ?_⟩
      rw [List.mem_flatMap]
      refine ⟨(c, ch), m2, ?_⟩
      simp only [e1, e3]
      exact ht
    · right
      rw [List.mem_map]
      refine ⟨(n, nd), m1, ?_⟩
      simp only [e1]
      simp at ht
      exact ht.symm

theorem fixedTopics_slash : ∀ t ∈ fixedTopics, ∀ p : Str, '/' ∈ p ++ t := by
  intro t ht p
  unfold fixedTopics at ht
  simp at ht
  rcases ht with rfl | rfl <;> exact mem_slashJoin p _

theorem restoredTopics_slash (g : GW) : ∀ t ∈ restoredTopics g, ∀ p : Str, '/' ∈ p ++ t := by
  intro t ht p
  unfold restoredTopics at ht
  rw [List.mem_append] at ht
  rcases ht with ht | ht
  · rw [List.mem_flatMap] at ht
    obtain ⟨kn, _, ht⟩ := ht
    rw [List.mem_flatMap] at ht
    obtain ⟨kc, _, ht⟩ := ht
    unfold setReqTopics at ht
    simp at ht
    rcases ht with rfl | rfl <;> exact mem_slashJoin p _
  · rw [List.mem_map] at ht
    obtain ⟨kn, _, rfl⟩ := ht
    exact mem_slashJoin p _

theorem childTopics_slash (n c : Int) : ∀ t ∈ childTopics n c, ∀ p : Str, '/' ∈ p ++ t := by
  intro t ht p
  unfold childTopics at ht
  simp at ht
  rcases ht with rfl | rfl | rfl <;> exact mem_slashJoin p _

theorem startSubs_covers (p : Str) (r : Str → Bool) (g : GW) (hw : WellKeyed g)
    (hp : g.persist = true ∨ g.sensors = []) :
    Covers p ((startSubs p r g).1.map (·.1)) g ∧ (startSubs p r g).2 = .returned := by
  have hf := subscribeAll_eq p r fixedTopics (fun t ht => fixedTopics_slash t ht p)
  have hr := subscribeAll_eq p r (restoredTopics g) (fun t ht => restoredTopics_slash g t ht p)
  have fixedIn : ∀ (rest : List Str),
      p ++ slashJoin [plus, plus, ['0'], plus, plus] ∈ fixedTopics.map (p ++ ·) ++ rest ∧
      p ++ slashJoin [plus, plus, ['3'], plus, plus] ∈ fixedTopics.map (p ++ ·) ++ rest := by
    intro rest
    unfold fixedTopics
    simp
  by_cases hpers : g.persist = true
  · unfold startSubs
    simp only [hpers, if_true, hf, hr]
    refine ⟨⟨?_, ?_⟩, by first | rfl | trivial⟩
    · have := fixedIn ((restoredTopics g).map (p ++ ·))
      simpa [List.map_append, List.map_map, Function.comp_def] using this
    · intro n c hk t ht
      have := restoredTopics_cover g hw n c hk t ht
      simp only [List.map_append, List.map_map, Function.comp_def, List.mem_append, List.mem_map]
      right
      exact ⟨t, this, rfl⟩
  · have hs : g.sensors = [] := by
      rcases hp with h | h
      · exact absurd h hpers
      · exact h
    unfold startSubs
    simp only [hpers, hf]
    refine ⟨⟨?_, ?_⟩, by first | rfl | trivial⟩
    · have := fixedIn []
      simpa [List.map_map, Function.comp_def] using this
    · intro n c hk
      unfold isKnown at hk
      rw [hs] at hk
      simp at hk

theorem stepSubs_mem (p : Str) (r : Str → Bool) (g : GW) (o : Out) (n c : Int) (h : (n, c) ∈ o.subs) :
    ∀ t ∈ childTopics n c, p ++ t ∈ (stepSubs p r g o).map (·.1) := by
  intro t ht
  unfold stepSubs
  rw [List.mem_map]
  have hs := subscribeAll_eq p r (presentationTopics g.t n c) (by
    intro x hx
    unfold GW.t at hx
    rw [presentationTopics_eq] at hx
    exact childTopics_slash n c x hx p)
  refine ⟨(p ++ t, (subQos (p ++ t)).getD 0), ?_, rfl⟩
  rw [List.mem_flatMap]
  refine ⟨(n, c), h, ?_⟩
  simp only [hs]
  rw [List.mem_map]
  refine ⟨t, ?_, rfl⟩
  unfold GW.t
  rw [presentationTopics_eq]
  exact ht

theorem runSubs_covers (p : Str) (r : Str → Bool) (g : GW) (ops : List Op) (subs : List (Str × Int))
    (hk : g.kind = .mqtt) (hnr : Op.restart ∉ ops) (hc : Covers p (subs.map (·.1)) g) :
    Covers p ((runSubs p r g subs ops).2.map (·.1)) (runSubs p r g subs ops).1 := by
  induction ops generalizing g subs with
  | nil => exact hc
  | cons op ops ih =>
    have hop : op ≠ .restart := fun e => hnr (by simp [e])
    have hks := kids_step g op hk hop
    show Covers p ((runSubs p r (step g op).1 (subs ++ stepSubs p r g (step g op).2) ops).2.map (·.1)) _
    apply ih (step g op).1 (subs ++ stepSubs p r g (step g op).2) (hks.1.trans hk)
      (fun h => hnr (by simp [h]))
    refine ⟨?_, ?_⟩
    · simp only [List.map_append, List.mem_append]
      exact ⟨Or.inl hc.1.1, Or.inl hc.1.2⟩
    · intro n c hkn t ht
      simp only [List.map_append, List.mem_append]
      rcases hks.2 n c hkn with h1 | h2
      · exact Or.inl (hc.2 n c h1 t ht)
      · exact Or.inr (stepSubs_mem p r g _ n c h2 t ht)

end MySensors
