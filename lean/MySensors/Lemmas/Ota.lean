/-
  Lemmas about the OTA packing model (`Model/Ota.lean`): hex digit / byte / word round
  trips, CRC range, padding arithmetic and block slicing.  Core Lean only.
-/
import MySensors.Model.Ota

namespace MySensors

/-- bytes are `Nat < 256` -/
def IsBytes (bs : List Nat) : Prop := ∀ b ∈ bs, b < 256

/-- 16-bit words -/
def IsWords (ws : List Nat) : Prop := ∀ w ∈ ws, w < 65536

instance (bs : List Nat) : Decidable (IsBytes bs) := by unfold IsBytes; infer_instance

instance (ws : List Nat) : Decidable (IsWords ws) := by unfold IsWords; infer_instance

theorem IsBytes.tail {b : Nat} {bs : List Nat} (h : IsBytes (b :: bs)) : IsBytes bs :=
  fun x hx => h x (List.mem_cons_of_mem _ hx)

theorem IsBytes.head {b : Nat} {bs : List Nat} (h : IsBytes (b :: bs)) : b < 256 :=
  h b (List.mem_cons_self ..)

theorem IsBytes.append {a b : List Nat} (ha : IsBytes a) (hb : IsBytes b) : IsBytes (a ++ b) := by
  intro x hx
  rcases List.mem_append.mp hx with h | h
  · exact ha x h
  · exact hb x h

theorem IsBytes.take {a : List Nat} (ha : IsBytes a) (n : Nat) : IsBytes (a.take n) :=
  fun x hx => ha x (List.mem_of_mem_take hx)

theorem IsBytes.drop {a : List Nat} (ha : IsBytes a) (n : Nat) : IsBytes (a.drop n) :=
  fun x hx => ha x (List.mem_of_mem_drop hx)

theorem isBytes_replicate (k : Nat) : IsBytes (List.replicate k 0xFF) := by
  intro x hx
  rw [List.mem_replicate] at hx
  omega

/-! ### hex digits -/

theorem hexVal_hexDigitChar : ∀ d, d < 16 → hexVal (hexDigitChar d) = some d := by decide

theorem unhexlify_hexByte_cons (b : Nat) (hb : b < 256) (rest : Str) :
    unhexlify (hexByte b ++ rest) = (unhexlify rest).map (b :: ·) := by
  have h1 : hexVal (hexDigitChar (b / 16 % 16)) = some (b / 16 % 16) :=
    hexVal_hexDigitChar _ (Nat.mod_lt _ (by decide))
  have h2 : hexVal (hexDigitChar (b % 16)) = some (b % 16) :=
    hexVal_hexDigitChar _ (Nat.mod_lt _ (by decide))
  have hb' : 16 * (b / 16 % 16) + b % 16 = b := by omega
  simp only [hexByte, List.cons_append, List.nil_append, unhexlify, h1, h2]
  cases unhexlify rest <;> simp [hb']

/-- `binascii.unhexlify(binascii.hexlify(bs)) == bs` -/
theorem unhexlify_hexBytes (bs : List Nat) (h : IsBytes bs) : unhexlify (hexBytes bs) = some bs := by
  induction bs with
  | nil => rfl
  | cons b bs ih =>
    have : hexBytes (b :: bs) = hexByte b ++ hexBytes bs := by simp [hexBytes]
    rw [this, unhexlify_hexByte_cons b h.head, ih h.tail]
    rfl

theorem hexBytes_length (bs : List Nat) : (hexBytes bs).length = 2 * bs.length := by
  induction bs with
  | nil => rfl
  | cons b bs ih =>
    have : hexBytes (b :: bs) = hexByte b ++ hexBytes bs := by simp [hexBytes]
    rw [this, List.length_append, ih]
    simp [hexByte]
    omega

theorem hexBytes_append (a b : List Nat) : hexBytes (a ++ b) = hexBytes a ++ hexBytes b := by
  simp [hexBytes]

/-! ### 16-bit little-endian words -/

theorem wordBytes_flat_length (ws : List Nat) : (ws.flatMap wordBytes).length = 2 * ws.length := by
  induction ws with
  | nil => rfl
  | cons w ws ih => simp [wordBytes, ih]; omega

theorem wordBytes_isBytes (ws : List Nat) : IsBytes (ws.flatMap wordBytes) := by
  intro b hb
  rw [List.mem_flatMap] at hb
  obtain ⟨w, _, hw⟩ := hb
  simp [wordBytes] at hw
  rcases hw with h | h <;> subst h <;> exact Nat.mod_lt _ (by decide)

/-- `struct.unpack("<nH", struct.pack("<nH", *ws)) == ws` -/
theorem bytesToWords_wordBytes (ws : List Nat) (h : IsWords ws) :
    bytesToWords (ws.flatMap wordBytes) = ws := by
  induction ws with
  | nil => rfl
  | cons w ws ih =>
    have hw : w < 65536 := h w (List.mem_cons_self ..)
    have hws : IsWords ws := fun x hx => h x (List.mem_cons_of_mem _ hx)
    have : w % 256 + 256 * (w / 256 % 256) = w := by omega
    simp [wordBytes, bytesToWords, ih hws, this]

theorem fwIntToHex_eq (ws : List Nat) (h : IsWords ws) :
    fwIntToHex ws = some (hexBytes (ws.flatMap wordBytes)) := by
  have : ws.all (· < 65536) = true := by
    rw [List.all_eq_true]
    intro x hx
    simpa using h x hx
  simp [fwIntToHex, this]

theorem fwIntToHex_length (ws : List Nat) (p : Str) (h : fwIntToHex ws = some p) :
    p.length = 4 * ws.length := by
  unfold fwIntToHex at h
  split at h
  · cases h
    rw [hexBytes_length, wordBytes_flat_length]
    omega
  · cases h

/-- `fw_hex_to_int(fw_int_to_hex(*ws), len(ws)) == ws` for all 16-bit words -/
theorem fwHexToInt_fwIntToHex (ws : List Nat) (h : IsWords ws) :
    ∃ p, fwIntToHex ws = some p ∧ fwHexToInt p ws.length = some ws := by
  refine ⟨_, fwIntToHex_eq ws h, ?_⟩
  rw [fwHexToInt, unhexlify_hexBytes _ (wordBytes_isBytes ws)]
  simp only [wordBytes_flat_length, bytesToWords_wordBytes ws h, ↓reduceIte]

/-! ### CRC-16/MODBUS stays a 16-bit value -/

theorem crcBit_lt (c : Nat) (h : c < 65536) : crcBit c < 65536 := by
  unfold crcBit
  split
  · exact Nat.xor_lt_two_pow (n := 16) (by omega) (by decide)
  · omega

theorem crcByte_lt (c b : Nat) (hc : c < 65536) (hb : b < 256) : crcByte c b < 65536 := by
  unfold crcByte
  have h0 : c ^^^ b < 65536 := Nat.xor_lt_two_pow (n := 16) hc (by omega)
  exact crcBit_lt _ (crcBit_lt _ (crcBit_lt _ (crcBit_lt _ (crcBit_lt _ (crcBit_lt _
    (crcBit_lt _ (crcBit_lt _ h0)))))))

theorem foldl_crcByte_lt (data : List Nat) (h : IsBytes data) (c : Nat) (hc : c < 65536) :
    data.foldl crcByte c < 65536 := by
  induction data generalizing c with
  | nil => simpa using hc
  | cons b bs ih =>
    simp only [List.foldl_cons]
    exact ih h.tail _ (crcByte_lt c b hc h.head)

theorem crcModbus_lt (data : List Nat) (h : IsBytes data) : crcModbus data < 65536 :=
  foldl_crcByte_lt data h _ (by decide)

/-! ### padding -/

def padLen (n : Nat) : Nat := 128 - n % 128

theorem prepareFw_data (img : List Nat) :
    (prepareFw img).data = img ++ List.replicate (padLen img.length) 0xFF := rfl

theorem prepareFw_blocks (img : List Nat) :
    (prepareFw img).blocks = (prepareFw img).data.length / 16 := rfl

theorem prepareFw_crc (img : List Nat) :
    (prepareFw img).crc = crcModbus (prepareFw img).data := rfl

theorem prepareFw_length (img : List Nat) :
    (prepareFw img).data.length = img.length + padLen img.length := by
  simp [prepareFw_data]

theorem prepareFw_isBytes (img : List Nat) (h : IsBytes img) : IsBytes (prepareFw img).data := by
  rw [prepareFw_data]
  exact h.append (isBytes_replicate _)

/-! ### block slicing -/

theorem fwBlock_length (data : List Nat) (i : Nat) (h : 16 * (i + 1) ≤ data.length) :
    (fwBlock data i).length = 16 := by
  simp [fwBlock]
  omega

theorem fwBlock_eq_nil (data : List Nat) (i : Nat) (h : data.length ≤ 16 * i) :
    fwBlock data i = [] := by
  have : data.drop (i * 16) = [] := List.drop_eq_nil_of_le (by omega)
  simp [fwBlock, this]

theorem flatMap_range_succ {α} (f : Nat → List α) (n : Nat) :
    (List.range (n + 1)).flatMap f = (List.range n).flatMap f ++ f n := by
  simp [List.range_succ]

/-- the first `n` blocks concatenate to the first `16 n` bytes -/
theorem blocks_concat_take (data : List Nat) (n : Nat) :
    (List.range n).flatMap (fwBlock data) = data.take (16 * n) := by
  induction n with
  | zero => simp
  | succ n ih =>
    rw [flatMap_range_succ, ih, fwBlock]
    have h : 16 * (n + 1) = 16 * n + 16 := by omega
    rw [h, Nat.mul_comm n 16, List.take_add]

end MySensors
