/-
  The OTA stream handlers of the gateway model (`otaBlockResponse`, `otaConfigResponse`,
  `makeUpdate` in Model/Gateway.lean) reduced to pure functions of the firmware table and the
  request: what a node is served does not depend on the other nodes' session entries, on the
  order of the requests or on how often they are repeated.
-/
import MySensors.Model.Gateway
import MySensors.Lemmas.Ota

namespace MySensors.OtaGw
open MySensors

variable {ν : Type}

theorem aget_aset_self (k : Int) (v : ν) (l : List (Int × ν)) : aget k (aset k v l) = some v := by
  induction l with
  | nil => simp [aset, aget]
  | cons kv rest ih =>
    obtain ⟨k', v'⟩ := kv
    by_cases h : k = k'
    · simp [aset, aget, h]
    · simp [aset, aget, h, ih]

theorem aget_aset_other (k k' : Int) (v : ν) (l : List (Int × ν)) (h : k ≠ k') :
    aget k (aset k' v l) = aget k l := by
  induction l with
  | nil => simp [aset, aget, h]
  | cons kv rest ih =>
    obtain ⟨k2, v2⟩ := kv
    by_cases h2 : k' = k2
    · subst h2; simp [aset, aget, h]
    · by_cases h3 : k = k2
      · simp [aset, aget, h2, h3]
      · simp [aset, aget, h2, h3, ih]

theorem aget_aerase_other (k k' : Int) (l : List (Int × ν)) (h : k ≠ k') :
    aget k (aerase k' l) = aget k l := by
  induction l with
  | nil => rfl
  | cons kv rest ih =>
    obtain ⟨k2, v2⟩ := kv
    by_cases h2 : k' = k2
    · subst h2; simp [aerase, aget, h]
    · by_cases h3 : k = k2
      · simp [aerase, aget, h2, h3]
      · simp [aerase, aget, h2, h3, ih]

/-- the node has a session in which block requests are answered (`unstarted` or `started`) -/
def Active (o : OtaState) (n : Int) : Prop :=
  (aget n o.unstarted).isSome ∨ (aget n o.started).isSome

instance (o : OtaState) (n : Int) : Decidable (Active o n) := by unfold Active; infer_instance

theorem pickBlock_active (o : OtaState) (node : Int) (h : Active o node) :
    ∃ o', pickBlock o node = some o' ∧ o'.firmware = o.firmware ∧ ∀ n, Active o n → Active o' n := by
  unfold pickBlock
  cases hu : aget node o.unstarted with
  | some fid =>
    refine ⟨_, rfl, rfl, ?_⟩
    intro n hn
    by_cases hnn : n = node
    · subst hnn
      exact Or.inr (by simp [aget_aset_self])
    · unfold Active at hn ⊢
      simp only [aget_aerase_other n node _ hnn, aget_aset_other n node _ _ hnn]
      exact hn
  | none =>
    cases hs : aget node o.started with
    | some fid =>
      refine ⟨_, rfl, rfl, ?_⟩
      intro n hn
      by_cases hnn : n = node
      · subst hnn
        exact Or.inr (by simp [aget_aset_self])
      · unfold Active at hn ⊢
        simp only [aget_aerase_other n node _ hnn, aget_aset_other n node _ _ hnn]
        exact hn
    | none =>
      unfold Active at h
      simp [hu, hs] at h

theorem pickBlock_inactive (o : OtaState) (node : Int) (h : ¬ Active o node) :
    pickBlock o node = none := by
  unfold Active at h
  unfold pickBlock
  cases hu : aget node o.unstarted with
  | some fid => simp [hu] at h
  | none =>
    cases hs : aget node o.started with
    | some fid => simp [hs] at h
    | none => rfl

/-- the block response as a function of the request and the firmware alone -/
def answerOf (m : Msg) (rt rv blk : Nat) (fw : Fw) (sub : Int) : Option Msg :=
  match m.copy { sub := some sub }, fwIntToHex [rt, rv, blk] with
  | .ok r, some p => some { r with payload := p ++ hexBytes (fwBlock fw.data blk) }
  | _, _ => none

theorem blockReply_eq (g : GW) (m : Msg) (rt rv blk : Nat) (fw : Fw) (sub : Int) :
    (blockReply g m rt rv blk fw sub).reply = answerOf m rt rv blk fw sub ∧
    (blockReply g m rt rv blk fw sub).g = g := by
  unfold blockReply answerOf
  cases m.copy { sub := some sub } <;> cases fwIntToHex [rt, rv, blk] <;> exact ⟨rfl, rfl⟩

def answerFw (firmware : List ((Int × Int) × Fw)) (sub : Int) (m : Msg) (rt rv blk : Nat) : Option Msg :=
  match lookup ((rt : Int), (rv : Int)) firmware with
  | some fw => answerOf m rt rv blk fw sub
  | none => none

/-- what an active node is answered: a function of the firmware table and the request only -/
def blockAnswer (firmware : List ((Int × Int) × Fw)) (sub : Int) (m : Msg) : Option Msg :=
  match fwHexToInt m.payload 3 with
  | some [rt, rv, blk] => answerFw firmware sub m rt rv blk
  | _ => none

theorem otaBlockResponse_spec (g : GW) (m : Msg) (sub : Int) (hsub : g.t.stResponse = some sub)
    (hact : Active g.ota m.node) :
    (otaBlockResponse g m).reply = blockAnswer g.ota.firmware sub m ∧
    (otaBlockResponse g m).g.ota.firmware = g.ota.firmware ∧
    (otaBlockResponse g m).g.const = g.const ∧
    ∀ n, Active g.ota n → Active (otaBlockResponse g m).g.ota n := by
  obtain ⟨o', hpick, hfw, hkeep⟩ := pickBlock_active g.ota m.node hact
  unfold otaBlockResponse blockAnswer
  generalize fwHexToInt m.payload 3 = x
  split
  · next rt rv blk =>
    cases hl : lookup ((rt : Int), (rv : Int)) g.ota.firmware with
    | none =>
      simp only [hpick, hsub, hfw, hl, answerFw]
      exact ⟨trivial, trivial, trivial, hkeep⟩
    | some fw =>
      obtain ⟨h1, h2⟩ := blockReply_eq { g with ota := o' } m rt rv blk fw sub
      simp only [hpick, hsub, hfw, hl, answerFw, h1, h2]
      exact ⟨trivial, trivial, trivial, hkeep⟩
  · next hne =>
    split
    · next rt rv blk => exact absurd rfl (hne rt rv blk)
    · exact ⟨rfl, rfl, rfl, fun _ h => h⟩

theorem otaBlockResponse_inactive (g : GW) (m : Msg) (h : ¬ Active g.ota m.node) :
    (otaBlockResponse g m).reply = none := by
  unfold otaBlockResponse
  split
  · simp [pickBlock_inactive g.ota m.node h]
  · rfl

/-- a history of block requests handled one after the other -/
def serve (g : GW) : List Msg → List (Option Msg)
  | [] => []
  | m :: ms => (otaBlockResponse g m).reply :: serve (otaBlockResponse g m).g ms

theorem serve_spec (sub : Int) (ms : List Msg) :
    ∀ g : GW, g.t.stResponse = some sub → (∀ m ∈ ms, Active g.ota m.node) →
      serve g ms = ms.map (blockAnswer g.ota.firmware sub) := by
  induction ms with
  | nil => intro _ _ _; rfl
  | cons m ms ih =>
    intro g hsub hact
    obtain ⟨h1, h2, h3, h4⟩ := otaBlockResponse_spec g m sub hsub (hact m (List.mem_cons_self ..))
    have hsub' : (otaBlockResponse g m).g.t.stResponse = some sub := by
      unfold GW.t at hsub ⊢
      rw [h3]; exact hsub
    have hact' : ∀ m' ∈ ms, Active (otaBlockResponse g m).g.ota m'.node :=
      fun m' hm' => h4 _ (hact m' (List.mem_cons_of_mem _ hm'))
    simp only [serve, List.map_cons, h1, ih _ hsub' hact', h2]

/-! ### the answer decodes to the echo and the block -/

theorem fwIntToHex_some_isWords (ws : List Nat) (p : Str) (h : fwIntToHex ws = some p) : IsWords ws := by
  unfold fwIntToHex at h
  split at h
  · next hall =>
    rw [List.all_eq_true] at hall
    intro w hw
    simpa using hall w hw
  · cases h

theorem payload_decodes (ws : List Nat) (p : Str) (block : List Nat) (h : fwIntToHex ws = some p)
    (hb : IsBytes block) :
    fwHexToInt ((p ++ hexBytes block).take (4 * ws.length)) ws.length = some ws ∧
    unhexlify ((p ++ hexBytes block).drop (4 * ws.length)) = some block := by
  have hw := fwIntToHex_some_isWords ws p h
  obtain ⟨p', hp', hdec⟩ := fwHexToInt_fwIntToHex ws hw
  rw [h] at hp'
  cases hp'
  have hlen := fwIntToHex_length ws p h
  rw [← hlen, List.take_left', List.drop_left']
  · exact ⟨hdec, unhexlify_hexBytes block hb⟩
  · rfl
  · rfl

/-! ### the config response and the firmware store -/

/-- the config response as a function of the firmware table, the request and the scheduled id -/
def configAnswerOf (m : Msg) (fid : Int × Int) (fw : Fw) (sub : Int) : Option Msg :=
  match m.copy { sub := some sub }, fwIntToHex [fid.1.toNat, fid.2.toNat, fw.blocks, fw.crc] with
  | .ok r, some p => some { r with payload := p }
  | _, _ => none

theorem configReply_eq (g : GW) (m : Msg) (fid : Int × Int) (fw : Fw) (sub : Int) :
    (configReply g m fid fw sub).reply = configAnswerOf m fid fw sub ∧
    (configReply g m fid fw sub).g = g := by
  unfold configReply configAnswerOf
  cases m.copy { sub := some sub } <;>
    cases fwIntToHex [fid.1.toNat, fid.2.toNat, fw.blocks, fw.crc] <;> exact ⟨rfl, rfl⟩

/-- the node is scheduled for firmware `fid` and has not started fetching blocks -/
def Offered (o : OtaState) (n : Int) (fid : Int × Int) : Prop :=
  aget n o.requested = some fid ∨ (aget n o.requested = none ∧ aget n o.unstarted = some fid)

instance (o : OtaState) (n : Int) (fid : Int × Int) : Decidable (Offered o n fid) := by
  unfold Offered; infer_instance

theorem pickConfig_offered (o : OtaState) (node : Int) (fid : Int × Int) (h : Offered o node fid) :
    ∃ o', pickConfig o node = some (fid, o') ∧ o'.firmware = o.firmware ∧
      aget node o'.unstarted = some fid := by
  unfold pickConfig
  rcases h with h | ⟨h1, h2⟩
  · rw [h]
    exact ⟨_, rfl, rfl, aget_aset_self ..⟩
  · rw [h1, h2]
    exact ⟨_, rfl, rfl, aget_aset_self ..⟩

theorem otaConfigResponse_spec (g : GW) (m : Msg) (sub : Int) (fid : Int × Int) (fw : Fw)
    (hsub : g.t.stConfigResponse = some sub) (hp : (fwHexToInt m.payload 5).isSome)
    (hoff : Offered g.ota m.node fid) (hfw : lookup fid g.ota.firmware = some fw) :
    (otaConfigResponse g m).reply = configAnswerOf m fid fw sub ∧
    (otaConfigResponse g m).g.ota.firmware = g.ota.firmware ∧
    Active (otaConfigResponse g m).g.ota m.node := by
  obtain ⟨o', hpick, hfw', hun⟩ := pickConfig_offered g.ota m.node fid hoff
  unfold otaConfigResponse
  cases hx : fwHexToInt m.payload 5 with
  | none => simp [hx] at hp
  | some ws =>
    obtain ⟨h1, h2⟩ := configReply_eq { g with ota := o' } m fid fw sub
    simp only [hpick, hfw', hfw, hsub, h1, h2]
    exact ⟨trivial, trivial, Or.inl (by simp [hun])⟩

theorem lookup_storeFirmware (fws : List ((Int × Int) × Fw)) (key : Int × Int) (fw : Fw) :
    lookup key (storeFirmware fws key fw) = some fw := by
  unfold storeFirmware
  cases hl : lookup key fws with
  | some old =>
    simp only
    induction fws with
    | nil => simp [lookup] at hl
    | cons kv rest ih =>
      obtain ⟨k, v⟩ := kv
      by_cases hk : key = k
      · subst hk; simp [lookup]
      · have hk' : ¬ k = key := fun h => hk h.symm
        simp only [lookup, hk, if_false] at hl
        simp [lookup, hk, hk', ih hl]
  | none =>
    simp only
    induction fws with
    | nil => simp [lookup]
    | cons kv rest ih =>
      obtain ⟨k, v⟩ := kv
      by_cases hk : key = k
      · subst hk; simp [lookup] at hl
      · simp only [lookup, hk, if_false] at hl
        simp [lookup, hk, ih hl]

theorem scheduleNode_firmware (t v : Int) (g : GW) (nid : Int) :
    (scheduleNode t v g nid).ota.firmware = g.ota.firmware := by
  unfold scheduleNode
  cases aget nid g.sensors <;> rfl

theorem foldl_scheduleNode_firmware (t v : Int) (nids : List Int) :
    ∀ g : GW, (nids.foldl (scheduleNode t v) g).ota.firmware = g.ota.firmware := by
  induction nids with
  | nil => intro g; rfl
  | cons n ns ih => intro g; rw [List.foldl_cons, ih, scheduleNode_firmware]

/-- `make_update` with an image stores exactly `prepare_fw(image)` under `(type, version)` -/
theorem makeUpdate_stores (g : GW) (nids : List Int) (t v : Int) (img : List Nat)
    (ht : 0 ≤ t ∧ t ≤ 0xFFFF) (hv : 0 ≤ v ∧ v ≤ 0xFFFF) (hb : (prepareFw img).blocks ≤ 0xFFFF) :
    lookup (t, v) (makeUpdate g nids t v (some img)).ota.firmware = some (prepareFw img) := by
  unfold makeUpdate
  have hr : (0 ≤ t ∧ t ≤ 0xFFFF ∧ 0 ≤ v ∧ v ≤ 0xFFFF) := ⟨ht.1, ht.2, hv.1, hv.2⟩
  have hb' : ¬ (prepareFw img).blocks > 0xFFFF := by omega
  rw [if_neg (fun h => h hr)]
  simp only [hb', if_false]
  rw [foldl_scheduleNode_firmware]
  exact lookup_storeFirmware ..

end MySensors.OtaGw
