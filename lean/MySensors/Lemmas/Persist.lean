/- Helper lemmas for C11 (round trip of the persistence hooks). -/
import MySensors.Model.Persist
import MySensors.Lemmas.Int

namespace MySensors.Persist

open MySensors

/-- a dict key that survives json's `str(k)` / `isdigit` / `int(k)` round trip -/
def KeyOk (k : Int) : Prop := 0 ≤ k ∧ numDigits k ≤ PyTables.intMaxDigits

def ChildOk (c : Child) : Prop := ∀ v ∈ c.values, KeyOk v.1

/-- the reachability invariant of a node, JSON flavour -/
structure NodeOk (n : Node) : Prop where
  children : ∀ c ∈ n.children, KeyOk c.1 ∧ ChildOk c.2
  battery : 0 ≤ n.battery ∧ n.battery ≤ 100
  version : loadVersion n.version = n.version

/-- the part of it that the pickle format needs (keys stay integers there) -/
structure NodeOkP (n : Node) : Prop where
  battery : 0 ≤ n.battery ∧ n.battery ≤ 100
  version : loadVersion n.version = n.version

def Inv (s : List (Int × Node)) : Prop := ∀ p ∈ s, KeyOk p.1 ∧ NodeOk p.2
def InvP (s : List (Int × Node)) : Prop := ∀ p ∈ s, NodeOkP p.2

theorem NodeOk.toP {n : Node} (h : NodeOk n) : NodeOkP n := ⟨h.battery, h.version⟩
theorem Inv.toP {s} (h : Inv s) : InvP s := fun p hp => (h p hp).2.toP

/-! ### keys -/

theorem keyOk_of_le (k : Int) (h0 : 0 ≤ k) (h1 : k ≤ 255) : KeyOk k := by
  refine ⟨h0, ?_⟩
  have : k.natAbs < 10 ^ 3 := by omega
  have := natDigits_length_le k.natAbs 3 (by decide) this
  unfold numDigits
  exact Nat.le_trans this (by decide)

theorem pyIsDigit_renderInt (k : Int) (h : 0 ≤ k) : pyIsDigit (renderInt k) = true := by
  cases k with
  | negSucc n => exact absurd h (by omega)
  | ofNat n =>
    simp only [pyIsDigit, renderInt, Bool.and_eq_true, Bool.not_eq_true', List.isEmpty_eq_false_iff,
      List.all_eq_true]
    refine ⟨renderNat_ne_nil n, ?_⟩
    intro c hc
    rcases renderNat_chars n c hc with ⟨d, rfl⟩
    rw [digitVal_digitChar' d.val d.isLt]; rfl

theorem intKey_jsonKey (k : Int) (h : KeyOk k) : intKey (jsonKey k) = .i k := by
  simp [intKey, jsonKey, pyInt_renderInt k h.2]

theorem keyIsDigit_jsonKey (k : Int) (h : KeyOk k) : keyIsDigit (jsonKey k) = true := by
  simp [keyIsDigit, jsonKey, pyIsDigit_renderInt k h.1]

/-! ### the bottom-up walks commute with `map` -/

theorem hookKvs_map {α} (l : List α) (key : α → Key) (f : α → Tree) :
    hookKvs (l.map fun p => (key p, f p)) = l.map fun p => (key p, hook (f p)) := by
  induction l with
  | nil => rfl
  | cons x xs ih => simp [hookKvs, ih]

theorem unpickleKvs_map {α} (l : List α) (key : α → Key) (f : α → Tree) :
    unpickleKvs (l.map fun p => (key p, f p)) = l.map fun p => (key p, unpickle (f p)) := by
  induction l with
  | nil => rfl
  | cons x xs ih => simp [unpickleKvs, ih]

theorem dget_attr_numeric {α} (x : Attr) (l : List α) (k : α → Int) (v : α → Tree) :
    dget (.a x) (l.map fun p => (jsonKey (k p), v p)) = none := by
  induction l with
  | nil => rfl
  | cons y ys ih => simpa [dget, jsonKey] using ih

/-- `dict_to_object` on an object all of whose keys are rendered non-negative integers:
    the `isdigit` branch restores the integer keys -/
theorem dictToObject_numeric {α} (l : List α) (k : α → Int) (v : α → Tree)
    (h : ∀ p ∈ l, KeyOk (k p)) :
    dictToObject (l.map fun p => (jsonKey (k p), v p)) = .dict (l.map fun p => (.i (k p), v p)) := by
  have hall : (l.map fun p => (jsonKey (k p), v p)).all (fun kv => keyIsDigit kv.1) = true := by
    simp only [List.all_map, List.all_eq_true]
    intro p hp
    exact keyIsDigit_jsonKey _ (h p hp)
  have hmap : ((l.map fun p => (jsonKey (k p), v p)).map fun kv => (intKey kv.1, kv.2)) =
      l.map fun p => (Key.i (k p), v p) := by
    simp only [List.map_map]
    apply List.map_congr_left
    intro p hp
    simp [intKey_jsonKey _ (h p hp)]
  unfold dictToObject
  simp only [dget_attr_numeric, hall, hmap, if_true]

/-! ### JSON, level by level -/

theorem hook_jsonValues (vs : List (Int × Str)) (h : ∀ v ∈ vs, KeyOk v.1) :
    hook (jsonValues vs) = valuesObj vs := by
  unfold jsonValues valuesObj
  rw [hook, hookKvs_map]
  simp only [hook]
  exact dictToObject_numeric vs (·.1) (fun p => .str p.2) h

theorem hook_jsonChild (c : Child) (h : ChildOk c) : hook (jsonChild c) = childObj c := by
  unfold jsonChild childObj
  simp [hook, hookKvs, hook_jsonValues c.values h, dictToObject, dget]

theorem hook_jsonChildren (cs : List (Int × Child)) (h : ∀ c ∈ cs, KeyOk c.1 ∧ ChildOk c.2) :
    hook (jsonChildren cs) = childrenObj cs := by
  unfold jsonChildren childrenObj
  rw [hook, hookKvs_map]
  have : (cs.map fun p => (jsonKey p.1, hook (jsonChild p.2))) = cs.map fun p => (jsonKey p.1, childObj p.2) := by
    apply List.map_congr_left
    intro p hp
    rw [hook_jsonChild p.2 (h p hp).2]
  rw [this]
  exact dictToObject_numeric cs (·.1) (fun p => childObj p.2) (fun p hp => (h p hp).1)

/-- the `__dict__` of the Sensor that `dict_to_object` builds from a saved node -/
def loadedDict (n : Node) : Dict :=
  [(.a .sensor_id, .int n.id), (.a .children, childrenObj n.children), (.a .type, optInt n.type),
   (.a .sketch_name, optStr n.sketchName), (.a .sketch_version, optStr n.sketchVersion),
   (.a ._battery_level, .int (clampBattery n.battery)), (.a ._protocol_version, .str (loadVersion n.version)),
   (.a ._heartbeat, .int n.heartbeat),
   (.a .new_state, .dict []), (.a .queue, .list []), (.a .reboot, .bool false)]

theorem hook_optInt (o : Option Int) : hook (optInt o) = optInt o := by cases o <;> rfl
theorem hook_optStr (o : Option Str) : hook (optStr o) = optStr o := by cases o <;> rfl

theorem hook_jsonSensor (n : Node) (h : ∀ c ∈ n.children, KeyOk c.1 ∧ ChildOk c.2) :
    hook (jsonSensor n) = .inst .sensor (loadedDict n) := by
  unfold jsonSensor loadedDict
  simp [hook, hookKvs, hook_jsonChildren n.children h, hook_optInt, hook_optStr, dictToObject, dget,
    setattrs, setattrSensor, newSensor, dset, isBatteryLevel, isHeartbeat, safeIsVersion]

/-! ### reading back -/

theorem asValues_valuesObj (vs : List (Int × Str)) :
    asValues (vs.map fun p => (Key.i p.1, Tree.str p.2)) = some vs := by
  induction vs with
  | nil => rfl
  | cons v vs ih => simp [asValues, ih]

theorem asChild_childObj (c : Child) : asChild (childObj c) = some c := by
  simp [asChild, childObj, attr, dget, asInt, asStr, asDict, valuesObj, asValues_valuesObj]

theorem asChildren_childrenObj (cs : List (Int × Child)) :
    asChildren (cs.map fun p => (Key.i p.1, childObj p.2)) = some cs := by
  induction cs with
  | nil => rfl
  | cons c cs ih => simp [asChildren, asChild_childObj, ih]

theorem asOptInt_optInt (o : Option Int) : asOptInt (optInt o) = some o := by cases o <;> rfl
theorem asOptStr_optStr (o : Option Str) : asOptStr (optStr o) = some o := by cases o <;> rfl

theorem asNode_loadedDict (n : Node) :
    asNode (.inst .sensor (loadedDict n)) =
      some { n.persisted.restore with battery := clampBattery n.battery, version := loadVersion n.version } := by
  simp [asNode, loadedDict, attr, dget, asInt, asStr, asBool, asDict, asList, childrenObj,
    asChildren_childrenObj, asOptInt_optInt, asOptStr_optStr, asDesired, asQueue,
    Node.persisted, PNode.restore]

theorem clampBattery_of_range (b : Int) (h : 0 ≤ b ∧ b ≤ 100) : clampBattery b = b := by
  simp [clampBattery, h]

theorem asNode_loadedDict_ok (n : Node) (h : NodeOkP n) :
    asNode (.inst .sensor (loadedDict n)) = some n.persisted.restore := by
  rw [asNode_loadedDict, clampBattery_of_range _ h.battery, h.version]
  rfl

theorem asSensors_loaded (s : List (Int × Node)) (h : InvP s) :
    asSensors (s.map fun p => (Key.i p.1, Tree.inst .sensor (loadedDict p.2))) = some (restored s) := by
  induction s with
  | nil => rfl
  | cons p ps ih =>
    have hp := h p (List.mem_cons_self ..)
    have ih' := ih (fun q hq => h q (List.mem_cons_of_mem _ hq))
    simp [asSensors, asNode_loadedDict_ok p.2 hp, ih', restored] at ih' ⊢

/-! ### pickle -/

theorem unpickle_valuesObj (vs : List (Int × Str)) : unpickle (valuesObj vs) = valuesObj vs := by
  unfold valuesObj
  rw [unpickle, unpickleKvs_map]
  simp only [unpickle]

theorem unpickle_childObj (c : Child) : unpickle (childObj c) = childObj c := by
  unfold childObj
  simp [unpickle, unpickleKvs, unpickle_valuesObj, setstate, setstateChild, dhas, dget]

theorem unpickle_childrenObj (cs : List (Int × Child)) : unpickle (childrenObj cs) = childrenObj cs := by
  unfold childrenObj
  rw [unpickle, unpickleKvs_map]
  simp only [unpickle_childObj]

theorem unpickle_optInt (o : Option Int) : unpickle (optInt o) = optInt o := by cases o <;> rfl
theorem unpickle_optStr (o : Option Str) : unpickle (optStr o) = optStr o := by cases o <;> rfl

/-- `__getstate__` of a Sensor: the three private attributes re-keyed by their property names
    and moved to the end; the transient attributes are still in there -/
theorem getstate_sensorDict (n : Node) :
    getstate (sensorDict n) =
      [(.a .sensor_id, .int n.id), (.a .children, childrenObj n.children), (.a .type, optInt n.type),
       (.a .sketch_name, optStr n.sketchName), (.a .sketch_version, optStr n.sketchVersion),
       (.a .new_state, .dict (n.desired.map fun p => (.i p.1, desiredObj n p))),
       (.a .queue, .list (n.queue.map .str)), (.a .reboot, .bool n.reboot),
       (.a .battery_level, .int n.battery), (.a .heartbeat, .int n.heartbeat),
       (.a .protocol_version, .str n.version)] := by
  simp [getstate, getstateMove, sensorDict, dget, dpop, dset]

theorem asSensors_congr_dict (a b : Dict) (h : ∀ x, dget (.a x) a = dget (.a x) b) :
    asNode (.inst .sensor a) = asNode (.inst .sensor b) := by
  simp [asNode, attr, h]

theorem unpickle_sensor (n : Node) :
    asNode (unpickle (.inst .sensor (getstate (sensorDict n)))) = asNode (.inst .sensor (loadedDict n)) := by
  rw [getstate_sensorDict]
  simp only [unpickle, unpickleKvs, unpickle_childrenObj, unpickle_optInt, unpickle_optStr]
  apply asSensors_congr_dict
  intro x
  cases x <;>
    simp [setstate, setstateSensor, setattrs, setattrSensor, dset, dget, dhas, loadedDict,
      isBatteryLevel, isHeartbeat, safeIsVersion]

theorem asSensors_congr {α} (l : List α) (k : α → Int) (f g : α → Tree)
    (h : ∀ p ∈ l, asNode (f p) = asNode (g p)) :
    asSensors (l.map fun p => (Key.i (k p), f p)) = asSensors (l.map fun p => (Key.i (k p), g p)) := by
  induction l with
  | nil => rfl
  | cons x xs ih =>
    have := ih (fun p hp => h p (List.mem_cons_of_mem _ hp))
    simp [asSensors, h x (List.mem_cons_self ..), this]

/-! ### what the gateway's handlers store satisfies the invariant -/

theorem loadVersion_v14 : loadVersion v14 = v14 := by decide

theorem loadVersion_cases (s : Str) : loadVersion s = s ∨ loadVersion s = v14 := by
  unfold loadVersion safeVersion
  cases isVersion s with
  | none => right; rfl
  | some ok => cases ok <;> simp [v14]

/-- `safe_is_version` is idempotent: a version stored through the setter is stable under load -/
theorem loadVersion_idem (s : Str) : loadVersion (loadVersion s) = loadVersion s := by
  rcases loadVersion_cases s with h | h
  · simp [h]
  · rw [h]; exact loadVersion_v14

theorem clampBattery_range (b : Int) : 0 ≤ clampBattery b ∧ clampBattery b ≤ 100 := by
  unfold clampBattery; split <;> omega

end MySensors.Persist
