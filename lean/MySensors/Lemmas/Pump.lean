/- Lemmas about the two pumps (core Lean only); generic in the state and the handler. -/
import MySensors.Model.Pump

namespace MySensors

/-- order-preserving interleaving of two sequences -/
inductive Interleave {α : Type} : List α → List α → List α → Prop
  | nil : Interleave [] [] []
  | left (x : α) {a b c : List α} : Interleave a b c → Interleave (x :: a) b (x :: c)
  | right (x : α) {a b c : List α} : Interleave a b c → Interleave a (x :: b) (x :: c)

namespace Interleave
variable {α : Type}

theorem snoc_left {a b c : List α} (x : α) (h : Interleave a b c) :
    Interleave (a ++ [x]) b (c ++ [x]) := by
  induction h with
  | nil => exact .left x .nil
  | left y _ ih => exact .left y ih
  | right y _ ih => exact .right y ih

theorem snoc_right {a b c : List α} (x : α) (h : Interleave a b c) :
    Interleave a (b ++ [x]) (c ++ [x]) := by
  induction h with
  | nil => exact .right x .nil
  | left y _ ih => exact .left y ih
  | right y _ ih => exact .right y ih

theorem append_left {a b c : List α} (r : List α) (h : Interleave a b c) :
    Interleave (a ++ r) b (c ++ r) := by
  induction r generalizing a c with
  | nil => simpa using h
  | cons x xs ih =>
    have := ih (snoc_left x h)
    simpa [List.append_assoc] using this

theorem perm {a b c : List α} (h : Interleave a b c) : c.Perm (a ++ b) := by
  induction h with
  | nil => exact .nil
  | left x _ ih => exact .cons x ih
  | right x _ ih => exact (List.Perm.cons x ih).trans List.perm_middle.symm

theorem length {a b c : List α} (h : Interleave a b c) : c.length = a.length + b.length := by
  induction h with
  | nil => rfl
  | left x _ ih => simp [ih]; omega
  | right x _ ih => simp [ih]; omega

end Interleave

section generic
variable {σ : Type} (f : σ → Str → σ × Split)

def lineJobs : List Job → List Str
  | [] => []
  | .line s :: q => s :: lineJobs q
  | .text _ :: q => lineJobs q

def textJobs : List Job → List Str
  | [] => []
  | .line _ :: q => textJobs q
  | .text t :: q => t :: textJobs q

theorem lineJobs_append (a b : List Job) : lineJobs (a ++ b) = lineJobs a ++ lineJobs b := by
  induction a with
  | nil => rfl
  | cons j q ih => cases j <;> simp [lineJobs, ih]

theorem textJobs_append (a b : List Job) : textJobs (a ++ b) = textJobs a ++ textJobs b := by
  induction a with
  | nil => rfl
  | cons j q ih => cases j <;> simp [textJobs, ih]

theorem lineJobs_texts (l : List Str) : lineJobs (l.map Job.text) = [] := by
  induction l with
  | nil => rfl
  | cons x xs ih => simp [lineJobs, ih]

theorem textJobs_texts (l : List Str) : textJobs (l.map Job.text) = l := by
  induction l with
  | nil => rfl
  | cons x xs ih => simp [textJobs, ih]

theorem lineJobs_lines (l : List Str) : lineJobs (l.map Job.line) = l := by
  induction l with
  | nil => rfl
  | cons x xs ih => simp [lineJobs, ih]

theorem textJobs_lines (l : List Str) : textJobs (l.map Job.line) = [] := by
  induction l with
  | nil => rfl
  | cons x xs ih => simp [textJobs, ih]

/-- state of the inline pump after a list of lines -/
def inlineSt (st : σ) : List Str → σ
  | [] => st
  | s :: ss => inlineSt (f st s).1 ss

/-- what the handlers returned, line after line -/
def inlineReplies (st : σ) : List Str → List Str
  | [] => []
  | s :: ss => (f st s).2.reply ++ inlineReplies (f st s).1 ss

/-- what the handlers queued through `add_job`, line after line -/
def inlineNested (st : σ) : List Str → List Str
  | [] => []
  | s :: ss => (f st s).2.nested ++ inlineNested (f st s).1 ss

/-- what the inline pump sends -/
def inlineEm (st : σ) : List Str → List Str
  | [] => []
  | s :: ss => (f st s).2.nested ++ (f st s).2.reply ++ inlineEm (f st s).1 ss

theorem runInline_eq (st : σ) (em : List Str) (ls : List Str) :
    runInline f st em ls = (inlineSt f st ls, em ++ inlineEm f st ls) := by
  induction ls generalizing st em with
  | nil => simp [runInline, inlineSt, inlineEm]
  | cons s ss ih => simp [runInline, inlineSt, inlineEm, ih, List.append_assoc]

theorem inlineSt_snoc (st : σ) (ls : List Str) (s : Str) :
    inlineSt f st (ls ++ [s]) = (f (inlineSt f st ls) s).1 := by
  induction ls generalizing st with
  | nil => rfl
  | cons x xs ih => simp [inlineSt, ih]

theorem inlineReplies_snoc (st : σ) (ls : List Str) (s : Str) :
    inlineReplies f st (ls ++ [s]) = inlineReplies f st ls ++ (f (inlineSt f st ls) s).2.reply := by
  induction ls generalizing st with
  | nil => simp [inlineReplies, inlineSt]
  | cons x xs ih => simp [inlineReplies, inlineSt, ih, List.append_assoc]

theorem inlineNested_snoc (st : σ) (ls : List Str) (s : Str) :
    inlineNested f st (ls ++ [s]) = inlineNested f st ls ++ (f (inlineSt f st ls) s).2.nested := by
  induction ls generalizing st with
  | nil => simp [inlineNested, inlineSt]
  | cons x xs ih => simp [inlineNested, inlineSt, ih, List.append_assoc]

theorem inlineEm_snoc (st : σ) (ls : List Str) (s : Str) :
    inlineEm f st (ls ++ [s]) = inlineEm f st ls ++ ((f (inlineSt f st ls) s).2.nested ++
      (f (inlineSt f st ls) s).2.reply) := by
  induction ls generalizing st with
  | nil => simp [inlineEm, inlineSt]
  | cons x xs ih => simp [inlineEm, inlineSt, ih, List.append_assoc]

/-- the inline output is a permutation of replies followed by nested texts -/
theorem inlineEm_perm (st : σ) (ls : List Str) :
    (inlineEm f st ls).Perm (inlineReplies f st ls ++ inlineNested f st ls) := by
  induction ls generalizing st with
  | nil => exact .nil
  | cons s ss ih =>
    simp only [inlineEm, inlineReplies, inlineNested]
    have h := ih (f st s).1
    -- n ++ r ++ E  ~  (r ++ R) ++ (n ++ N)   given  E ~ R ++ N
    refine (List.Perm.append_left _ h).trans ?_
    rw [List.perm_iff_count]
    intro a
    simp only [List.count_append]
    omega

/-! ### the invariant of the threaded pump -/

/-- what holds of the threaded gateway at every moment of every schedule, relative to the
    start state `st0`: `done` are the lines whose jobs have run, `sentN` the nested texts
    already sent -/
structure PumpInv (st0 : σ) (arrived : List Str) (ps : PS σ) : Prop where
  ex : ∃ done sentN : List Str,
    ps.st = inlineSt f st0 done ∧
    done ++ lineJobs ps.queue = arrived ∧
    sentN ++ textJobs ps.queue = inlineNested f st0 done ∧
    Interleave (inlineReplies f st0 done) sentN ps.emitted

theorem pumpInv_init (st0 : σ) : PumpInv f st0 [] { st := st0 } :=
  ⟨[], [], rfl, rfl, rfl, .nil⟩

theorem pumpInv_arrive (st0 : σ) (arrived : List Str) (ps : PS σ) (s : Str)
    (h : PumpInv f st0 arrived ps) : PumpInv f st0 (arrived ++ [s]) (evStep f ps (.arrive s)) := by
  obtain ⟨done, sentN, h1, h2, h3, h4⟩ := h.ex
  refine ⟨done, sentN, h1, ?_, ?_, h4⟩
  · simp only [evStep, lineJobs_append, lineJobs, ← List.append_assoc, h2]
  · simp only [evStep, textJobs_append, textJobs, List.append_nil]; exact h3

theorem pumpInv_pump (st0 : σ) (arrived : List Str) (ps : PS σ)
    (h : PumpInv f st0 arrived ps) : PumpInv f st0 arrived (pumpOne f ps) := by
  obtain ⟨done, sentN, h1, h2, h3, h4⟩ := h.ex
  unfold pumpOne
  cases hq : ps.queue with
  | nil => simp only; exact ⟨done, sentN, h1, h2, h3, h4⟩
  | cons j q =>
    cases j with
    | text t =>
      simp only
      rw [hq] at h2 h3
      refine ⟨done, sentN ++ [t], h1, by simpa [lineJobs] using h2, ?_, Interleave.snoc_right t h4⟩
      simpa [textJobs, List.append_assoc] using h3
    | line s =>
      simp only
      rw [hq] at h2 h3
      refine ⟨done ++ [s], sentN, ?_, ?_, ?_, ?_⟩
      · simp only [inlineSt_snoc, h1]
      · simp only [lineJobs_append, lineJobs_texts, List.append_nil]
        simpa [lineJobs, List.append_assoc] using h2
      · simp only [textJobs_append, textJobs_texts, inlineNested_snoc, ← h1]
        rw [← List.append_assoc, ← h3]; simp [textJobs]
      · simp only [inlineReplies_snoc, ← h1]
        exact Interleave.append_left _ h4

theorem pumpInv_run (st0 : σ) (arrived : List Str) (ps : PS σ) (sched : List Ev)
    (h : PumpInv f st0 arrived ps) :
    PumpInv f st0 (arrived ++ arrivals sched) (runSched f ps sched) := by
  induction sched generalizing ps arrived with
  | nil => simpa [runSched, arrivals] using h
  | cons e es ih =>
    cases e with
    | arrive s =>
      have := ih (arrived ++ [s]) _ (pumpInv_arrive f st0 arrived ps s h)
      simpa [runSched, arrivals, List.append_assoc] using this
    | pump =>
      have := ih arrived _ (pumpInv_pump f st0 arrived ps h)
      simpa [runSched, arrivals, evStep] using this

/-- once everything has been pumped: same state as the inline pump, and the emitted sequence
    interleaves the replies (in line order) with the nested texts (in line order) -/
theorem sync_final (st0 : σ) (sched : List Ev) (hq : (runSched f { st := st0 } sched).queue = []) :
    (runSched f { st := st0 } sched).st = inlineSt f st0 (arrivals sched) ∧
    Interleave (inlineReplies f st0 (arrivals sched)) (inlineNested f st0 (arrivals sched))
      (runSched f { st := st0 } sched).emitted := by
  obtain ⟨done, sentN, h1, h2, h3, h4⟩ := (pumpInv_run f st0 [] _ sched (pumpInv_init f st0)).ex
  rw [hq] at h2 h3
  simp only [lineJobs, textJobs, List.append_nil, List.nil_append] at h2 h3
  subst h2
  subst h3
  exact ⟨h1, h4⟩

/-! ### when the order is the same -/

/-- invariant under `Quiet`: the queue is texts followed by lines, and what has been sent plus
    the waiting texts is exactly the inline output for the lines that have run -/
structure QuietInv (st0 : σ) (arrived : List Str) (ps : PS σ) : Prop where
  ex : ∃ done T L : List Str,
    ps.queue = T.map Job.text ++ L.map Job.line ∧
    ps.st = inlineSt f st0 done ∧
    done ++ L = arrived ∧
    ps.emitted ++ T = inlineEm f st0 done

theorem quietInv_run (hsplit : ∀ st s, (f st s).2.nested = [] ∨ (f st s).2.reply = [])
    (st0 : σ) (arrived : List Str) (ps : PS σ) (sched : List Ev)
    (hq : Quiet f ps sched) (h : QuietInv f st0 arrived ps) :
    QuietInv f st0 (arrived ++ arrivals sched) (runSched f ps sched) := by
  induction sched generalizing ps arrived with
  | nil => simpa [runSched, arrivals] using h
  | cons e es ih =>
    obtain ⟨done, T, L, h1, h2, h3, h4⟩ := h.ex
    cases e with
    | arrive s =>
      have hq' : Quiet f (evStep f ps (.arrive s)) es := hq
      have inv : QuietInv f st0 (arrived ++ [s]) (evStep f ps (.arrive s)) := by
        refine ⟨done, T, L ++ [s], ?_, h2, ?_, h4⟩
        · simp only [evStep, h1, List.map_append, List.map_cons, List.map_nil, List.append_assoc]
        · rw [← List.append_assoc, h3]
      have := ih (arrived ++ [s]) _ hq' inv
      simpa [runSched, arrivals, List.append_assoc] using this
    | pump =>
      obtain ⟨hcond, hq'⟩ := hq
      have inv : QuietInv f st0 arrived (pumpOne f ps) := by
        cases T with
        | cons t T' =>
          have hqueue : ps.queue = Job.text t :: (T'.map Job.text ++ L.map Job.line) := by
            rw [h1]; rfl
          refine ⟨done, T', L, ?_, ?_, h3, ?_⟩
          · simp only [pumpOne, hqueue]
          · simp only [pumpOne, hqueue]; exact h2
          · simp only [pumpOne, hqueue]
            rw [List.append_assoc]; exact h4
        | nil =>
          cases L with
          | nil =>
            have hqueue : ps.queue = [] := by rw [h1]; rfl
            refine ⟨done, [], [], ?_, ?_, h3, ?_⟩
            · simp only [pumpOne, hqueue]; rfl
            · simp only [pumpOne, hqueue]; exact h2
            · simp only [pumpOne, hqueue]; exact h4
          | cons s L' =>
            have hqueue : ps.queue = Job.line s :: L'.map Job.line := by rw [h1]; rfl
            rw [hqueue] at hcond
            simp only at hcond
            have hdone : done ++ [s] ++ L' = arrived := by rw [← h3]; simp
            simp only [List.append_nil] at h4
            rcases hcond with hn | hrest
            · -- the handler queued nothing: the lines behind it stay lines
              refine ⟨done ++ [s], [], L', ?_, ?_, hdone, ?_⟩
              · simp only [pumpOne, hqueue, hn, List.map_nil, List.append_nil, List.nil_append]
              · simp only [pumpOne, hqueue, inlineSt_snoc, h2]
              · simp only [pumpOne, hqueue, inlineEm_snoc, ← h2, hn, List.nil_append,
                  List.append_nil, h4]
            · -- nothing waits behind it: its nested texts are next in the queue
              have hL' : L' = [] := by
                cases L' with
                | nil => rfl
                | cons x xs => simp at hrest
              subst hL'
              refine ⟨done ++ [s], (f ps.st s).2.nested, [], ?_, ?_, hdone, ?_⟩
              · simp only [pumpOne, hqueue, List.map_nil, List.append_nil, List.nil_append]
              · simp only [pumpOne, hqueue, inlineSt_snoc, h2]
              · simp only [pumpOne, hqueue, inlineEm_snoc, ← h2, h4]
                rcases hsplit ps.st s with e | e <;> simp [e]
      have := ih arrived _ hq' inv
      simpa [runSched, arrivals, evStep] using this

theorem quiet_final (hsplit : ∀ st s, (f st s).2.nested = [] ∨ (f st s).2.reply = [])
    (st0 : σ) (sched : List Ev) (hquiet : Quiet f { st := st0 } sched)
    (hq : (runSched f { st := st0 } sched).queue = []) :
    ((runSched f { st := st0 } sched).st, (runSched f { st := st0 } sched).emitted)
      = runInline f st0 [] (arrivals sched) := by
  have init : QuietInv f st0 [] { st := st0 } := ⟨[], [], [], rfl, rfl, rfl, rfl⟩
  obtain ⟨done, T, L, h1, h2, h3, h4⟩ := (quietInv_run f hsplit st0 [] _ sched hquiet init).ex
  rw [hq] at h1
  have hT : T = [] := by
    cases T with
    | nil => rfl
    | cons t T' => simp at h1
  subst hT
  have hL : L = [] := by
    cases L with
    | nil => rfl
    | cons t T' => simp at h1
  subst hL
  simp only [List.append_nil, List.nil_append] at h3 h4
  subst h3
  rw [runInline_eq, h2, h4]; simp

/-! ### drained between lines ⇒ quiet -/

/-- no line job waits, or exactly one job waits and it is a line job -/
def Calm (q : List Job) : Prop := lineJobs q = [] ∨ ∃ s, q = [Job.line s]

theorem quiet_of_drained (ps : PS σ) (sched : List Ev) (hc : Calm ps.queue)
    (hd : Drained f ps sched) : Quiet f ps sched := by
  induction sched generalizing ps with
  | nil => trivial
  | cons e es ih =>
    cases e with
    | arrive s =>
      obtain ⟨hempty, hd'⟩ := hd
      apply ih _ _ hd'
      right
      exact ⟨s, by simp [evStep, hempty]⟩
    | pump =>
      have hd' : Drained f (pumpOne f ps) es := hd
      refine ⟨?_, ih _ ?_ hd'⟩
      · rcases hc with h | ⟨s, h⟩
        · cases hq : ps.queue with
          | nil => trivial
          | cons j q =>
            cases j with
            | text t => trivial
            | line s => rw [hq] at h; simp [lineJobs] at h
        · rw [h]; exact Or.inr rfl
      · rcases hc with h | ⟨s, h⟩
        · left
          unfold pumpOne
          cases hq : ps.queue with
          | nil => simp only; exact h
          | cons j q =>
            cases j with
            | text t => simp only; rw [hq] at h; simpa [lineJobs] using h
            | line s => rw [hq] at h; simp [lineJobs] at h
        · left
          simp only [pumpOne, h, List.nil_append, lineJobs_texts]

end generic

/-! ### the gateway instance -/

theorem gwSplit_oneSided (g : GW) (s : Str) : (gwSplit g s).2.nested = [] ∨ (gwSplit g s).2.reply = [] := by
  unfold gwSplit
  split
  · exact Or.inl rfl
  · exact Or.inr rfl

theorem gwSplit_state (g : GW) (s : Str) : (gwSplit g s).1 = (step g (.line s)).1 := by
  unfold gwSplit; split <;> rfl

theorem gwSplit_sent (g : GW) (s : Str) :
    (gwSplit g s).2.nested ++ (gwSplit g s).2.reply = (step g (.line s)).2.sent := by
  unfold gwSplit; split <;> simp

end MySensors
