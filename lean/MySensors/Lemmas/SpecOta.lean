/-
  Lemmas for C10: association-list facts about `aerase`, the abstraction `absSession` under the
  store migrations `pickConfig` / `pickBlock` / `scheduleNode`, and preservation of the store
  invariants `StoresOk` / `RangesOk` by the OTA primitives.
-/
import MySensors.Model.SpecOta
import MySensors.Lemmas.GwRel
import MySensors.Lemmas.Ota
import MySensors.Properties.C02

namespace MySensors.C10
open MySensors

variable {ν : Type}

/-! ### association lists -/

theorem aget_aerase_ne (k k2 : Int) (l : List (Int × ν)) (h : k2 ≠ k) :
    aget k2 (aerase k l) = aget k2 l := by
  induction l with
  | nil => rfl
  | cons p l ih =>
    obtain ⟨k', v'⟩ := p
    by_cases h1 : k = k'
    · subst h1; simp [aerase, aget, h]
    · by_cases h2 : k2 = k' <;> simp [aerase, aget, h1, h2, ih]

theorem akeys_aerase_sub (k : Int) (l : List (Int × ν)) : ∀ x ∈ akeys (aerase k l), x ∈ akeys l := by
  induction l with
  | nil => intro x hx; exact hx
  | cons p l ih =>
    obtain ⟨k', v'⟩ := p
    intro x hx
    by_cases h1 : k = k'
    · simp [aerase, h1, akeys] at hx ⊢; exact Or.inr hx
    · simp only [aerase, h1, ↓reduceIte, akeys, List.map_cons, List.mem_cons] at hx ⊢
      rcases hx with hx | hx
      · exact Or.inl hx
      · exact Or.inr (ih x hx)

theorem nodup_aerase (k : Int) (l : List (Int × ν)) (h : (akeys l).Nodup) : (akeys (aerase k l)).Nodup := by
  induction l with
  | nil => exact h
  | cons p l ih =>
    obtain ⟨k', v'⟩ := p
    simp only [akeys, List.map_cons, List.nodup_cons] at h
    by_cases h1 : k = k'
    · simp only [aerase, h1, ↓reduceIte]; exact h.2
    · simp only [aerase, h1, ↓reduceIte, akeys, List.map_cons, List.nodup_cons]
      exact ⟨fun hm => h.1 (akeys_aerase_sub k l k' hm), ih h.2⟩

theorem aget_aerase_same (k : Int) (l : List (Int × ν)) (h : (akeys l).Nodup) : aget k (aerase k l) = none := by
  induction l with
  | nil => rfl
  | cons p l ih =>
    obtain ⟨k', v'⟩ := p
    simp only [akeys, List.map_cons, List.nodup_cons] at h
    by_cases h1 : k = k'
    · subst h1
      simp only [aerase, ↓reduceIte]
      exact (aget_none_iff_not_mem_keys k l).mpr h.1
    · simp only [aerase, h1, ↓reduceIte, aget]
      exact ih h.2

theorem aerase_of_not_mem (k : Int) (l : List (Int × ν)) (h : aget k l = none) : aerase k l = l := by
  induction l with
  | nil => rfl
  | cons p l ih =>
    obtain ⟨k', v'⟩ := p
    by_cases h1 : k = k'
    · subst h1; simp [aget] at h
    · simp only [aget, h1, ↓reduceIte] at h
      simp [aerase, h1, ih h]

theorem nodup_aset (k : Int) (v : ν) (l : List (Int × ν)) (h : (akeys l).Nodup) : (akeys (aset k v l)).Nodup := by
  cases hk : aget k l with
  | none =>
    rw [akeys_aset_of_not_mem k v l hk]
    have := (aget_none_iff_not_mem_keys k l).mp hk
    simp [List.nodup_append, h]
    intro a ha e; subst e; exact this ha
  | some x => rw [akeys_aset_of_mem k v l (by rw [hk]; rfl)]; exact h

theorem mem_of_aget (k : Int) (v : ν) (l : List (Int × ν)) (h : aget k l = some v) : (k, v) ∈ l := by
  induction l with
  | nil => simp at h
  | cons p l ih =>
    obtain ⟨k', v'⟩ := p
    by_cases h1 : k = k'
    · subst h1; simp [aget] at h; subst h; simp
    · simp only [aget, h1, ↓reduceIte] at h
      exact List.mem_cons_of_mem _ (ih h)

theorem mem_aset (k : Int) (v : ν) (l : List (Int × ν)) : ∀ p ∈ aset k v l, p ∈ l ∨ p = (k, v) := by
  induction l with
  | nil => intro p hp; simp [aset] at hp; exact Or.inr hp
  | cons q l ih =>
    obtain ⟨k', v'⟩ := q
    intro p hp
    by_cases h1 : k = k'
    · subst h1
      simp only [aset, ↓reduceIte, List.mem_cons] at hp ⊢
      rcases hp with hp | hp
      · exact Or.inr hp
      · exact Or.inl (Or.inr hp)
    · simp only [aset, h1, ↓reduceIte, List.mem_cons] at hp ⊢
      rcases hp with hp | hp
      · exact Or.inl (Or.inl hp)
      · rcases ih p hp with h | h
        · exact Or.inl (Or.inr h)
        · exact Or.inr h

theorem mem_aerase (k : Int) (l : List (Int × ν)) : ∀ p ∈ aerase k l, p ∈ l := by
  induction l with
  | nil => intro p hp; exact hp
  | cons q l ih =>
    obtain ⟨k', v'⟩ := q
    intro p hp
    by_cases h1 : k = k'
    · simp only [aerase, h1, ↓reduceIte] at hp; exact List.mem_cons_of_mem _ hp
    · simp only [aerase, h1, ↓reduceIte, List.mem_cons] at hp ⊢
      rcases hp with hp | hp
      · exact Or.inl hp
      · exact Or.inr (ih p hp)

theorem mem_of_lookup {κ} [DecidableEq κ] (k : κ) (v : ν) (l : List (κ × ν)) (h : lookup k l = some v) : (k, v) ∈ l := by
  induction l with
  | nil => simp [lookup] at h
  | cons p l ih =>
    obtain ⟨k', v'⟩ := p
    by_cases h1 : k = k'
    · subst h1; simp [lookup] at h; subst h; simp
    · simp only [lookup, h1, ↓reduceIte] at h
      exact List.mem_cons_of_mem _ (ih h)

/-! ### the abstraction -/

theorem abs_requested {o : OtaState} {n : Int} {fid : Int × Int} (h : aget n o.requested = some fid) :
    absSession o n = .requested fid := by simp [absSession, h]

theorem abs_offered {o : OtaState} {n : Int} {fid : Int × Int} (h1 : aget n o.requested = none)
    (h2 : aget n o.unstarted = some fid) : absSession o n = .offered fid := by
  simp [absSession, absUnstarted, h1, h2]

theorem abs_fetching {o : OtaState} {n : Int} {fid : Int × Int} (h1 : aget n o.requested = none)
    (h2 : aget n o.unstarted = none) (h3 : aget n o.started = some fid) : absSession o n = .fetching fid := by
  simp [absSession, absUnstarted, absStarted, h1, h2, h3]

theorem abs_idle {o : OtaState} {n : Int} (h1 : aget n o.requested = none)
    (h2 : aget n o.unstarted = none) (h3 : aget n o.started = none) : absSession o n = .idle := by
  simp [absSession, absUnstarted, absStarted, h1, h2, h3]

/-- the session is a function of the three store entries of the node -/
theorem abs_congr {o o' : OtaState} {n : Int} (h1 : aget n o'.requested = aget n o.requested)
    (h2 : aget n o'.unstarted = aget n o.unstarted) (h3 : aget n o'.started = aget n o.started) :
    absSession o' n = absSession o n := by
  simp [absSession, absUnstarted, absStarted, h1, h2, h3]

theorem abs_requested_inv {o : OtaState} {n : Int} {fid : Int × Int} (h : absSession o n = .requested fid) :
    aget n o.requested = some fid := by
  unfold absSession at h
  cases hr : aget n o.requested with
  | some f => simp [hr] at h; rw [h]
  | none =>
    simp only [hr, absUnstarted, absStarted] at h
    cases hu : aget n o.unstarted <;> simp [hu] at h
    cases hs : aget n o.started <;> simp [hs] at h

theorem abs_offered_inv {o : OtaState} {n : Int} {fid : Int × Int} (h : absSession o n = .offered fid) :
    aget n o.requested = none ∧ aget n o.unstarted = some fid := by
  unfold absSession at h
  cases hr : aget n o.requested with
  | some f => simp [hr] at h
  | none =>
    simp only [hr, absUnstarted, absStarted] at h
    cases hu : aget n o.unstarted with
    | some f => simp [hu] at h; rw [h]; exact ⟨rfl, rfl⟩
    | none =>
      simp only [hu] at h
      cases hs : aget n o.started <;> simp [hs] at h

theorem abs_fetching_inv {o : OtaState} {n : Int} {fid : Int × Int} (h : absSession o n = .fetching fid) :
    aget n o.requested = none ∧ aget n o.unstarted = none ∧ aget n o.started = some fid := by
  unfold absSession at h
  cases hr : aget n o.requested with
  | some f => simp [hr] at h
  | none =>
    simp only [hr, absUnstarted, absStarted] at h
    cases hu : aget n o.unstarted with
    | some f => simp [hu] at h
    | none =>
      simp only [hu] at h
      cases hs : aget n o.started with
      | some f => simp [hs] at h; rw [h]; exact ⟨rfl, rfl, rfl⟩
      | none => simp [hs] at h

theorem abs_idle_inv {o : OtaState} {n : Int} (h : absSession o n = .idle) :
    aget n o.requested = none ∧ aget n o.unstarted = none ∧ aget n o.started = none := by
  unfold absSession at h
  cases hr : aget n o.requested with
  | some f => simp [hr] at h
  | none =>
    simp only [hr, absUnstarted, absStarted] at h
    cases hu : aget n o.unstarted with
    | some f => simp [hu] at h
    | none =>
      simp only [hu] at h
      cases hs : aget n o.started with
      | some f => simp [hs] at h
      | none => exact ⟨rfl, rfl, rfl⟩

theorem storesOk_empty : StoresOk {} := by
  refine ⟨?_, ?_, ?_, ?_, ?_, ?_⟩ <;> simp [akeys]

theorem rangesOk_empty : RangesOk {} := by
  refine ⟨?_, ?_⟩ <;> simp

/-! ### the store migrations -/

/-- move of a node's entry from `requested` to `unstarted` -/
def moveReqUnst (o : OtaState) (node : Int) (fid : Int × Int) : OtaState :=
  { o with requested := aerase node o.requested, unstarted := aset node fid o.unstarted }

def touchUnst (o : OtaState) (node : Int) (fid : Int × Int) : OtaState :=
  { o with unstarted := aset node fid (aerase node o.unstarted) }

def moveUnstSt (o : OtaState) (node : Int) (fid : Int × Int) : OtaState :=
  { o with unstarted := aerase node o.unstarted, started := aset node fid o.started }

def touchSt (o : OtaState) (node : Int) (fid : Int × Int) : OtaState :=
  { o with started := aset node fid (aerase node o.started) }

theorem pickConfig_requested {o : OtaState} {node : Int} {fid : Int × Int} (h : aget node o.requested = some fid) :
    pickConfig o node = some (fid, moveReqUnst o node fid) := by simp [pickConfig, h, moveReqUnst]

theorem pickConfig_unstarted {o : OtaState} {node : Int} {fid : Int × Int} (h1 : aget node o.requested = none)
    (h2 : aget node o.unstarted = some fid) : pickConfig o node = some (fid, touchUnst o node fid) := by
  simp [pickConfig, h1, h2, touchUnst]

theorem pickConfig_none {o : OtaState} {node : Int} (h1 : aget node o.requested = none)
    (h2 : aget node o.unstarted = none) : pickConfig o node = none := by simp [pickConfig, h1, h2]

theorem pickBlock_unstarted {o : OtaState} {node : Int} {fid : Int × Int} (h : aget node o.unstarted = some fid) :
    pickBlock o node = some (moveUnstSt o node fid) := by simp [pickBlock, h, moveUnstSt]

theorem pickBlock_started {o : OtaState} {node : Int} {fid : Int × Int} (h1 : aget node o.unstarted = none)
    (h2 : aget node o.started = some fid) : pickBlock o node = some (touchSt o node fid) := by
  simp [pickBlock, h1, h2, touchSt]

theorem pickBlock_none {o : OtaState} {node : Int} (h1 : aget node o.unstarted = none)
    (h2 : aget node o.started = none) : pickBlock o node = none := by simp [pickBlock, h1, h2]

theorem isSome_of_eq_some {α} {x : Option α} {a : α} (h : x = some a) : x.isSome = true := by rw [h]; rfl

theorem none_of_not_isSome {α} {x : Option α} (h : ¬ x.isSome = true) : x = none := by
  cases x <;> simp at h ⊢

/-- what one migration does: the node's session, the other nodes, the invariants -/
structure Migrates (o o' : OtaState) (node : Int) (s' : Session) : Prop where
  fw : o'.firmware = o.firmware
  self : absSession o' node = s'
  others : ∀ n, n ≠ node → absSession o' n = absSession o n
  ok : StoresOk o'
  mem : ∀ p, p ∈ o'.requested ∨ p ∈ o'.unstarted ∨ p ∈ o'.started → p ∈ o.requested ∨ p ∈ o.unstarted ∨ p ∈ o.started

theorem migrates_moveReqUnst {o : OtaState} {node : Int} {fid : Int × Int} (hok : StoresOk o)
    (h : aget node o.requested = some fid) : Migrates o (moveReqUnst o node fid) node (.offered fid) := by
  have hsome := isSome_of_eq_some h
  refine ⟨rfl, ?_, ?_, ⟨nodup_aerase _ _ hok.ndReq, nodup_aset _ _ _ hok.ndUnst, hok.ndSt, ?_, ?_, ?_⟩, ?_⟩
  · exact abs_offered (aget_aerase_same _ _ hok.ndReq) (aget_aset_same _ _ _)
  · intro n hn
    exact abs_congr (aget_aerase_ne _ _ _ hn) (aget_aset_ne _ _ _ _ hn) rfl
  · intro n hs
    by_cases hn : n = node
    · subst hn; simp [moveReqUnst, aget_aerase_same _ _ hok.ndReq] at hs
    · simp only [moveReqUnst, aget_aerase_ne _ _ _ hn] at hs
      simp only [moveReqUnst, aget_aset_ne _ _ _ _ hn]; exact hok.reqUnst n hs
  · intro n hs
    by_cases hn : n = node
    · subst hn; simp [moveReqUnst, aget_aerase_same _ _ hok.ndReq] at hs
    · simp only [moveReqUnst, aget_aerase_ne _ _ _ hn] at hs
      exact hok.reqSt n hs
  · intro n hs
    by_cases hn : n = node
    · subst hn; exact hok.reqSt n hsome
    · simp only [moveReqUnst, aget_aset_ne _ _ _ _ hn] at hs
      exact hok.unstSt n hs
  · intro p hp
    simp only [moveReqUnst] at hp
    rcases hp with hp | hp | hp
    · exact Or.inl (mem_aerase _ _ p hp)
    · rcases mem_aset _ _ _ p hp with hp | hp
      · exact Or.inr (Or.inl hp)
      · subst hp; exact Or.inl (mem_of_aget _ _ _ h)
    · exact Or.inr (Or.inr hp)

theorem migrates_touchUnst {o : OtaState} {node : Int} {fid : Int × Int} (hok : StoresOk o)
    (h1 : aget node o.requested = none) (h2 : aget node o.unstarted = some fid) :
    Migrates o (touchUnst o node fid) node (.offered fid) := by
  have hsome := isSome_of_eq_some h2
  refine ⟨rfl, ?_, ?_, ⟨hok.ndReq, nodup_aset _ _ _ (nodup_aerase _ _ hok.ndUnst), hok.ndSt, ?_, ?_, ?_⟩, ?_⟩
  · exact abs_offered h1 (aget_aset_same _ _ _)
  · intro n hn
    exact abs_congr rfl (by simp only [touchUnst]; rw [aget_aset_ne _ _ _ _ hn, aget_aerase_ne _ _ _ hn]) rfl
  · intro n hs
    by_cases hn : n = node
    · subst hn; simp [touchUnst, h1] at hs
    · simp only [touchUnst] at hs ⊢
      rw [aget_aset_ne _ _ _ _ hn, aget_aerase_ne _ _ _ hn]; exact hok.reqUnst n hs
  · exact hok.reqSt
  · intro n hs
    by_cases hn : n = node
    · subst hn; exact hok.unstSt n hsome
    · simp only [touchUnst] at hs
      rw [aget_aset_ne _ _ _ _ hn, aget_aerase_ne _ _ _ hn] at hs
      exact hok.unstSt n hs
  · intro p hp
    simp only [touchUnst] at hp
    rcases hp with hp | hp | hp
    · exact Or.inl hp
    · rcases mem_aset _ _ _ p hp with hp | hp
      · exact Or.inr (Or.inl (mem_aerase _ _ p hp))
      · subst hp; exact Or.inr (Or.inl (mem_of_aget _ _ _ h2))
    · exact Or.inr (Or.inr hp)

theorem migrates_moveUnstSt {o : OtaState} {node : Int} {fid : Int × Int} (hok : StoresOk o)
    (h : aget node o.unstarted = some fid) : Migrates o (moveUnstSt o node fid) node (.fetching fid) := by
  have hsome := isSome_of_eq_some h
  have hreq : aget node o.requested = none := by
    apply none_of_not_isSome
    intro hs; have := hok.reqUnst node hs; rw [h] at this; cases this
  refine ⟨rfl, ?_, ?_, ⟨hok.ndReq, nodup_aerase _ _ hok.ndUnst, nodup_aset _ _ _ hok.ndSt, ?_, ?_, ?_⟩, ?_⟩
  · exact abs_fetching hreq (aget_aerase_same _ _ hok.ndUnst) (aget_aset_same _ _ _)
  · intro n hn
    exact abs_congr rfl (aget_aerase_ne _ _ _ hn) (aget_aset_ne _ _ _ _ hn)
  · intro n hs
    by_cases hn : n = node
    · subst hn; exact aget_aerase_same _ _ hok.ndUnst
    · simp only [moveUnstSt, aget_aerase_ne _ _ _ hn]; exact hok.reqUnst n hs
  · intro n hs
    by_cases hn : n = node
    · subst hn; simp [moveUnstSt, hreq] at hs
    · simp only [moveUnstSt, aget_aset_ne _ _ _ _ hn]; exact hok.reqSt n hs
  · intro n hs
    by_cases hn : n = node
    · subst hn; simp [moveUnstSt, aget_aerase_same _ _ hok.ndUnst] at hs
    · simp only [moveUnstSt, aget_aerase_ne _ _ _ hn] at hs
      simp only [moveUnstSt, aget_aset_ne _ _ _ _ hn]; exact hok.unstSt n hs
  · intro p hp
    simp only [moveUnstSt] at hp
    rcases hp with hp | hp | hp
    · exact Or.inl hp
    · exact Or.inr (Or.inl (mem_aerase _ _ p hp))
    · rcases mem_aset _ _ _ p hp with hp | hp
      · exact Or.inr (Or.inr hp)
      · subst hp; exact Or.inr (Or.inl (mem_of_aget _ _ _ h))

theorem migrates_touchSt {o : OtaState} {node : Int} {fid : Int × Int} (hok : StoresOk o)
    (h1 : aget node o.unstarted = none) (h2 : aget node o.started = some fid) :
    Migrates o (touchSt o node fid) node (.fetching fid) := by
  have hsome := isSome_of_eq_some h2
  have hreq : aget node o.requested = none := by
    apply none_of_not_isSome
    intro hs; have := hok.reqSt node hs; rw [h2] at this; cases this
  refine ⟨rfl, ?_, ?_, ⟨hok.ndReq, hok.ndUnst, nodup_aset _ _ _ (nodup_aerase _ _ hok.ndSt), ?_, ?_, ?_⟩, ?_⟩
  · exact abs_fetching hreq h1 (aget_aset_same _ _ _)
  · intro n hn
    exact abs_congr rfl rfl (by simp only [touchSt]; rw [aget_aset_ne _ _ _ _ hn, aget_aerase_ne _ _ _ hn])
  · exact hok.reqUnst
  · intro n hs
    by_cases hn : n = node
    · subst hn; simp [touchSt, hreq] at hs
    · simp only [touchSt]
      rw [aget_aset_ne _ _ _ _ hn, aget_aerase_ne _ _ _ hn]; exact hok.reqSt n hs
  · intro n hs
    by_cases hn : n = node
    · subst hn; simp [touchSt, h1] at hs
    · simp only [touchSt] at hs ⊢
      rw [aget_aset_ne _ _ _ _ hn, aget_aerase_ne _ _ _ hn]; exact hok.unstSt n hs
  · intro p hp
    simp only [touchSt] at hp
    rcases hp with hp | hp | hp
    · exact Or.inl hp
    · exact Or.inr (Or.inl hp)
    · rcases mem_aset _ _ _ p hp with hp | hp
      · exact Or.inr (Or.inr (mem_aerase _ _ p hp))
      · subst hp; exact Or.inr (Or.inr (mem_of_aget _ _ _ h2))

theorem Migrates.ranges {o o' : OtaState} {node : Int} {s' : Session} (h : Migrates o o' node s')
    (hr : RangesOk o) : RangesOk o' :=
  ⟨fun p hp => hr.fids p (h.mem p hp), by rw [h.fw]; exact hr.fws⟩

/-! ### request payloads hold 16-bit words -/

theorem hexVal_lt (c : Char) (x : Nat) (h : hexVal c = some x) : x < 16 := by
  unfold hexVal at h
  simp only at h
  split at h
  · cases h; omega
  · split at h
    · cases h; omega
    · split at h
      · cases h; omega
      · cases h

theorem unhexlify_isBytes : ∀ (s : Str) (bs : List Nat), unhexlify s = some bs → IsBytes bs
  | [], bs, h => by simp [unhexlify] at h; subst h; intro b hb; cases hb
  | [_], bs, h => by simp [unhexlify] at h
  | a :: b :: rest, bs, h => by
    unfold unhexlify at h
    cases ha : hexVal a with
    | none => simp [ha] at h
    | some x =>
      cases hb : hexVal b with
      | none => simp [ha, hb] at h
      | some y =>
        cases hr : unhexlify rest with
        | none => simp [ha, hb, hr] at h
        | some bs' =>
          simp [ha, hb, hr] at h
          subst h
          have ih := unhexlify_isBytes rest bs' hr
          have hx := hexVal_lt a x ha
          have hy := hexVal_lt b y hb
          intro z hz
          simp only [List.mem_cons] at hz
          rcases hz with hz | hz
          · subst hz; omega
          · exact ih z hz

theorem bytesToWords_isWords : ∀ (bs : List Nat), IsBytes bs → IsWords (bytesToWords bs)
  | [], _ => by intro w hw; simp [bytesToWords] at hw
  | [_], _ => by intro w hw; simp [bytesToWords] at hw
  | lo :: hi :: rest, h => by
    intro w hw
    simp only [bytesToWords, List.mem_cons] at hw
    rcases hw with hw | hw
    · have h1 := h lo (by simp)
      have h2 := h hi (by simp)
      subst hw; omega
    · exact bytesToWords_isWords rest (h.tail.tail) w hw

theorem fwHexToInt_isWords (p : Str) (n : Nat) (ws : List Nat) (h : fwHexToInt p n = some ws) : IsWords ws := by
  unfold fwHexToInt at h
  cases hu : unhexlify p with
  | none => simp [hu] at h
  | some bs =>
    simp only [hu] at h
    split at h
    · cases h; exact bytesToWords_isWords bs (unhexlify_isBytes p bs hu)
    · cases h

/-! ### the two responders as functions of the session -/

theorem modify_sub (m : Msg) (sub : Int) : m.modify { sub := some sub } = { m with sub := sub } := rfl

theorem configReply_ok (g : GW) (l : Str) (m : Msg) (fid : Int × Int) (fw : Fw) (sub : Int)
    (hd : decode l = some m) (hf : fidInRange fid) (hfw : fw.blocks < 65536 ∧ fw.crc < 65536) :
    configReply g m fid fw sub = { g := g, reply := some (configResponseMsg m sub fid fw) } := by
  unfold configReply
  rw [C02.copy_decoded l m _ hd]
  have hw : IsWords [fid.1.toNat, fid.2.toNat, fw.blocks, fw.crc] := by
    obtain ⟨a, b, c, d⟩ := hf
    intro w hw
    simp only [List.mem_cons, List.mem_nil_iff, or_false] at hw
    rcases hw with rfl | rfl | rfl | rfl <;> omega
  simp only [fwIntToHex_eq _ hw, modify_sub]
  rfl

theorem blockReply_ok (g : GW) (l : Str) (m : Msg) (rt rv blk : Nat) (fw : Fw) (sub : Int)
    (hd : decode l = some m) (hw : IsWords [rt, rv, blk]) :
    blockReply g m rt rv blk fw sub = { g := g, reply := some (blockResponseMsg m sub rt rv blk fw) } := by
  unfold blockReply
  rw [C02.copy_decoded l m _ hd]
  simp only [fwIntToHex_eq _ hw, modify_sub]
  rfl

theorem config_malformed (g : GW) (m : Msg) (h : fwHexToInt m.payload 5 = none) :
    otaConfigResponse g m = { g := g } := by
  simp [otaConfigResponse, h]

theorem block_malformed (g : GW) (m : Msg) (h : fwHexToInt m.payload 3 = none) :
    otaBlockResponse g m = { g := g } := by
  simp [otaBlockResponse, h]

/-- a well-formed config request of a node with a pending (`requested` / `unstarted`) entry -/
theorem config_pick_fw (g : GW) (m : Msg) (ws : List Nat) (fid : Int × Int) (o' : OtaState) (fw : Fw) (sub : Int)
    (hw : fwHexToInt m.payload 5 = some ws) (hp : pickConfig g.ota m.node = some (fid, o'))
    (hf : lookup fid o'.firmware = some fw) (hs : g.t.stConfigResponse = some sub) :
    otaConfigResponse g m = configReply { g with ota := o' } m fid fw sub := by
  simp [otaConfigResponse, hw, hp, hf, hs]

theorem config_pick_nofw (g : GW) (m : Msg) (ws : List Nat) (fid : Int × Int) (o' : OtaState)
    (hw : fwHexToInt m.payload 5 = some ws) (hp : pickConfig g.ota m.node = some (fid, o'))
    (hf : lookup fid o'.firmware = none) :
    otaConfigResponse g m = { g := { g with ota := o' } } := by
  simp [otaConfigResponse, hw, hp, hf]

theorem config_nopick (g : GW) (m : Msg) (hp : pickConfig g.ota m.node = none) :
    otaConfigResponse g m = { g := g } := by
  unfold otaConfigResponse
  split
  · rfl
  · simp [hp]

theorem block_pick_fw (g : GW) (m : Msg) (rt rv blk : Nat) (o' : OtaState) (fw : Fw) (sub : Int)
    (hw : fwHexToInt m.payload 3 = some [rt, rv, blk]) (hp : pickBlock g.ota m.node = some o')
    (hf : lookup ((rt : Int), (rv : Int)) o'.firmware = some fw) (hs : g.t.stResponse = some sub) :
    otaBlockResponse g m = blockReply { g with ota := o' } m rt rv blk fw sub := by
  simp [otaBlockResponse, hw, hp, hf, hs]

theorem block_pick_nofw (g : GW) (m : Msg) (rt rv blk : Nat) (o' : OtaState)
    (hw : fwHexToInt m.payload 3 = some [rt, rv, blk]) (hp : pickBlock g.ota m.node = some o')
    (hf : lookup ((rt : Int), (rv : Int)) o'.firmware = none) :
    otaBlockResponse g m = { g := { g with ota := o' } } := by
  simp [otaBlockResponse, hw, hp, hf]

theorem block_nopick (g : GW) (m : Msg) (hp : pickBlock g.ota m.node = none) :
    otaBlockResponse g m = { g := g } := by
  unfold otaBlockResponse
  split
  · simp [hp]
  · rfl

/-- what a stream responder did, against the automaton: session of the requesting node, reply,
    no exception, other nodes, firmware table, rest of the gateway, invariants -/
structure Refines (g : GW) (m : Msg) (r : StreamRes) (sp : Session × Option Msg) : Prop where
  session : absSession r.g.ota m.node = sp.1
  reply : r.reply = sp.2
  exc : r.exc = none
  others : ∀ n, n ≠ m.node → absSession r.g.ota n = absSession g.ota n
  fw : r.g.ota.firmware = g.ota.firmware
  frame : { r.g with ota := g.ota } = g
  ok : StoresOk r.g.ota
  ranges : RangesOk r.g.ota

theorem refines_config_of_pick (g : GW) (l : Str) (m : Msg) (ws : List Nat) (sub : Int) (fid : Int × Int)
    (o' : OtaState) (hd : decode l = some m) (hr : RangesOk g.ota) (hs : g.t.stConfigResponse = some sub)
    (hw : fwHexToInt m.payload 5 = some ws) (hp : pickConfig g.ota m.node = some (fid, o'))
    (hm : Migrates g.ota o' m.node (.offered fid))
    (hin : (m.node, fid) ∈ g.ota.requested ∨ (m.node, fid) ∈ g.ota.unstarted ∨ (m.node, fid) ∈ g.ota.started) :
    Refines g m (otaConfigResponse g m)
      (.offered fid, (lookup fid g.ota.firmware).map (configResponseMsg m sub fid)) := by
  cases hf : lookup fid g.ota.firmware with
  | none =>
    rw [config_pick_nofw g m ws fid o' hw hp (by rw [hm.fw]; exact hf)]
    exact ⟨hm.self, rfl, rfl, hm.others, hm.fw, rfl, hm.ok, hm.ranges hr⟩
  | some fw =>
    rw [config_pick_fw g m ws fid o' fw sub hw hp (by rw [hm.fw]; exact hf) hs,
      configReply_ok _ l m fid fw sub hd (hr.fids _ hin) (hr.fws _ (mem_of_lookup _ _ _ hf))]
    exact ⟨hm.self, rfl, rfl, hm.others, hm.fw, rfl, hm.ok, hm.ranges hr⟩

theorem refines_noop (g : GW) (m : Msg) (s : Session) (hok : StoresOk g.ota) (hr : RangesOk g.ota)
    (hs : absSession g.ota m.node = s) : Refines g m { g := g } (s, none) :=
  ⟨hs, rfl, rfl, fun _ _ => rfl, rfl, rfl, hok, hr⟩

/-- **config requests refine the automaton** -/
theorem refines_config (g : GW) (l : Str) (m : Msg) (ws : List Nat) (sub : Int)
    (hd : decode l = some m) (hok : StoresOk g.ota) (hr : RangesOk g.ota)
    (hs : g.t.stConfigResponse = some sub) (hw : fwHexToInt m.payload 5 = some ws) :
    Refines g m (otaConfigResponse g m) (specConfig g.ota.firmware sub m (absSession g.ota m.node)) := by
  cases ha : absSession g.ota m.node with
  | requested fid =>
    have h := abs_requested_inv ha
    exact refines_config_of_pick g l m ws sub fid _ hd hr hs hw (pickConfig_requested h)
      (migrates_moveReqUnst hok h) (Or.inl (mem_of_aget _ _ _ h))
  | offered fid =>
    obtain ⟨h1, h2⟩ := abs_offered_inv ha
    exact refines_config_of_pick g l m ws sub fid _ hd hr hs hw (pickConfig_unstarted h1 h2)
      (migrates_touchUnst hok h1 h2) (Or.inr (Or.inl (mem_of_aget _ _ _ h2)))
  | fetching fid =>
    obtain ⟨h1, h2, _⟩ := abs_fetching_inv ha
    rw [config_nopick g m (pickConfig_none h1 h2)]
    exact refines_noop g m _ hok hr ha
  | idle =>
    obtain ⟨h1, h2, _⟩ := abs_idle_inv ha
    rw [config_nopick g m (pickConfig_none h1 h2)]
    exact refines_noop g m _ hok hr ha

theorem refines_block_of_pick (g : GW) (l : Str) (m : Msg) (rt rv blk : Nat) (sub : Int) (fid : Int × Int)
    (o' : OtaState) (hd : decode l = some m) (hr : RangesOk g.ota) (hs : g.t.stResponse = some sub)
    (hw : fwHexToInt m.payload 3 = some [rt, rv, blk]) (hp : pickBlock g.ota m.node = some o')
    (hm : Migrates g.ota o' m.node (.fetching fid)) :
    Refines g m (otaBlockResponse g m)
      (.fetching fid, (lookup ((rt : Int), (rv : Int)) g.ota.firmware).map (blockResponseMsg m sub rt rv blk)) := by
  cases hf : lookup ((rt : Int), (rv : Int)) g.ota.firmware with
  | none =>
    rw [block_pick_nofw g m rt rv blk o' hw hp (by rw [hm.fw]; exact hf)]
    exact ⟨hm.self, rfl, rfl, hm.others, hm.fw, rfl, hm.ok, hm.ranges hr⟩
  | some fw =>
    rw [block_pick_fw g m rt rv blk o' fw sub hw hp (by rw [hm.fw]; exact hf) hs,
      blockReply_ok _ l m rt rv blk fw sub hd (fwHexToInt_isWords _ _ _ hw)]
    exact ⟨hm.self, rfl, rfl, hm.others, hm.fw, rfl, hm.ok, hm.ranges hr⟩

/-- **block requests refine the automaton** -/
theorem refines_block (g : GW) (l : Str) (m : Msg) (rt rv blk : Nat) (sub : Int)
    (hd : decode l = some m) (hok : StoresOk g.ota) (hr : RangesOk g.ota)
    (hs : g.t.stResponse = some sub) (hw : fwHexToInt m.payload 3 = some [rt, rv, blk]) :
    Refines g m (otaBlockResponse g m) (specBlock g.ota.firmware sub m rt rv blk (absSession g.ota m.node)) := by
  cases ha : absSession g.ota m.node with
  | requested fid =>
    have h := abs_requested_inv ha
    have hsome := isSome_of_eq_some h
    rw [block_nopick g m (pickBlock_none (hok.reqUnst _ hsome) (hok.reqSt _ hsome))]
    exact refines_noop g m _ hok hr ha
  | offered fid =>
    obtain ⟨_, h2⟩ := abs_offered_inv ha
    exact refines_block_of_pick g l m rt rv blk sub fid _ hd hr hs hw (pickBlock_unstarted h2)
      (migrates_moveUnstSt hok h2)
  | fetching fid =>
    obtain ⟨_, h2, h3⟩ := abs_fetching_inv ha
    exact refines_block_of_pick g l m rt rv blk sub fid _ hd hr hs hw (pickBlock_started h2 h3)
      (migrates_touchSt hok h2 h3)
  | idle =>
    obtain ⟨_, h2, h3⟩ := abs_idle_inv ha
    rw [block_nopick g m (pickBlock_none h2 h3)]
    exact refines_noop g m _ hok hr ha

/-- a three-word payload unpacks to exactly three words -/
theorem fwHexToInt_three (p : Str) (ws : List Nat) (h : fwHexToInt p 3 = some ws) :
    ∃ rt rv blk, ws = [rt, rv, blk] := by
  unfold fwHexToInt at h
  cases hu : unhexlify p with
  | none => simp [hu] at h
  | some bs =>
    simp only [hu] at h
    split at h
    · rename_i hl
      cases h
      match bs, hl with
      | [a, b, c, d, e, f], _ => exact ⟨_, _, _, rfl⟩
    · cases h

/-! ### the update call -/

def knownNode (g : GW) (n : Int) : Bool := (aget n g.sensors).isSome

/-- effect summary of scheduling the nodes `nids` for firmware `(t, v)` -/
structure Sched (t v : Int) (g g' : GW) (nids : List Int) : Prop where
  fw : g'.ota.firmware = g.ota.firmware
  session : ∀ n, absSession g'.ota n =
    if n ∈ nids ∧ knownNode g n = true then .requested (t, v) else absSession g.ota n
  ok : StoresOk g.ota → StoresOk g'.ota
  mem : ∀ p, p ∈ g'.ota.requested ∨ p ∈ g'.ota.unstarted ∨ p ∈ g'.ota.started →
    (p ∈ g.ota.requested ∨ p ∈ g.ota.unstarted ∨ p ∈ g.ota.started) ∨ p.2 = (t, v)
  nodes : ∀ k, aget k g'.sensors = (aget k g.sensors).map fun n => { n with reboot := n.reboot || decide (k ∈ nids) }
  frame : { g' with ota := g.ota, sensors := g.sensors } = g

theorem sched_nil (t v : Int) (g : GW) : Sched t v g g [] := by
  refine ⟨rfl, fun n => by simp, id, fun p hp => Or.inl hp, fun k => ?_, rfl⟩
  cases aget k g.sensors <;> simp

theorem scheduleNode_unknown (t v : Int) (g : GW) (nid : Int) (h : aget nid g.sensors = none) :
    scheduleNode t v g nid = g := by simp [scheduleNode, h]

theorem sched_one (t v : Int) (g : GW) (nid : Int) : Sched t v g (scheduleNode t v g nid) [nid] := by
  cases hk : aget nid g.sensors with
  | none =>
    rw [scheduleNode_unknown t v g nid hk]
    refine ⟨rfl, fun n => ?_, id, fun p hp => Or.inl hp, fun k => ?_, rfl⟩
    · by_cases hn : n = nid
      · subst hn; simp [knownNode, hk]
      · simp [hn]
    · by_cases hn : k = nid
      · subst hn; simp [hk]
      · cases aget k g.sensors <;> simp [hn]
  | some nd =>
    have e : scheduleNode t v g nid = setNode { g with ota := { g.ota with unstarted := aerase nid g.ota.unstarted, started := aerase nid g.ota.started, requested := aset nid (t, v) g.ota.requested } } nid { nd with reboot := true } := by
      simp [scheduleNode, hk]
    rw [e]
    refine ⟨rfl, fun n => ?_, fun hok => ⟨nodup_aset _ _ _ hok.ndReq, nodup_aerase _ _ hok.ndUnst, nodup_aerase _ _ hok.ndSt, ?_, ?_, ?_⟩, ?_, fun k => ?_, rfl⟩
    · by_cases hn : n = nid
      · subst hn
        simp only [List.mem_singleton, knownNode, hk, Option.isSome_some, and_self, ↓reduceIte]
        exact abs_requested (by simp [setNode])
      · simp only [List.mem_singleton, hn, false_and, ↓reduceIte]
        exact abs_congr (by simp [setNode, aget_aset_ne _ _ _ _ hn]) (by simp [setNode, aget_aerase_ne _ _ _ hn])
          (by simp [setNode, aget_aerase_ne _ _ _ hn])
    · intro n hs
      by_cases hn : n = nid
      · subst hn; simp [setNode, aget_aerase_same _ _ hok.ndUnst]
      · simp only [setNode, aget_aset_ne _ _ _ _ hn] at hs
        simp only [setNode, aget_aerase_ne _ _ _ hn]; exact hok.reqUnst n hs
    · intro n hs
      by_cases hn : n = nid
      · subst hn; simp [setNode, aget_aerase_same _ _ hok.ndSt]
      · simp only [setNode, aget_aset_ne _ _ _ _ hn] at hs
        simp only [setNode, aget_aerase_ne _ _ _ hn]; exact hok.reqSt n hs
    · intro n hs
      by_cases hn : n = nid
      · subst hn; simp [setNode, aget_aerase_same _ _ hok.ndSt]
      · simp only [setNode, aget_aerase_ne _ _ _ hn] at hs ⊢; exact hok.unstSt n hs
    · intro p hp
      simp only [setNode] at hp
      rcases hp with hp | hp | hp
      · rcases mem_aset _ _ _ p hp with hp | hp
        · exact Or.inl (Or.inl hp)
        · subst hp; exact Or.inr rfl
      · exact Or.inl (Or.inr (Or.inl (mem_aerase _ _ p hp)))
      · exact Or.inl (Or.inr (Or.inr (mem_aerase _ _ p hp)))
    · by_cases hn : k = nid
      · subst hn; simp [setNode, hk]
      · simp only [setNode, aget_aset_ne _ _ _ _ hn, List.mem_singleton, hn, decide_false, Bool.or_false]
        cases aget k g.sensors <;> simp

theorem Sched.known {t v : Int} {g g' : GW} {nids : List Int} (h : Sched t v g g' nids) (k : Int) :
    knownNode g' k = knownNode g k := by
  simp [knownNode, h.nodes k]

theorem Sched.cons {t v : Int} {g g1 g2 : GW} {x : Int} {xs : List Int}
    (h1 : Sched t v g g1 [x]) (h2 : Sched t v g1 g2 xs) : Sched t v g g2 (x :: xs) := by
  refine ⟨h2.fw.trans h1.fw, fun n => ?_, fun hok => h2.ok (h1.ok hok), fun p hp => ?_, fun k => ?_, ?_⟩
  · rw [h2.session n, h1.session n, h1.known n]
    by_cases hx : n = x <;> by_cases hxs : n ∈ xs <;> by_cases hk : knownNode g n = true <;> simp [hx, hxs, hk]
    all_goals (subst hx; simp [hk])
  · rcases h2.mem p hp with hp | hp
    · exact h1.mem p hp
    · exact Or.inr hp
  · rw [h2.nodes k, h1.nodes k]
    cases aget k g.sensors with
    | none => rfl
    | some n =>
      simp [Bool.or_assoc]
  · have f1 := h1.frame
    have f2 := h2.frame
    rw [← f1, ← f2]

theorem sched_foldl (t v : Int) (nids : List Int) (g : GW) :
    Sched t v g (nids.foldl (scheduleNode t v) g) nids := by
  induction nids generalizing g with
  | nil => exact sched_nil t v g
  | cons x xs ih => exact (sched_one t v g x).cons (ih _)

theorem lookup_append_none {κ} [DecidableEq κ] (k : κ) (v : ν) (l : List (κ × ν)) (h : lookup k l = none) :
    lookup k (l ++ [(k, v)]) = some v := by
  induction l with
  | nil => simp [lookup]
  | cons p l ih =>
    obtain ⟨k', v'⟩ := p
    by_cases h1 : k = k'
    · subst h1; simp [lookup] at h
    · simp only [lookup, h1, ↓reduceIte] at h
      simp [lookup, h1, ih h]

theorem lookup_map_replace (key : Int × Int) (fw : Fw) (l : FwTable) (h : (lookup key l).isSome) :
    lookup key (l.map fun kv => if kv.1 = key then (kv.1, fw) else kv) = some fw := by
  induction l with
  | nil => simp [lookup] at h
  | cons p l ih =>
    obtain ⟨k', v'⟩ := p
    by_cases h1 : key = k'
    · subst h1; simp [lookup]
    · have h2 : ¬ k' = key := fun e => h1 e.symm
      simp only [lookup, h1, ↓reduceIte] at h
      simp [lookup, h1, h2, ih h]

theorem lookup_storeFirmware_same (fws : FwTable) (key : Int × Int) (fw : Fw) :
    lookup key (storeFirmware fws key fw) = some fw := by
  unfold storeFirmware
  cases h : lookup key fws with
  | none => exact lookup_append_none key fw fws h
  | some x => exact lookup_map_replace key fw fws (by rw [h]; rfl)

theorem mem_storeFirmware (fws : FwTable) (key : Int × Int) (fw : Fw) :
    ∀ kv ∈ storeFirmware fws key fw, kv ∈ fws ∨ kv.2 = fw := by
  intro kv hkv
  unfold storeFirmware at hkv
  cases h : lookup key fws with
  | none =>
    simp only [h, List.mem_append, List.mem_singleton] at hkv
    rcases hkv with hkv | hkv
    · exact Or.inl hkv
    · subst hkv; exact Or.inr rfl
  | some x =>
    simp only [h, List.mem_map] at hkv
    obtain ⟨a, ha, e⟩ := hkv
    by_cases h1 : a.1 = key
    · simp [h1] at e; subst e; exact Or.inr rfl
    · simp [h1] at e; subst e; exact Or.inl ha

/-- the gateway after the image of an update call (if any) was stored -/
def loadImage (g : GW) (t v : Int) : Option (List Nat) → GW
  | some img => { g with ota := { g.ota with firmware := storeFirmware g.ota.firmware (t, v) (prepareFw img) } }
  | none => g

theorem makeUpdate_rejected (g : GW) (nids : List Int) (t v : Int) (image : Option (List Nat))
    (h : updateAccepted g t v image = false) : makeUpdate g nids t v image = g := by
  unfold makeUpdate
  by_cases hr : 0 ≤ t ∧ t ≤ 0xFFFF ∧ 0 ≤ v ∧ v ≤ 0xFFFF
  · rw [if_neg (not_not_intro hr)]
    have hd : decide (0 ≤ t ∧ t ≤ 0xFFFF ∧ 0 ≤ v ∧ v ≤ 0xFFFF) = true := decide_eq_true hr
    rw [updateAccepted, hd, Bool.true_and] at h
    cases image with
    | some img =>
      simp only [imageAccepted, decide_eq_false_iff_not] at h
      have : (prepareFw img).blocks > 0xFFFF := by omega
      simp only [this, ↓reduceIte]
    | none =>
      simp only [imageAccepted] at h
      have hn : (lookup (t, v) g.ota.firmware).isNone = true := by
        cases hl : lookup (t, v) g.ota.firmware <;> simp [hl] at h ⊢
      simp only [hn, ↓reduceIte]
  · rw [if_pos hr]

theorem makeUpdate_accepted (g : GW) (nids : List Int) (t v : Int) (image : Option (List Nat))
    (h : updateAccepted g t v image = true) :
    makeUpdate g nids t v image = nids.foldl (scheduleNode t v) (loadImage g t v image) := by
  unfold makeUpdate
  simp only [updateAccepted, Bool.and_eq_true, decide_eq_true_eq] at h
  obtain ⟨hr, hi⟩ := h
  rw [if_neg (not_not_intro hr)]
  cases image with
  | some img =>
    simp only [imageAccepted, decide_eq_true_eq] at hi
    have : ¬ (prepareFw img).blocks > 0xFFFF := by omega
    simp only [this, ↓reduceIte, loadImage]
  | none =>
    simp only [imageAccepted] at hi
    have : (lookup (t, v) g.ota.firmware).isNone = false := by
      cases hl : lookup (t, v) g.ota.firmware <;> simp [hl] at hi ⊢
    simp [this, loadImage]

/-- after an accepted update call firmware for `(t, v)` is available -/
theorem loadImage_available (g : GW) (t v : Int) (image : Option (List Nat))
    (h : updateAccepted g t v image = true) : (lookup (t, v) (loadImage g t v image).ota.firmware).isSome := by
  simp only [updateAccepted, Bool.and_eq_true] at h
  cases image with
  | some img => simp [loadImage, lookup_storeFirmware_same]
  | none => simpa [loadImage, imageAccepted] using h.2

theorem loadImage_stores (g : GW) (t v : Int) (image : Option (List Nat)) :
    (loadImage g t v image).ota.requested = g.ota.requested ∧ (loadImage g t v image).ota.unstarted = g.ota.unstarted ∧
    (loadImage g t v image).ota.started = g.ota.started ∧ (loadImage g t v image).sensors = g.sensors ∧
    (loadImage g t v image).const = g.const := by
  cases image <;> exact ⟨rfl, rfl, rfl, rfl, rfl⟩

theorem loadImage_abs (g : GW) (t v : Int) (image : Option (List Nat)) (n : Int) :
    absSession (loadImage g t v image).ota n = absSession g.ota n := by
  obtain ⟨a, b, c, _⟩ := loadImage_stores g t v image
  exact abs_congr (by rw [a]) (by rw [b]) (by rw [c])

theorem loadImage_ok (g : GW) (t v : Int) (image : Option (List Nat)) (h : StoresOk g.ota) :
    StoresOk (loadImage g t v image).ota := by
  cases image with
  | none => exact h
  | some img => exact ⟨h.ndReq, h.ndUnst, h.ndSt, h.reqUnst, h.reqSt, h.unstSt⟩

theorem loadImage_ranges (g : GW) (t v : Int) (image : Option (List Nat)) (h : RangesOk g.ota)
    (ha : updateAccepted g t v image = true) (hb : imageIsBytes image) : RangesOk (loadImage g t v image).ota := by
  cases image with
  | none => exact h
  | some img =>
    refine ⟨h.fids, ?_⟩
    intro kv hkv
    rcases mem_storeFirmware _ _ _ kv hkv with hkv | hkv
    · exact h.fws kv hkv
    · rw [hkv]
      simp only [updateAccepted, imageAccepted, Bool.and_eq_true, decide_eq_true_eq] at ha
      refine ⟨by omega, ?_⟩
      rw [prepareFw_crc]
      exact crcModbus_lt _ (prepareFw_isBytes img hb)

/-- **the update call against the automaton**: sessions, firmware, invariants, reboot flags -/
structure UpdateSpec (g g' : GW) (nids : List Int) (t v : Int) (image : Option (List Nat)) : Prop where
  session : ∀ n, absSession g'.ota n =
    specUpdate (updateAccepted g t v image) (decide (n ∈ nids)) (knownNode g n) t v (absSession g.ota n)
  available : updateAccepted g t v image = true → (lookup (t, v) g'.ota.firmware).isSome
  ok : StoresOk g.ota → StoresOk g'.ota
  ranges : RangesOk g.ota → imageIsBytes image → RangesOk g'.ota
  nodes : ∀ k, aget k g'.sensors = (aget k g.sensors).map fun n =>
    { n with reboot := n.reboot || (updateAccepted g t v image && decide (k ∈ nids)) }
  const : g'.const = g.const

theorem makeUpdate_spec (g : GW) (nids : List Int) (t v : Int) (image : Option (List Nat)) :
    UpdateSpec g (makeUpdate g nids t v image) nids t v image := by
  cases ha : updateAccepted g t v image with
  | false =>
    rw [makeUpdate_rejected g nids t v image ha]
    refine ⟨fun n => by simp [specUpdate, ha], fun h => (by rw [ha] at h; cases h), id, fun h _ => h, fun k => ?_, rfl⟩
    cases aget k g.sensors <;> simp [ha]
  | true =>
    rw [makeUpdate_accepted g nids t v image ha]
    obtain ⟨s1, s2, s3, s4, s5⟩ := loadImage_stores g t v image
    have hs := sched_foldl t v nids (loadImage g t v image)
    refine ⟨fun n => ?_, fun _ => ?_, fun hok => hs.ok (loadImage_ok g t v image hok), fun hr hb => ?_, fun k => ?_, ?_⟩
    · rw [hs.session n, loadImage_abs]
      simp [specUpdate, knownNode, s4, ha]
    · rw [hs.fw]; exact loadImage_available g t v image ha
    · have hr' := loadImage_ranges g t v image hr ha hb
      refine ⟨fun p hp => ?_, by rw [hs.fw]; exact hr'.fws⟩
      rcases hs.mem p hp with hp | hp
      · exact hr'.fids p hp
      · rw [hp]
        simp only [updateAccepted, Bool.and_eq_true, decide_eq_true_eq] at ha
        exact ha.1
    · rw [hs.nodes k, s4]; simp [ha]
    · have := congrArg GW.const hs.frame
      simp only at this
      rw [this, s5]

/-! ### the session part of the refinement needs neither a decoded request nor the range invariant -/

structure RefinesS (g : GW) (m : Msg) (r : StreamRes) (s' : Session) : Prop where
  session : absSession r.g.ota m.node = s'
  others : ∀ n, n ≠ m.node → absSession r.g.ota n = absSession g.ota n
  fw : r.g.ota.firmware = g.ota.firmware
  frame : { r.g with ota := g.ota } = g
  ok : StoresOk r.g.ota
  mem : ∀ p, p ∈ r.g.ota.requested ∨ p ∈ r.g.ota.unstarted ∨ p ∈ r.g.ota.started →
    p ∈ g.ota.requested ∨ p ∈ g.ota.unstarted ∨ p ∈ g.ota.started

theorem Refines.toS {g : GW} {m : Msg} {r : StreamRes} {sp : Session × Option Msg} (h : Refines g m r sp)
    (hm : ∀ p, p ∈ r.g.ota.requested ∨ p ∈ r.g.ota.unstarted ∨ p ∈ r.g.ota.started →
      p ∈ g.ota.requested ∨ p ∈ g.ota.unstarted ∨ p ∈ g.ota.started) : RefinesS g m r sp.1 :=
  ⟨h.session, h.others, h.fw, h.frame, h.ok, hm⟩

theorem config_pick_g (g : GW) (m : Msg) (ws : List Nat) (fid : Int × Int) (o' : OtaState)
    (hw : fwHexToInt m.payload 5 = some ws) (hp : pickConfig g.ota m.node = some (fid, o')) :
    (otaConfigResponse g m).g = { g with ota := o' } := by
  unfold otaConfigResponse
  simp only [hw, hp]
  split
  · rw [configReply_g]
  · rfl

theorem block_pick_g (g : GW) (m : Msg) (rt rv blk : Nat) (o' : OtaState)
    (hw : fwHexToInt m.payload 3 = some [rt, rv, blk]) (hp : pickBlock g.ota m.node = some o') :
    (otaBlockResponse g m).g = { g with ota := o' } := by
  unfold otaBlockResponse
  simp only [hw, hp]
  split
  · rw [blockReply_g]
  · rfl

theorem refinesS_same (g : GW) (m : Msg) (r : StreamRes) (hg : r.g = g) (hok : StoresOk g.ota) :
    RefinesS g m r (absSession g.ota m.node) := by
  refine ⟨?_, ?_, ?_, ?_, ?_, ?_⟩ <;> rw [hg]
  · intro _ _; rfl
  · exact hok
  · intro _ h; exact h

theorem refinesS_noop (g : GW) (m : Msg) (hok : StoresOk g.ota) :
    RefinesS g m { g := g } (absSession g.ota m.node) := refinesS_same g m _ rfl hok

theorem refinesS_of_migrates (g : GW) (m : Msg) (r : StreamRes) (o' : OtaState) (s' : Session)
    (hg : r.g = { g with ota := o' }) (hm : Migrates g.ota o' m.node s') : RefinesS g m r s' := by
  refine ⟨?_, ?_, ?_, ?_, ?_, ?_⟩
  · rw [hg]; exact hm.self
  · rw [hg]; exact hm.others
  · rw [hg]; exact hm.fw
  · rw [hg]
  · rw [hg]; exact hm.ok
  · rw [hg]; exact hm.mem

theorem refinesS_config (g : GW) (m : Msg) (hok : StoresOk g.ota) :
    RefinesS g m (otaConfigResponse g m)
      (if (fwHexToInt m.payload 5).isSome then (specConfig [] 0 m (absSession g.ota m.node)).1 else absSession g.ota m.node) := by
  cases hw : fwHexToInt m.payload 5 with
  | none => rw [config_malformed g m hw]; exact refinesS_noop g m hok
  | some ws =>
    simp only [Option.isSome_some, ↓reduceIte]
    cases ha : absSession g.ota m.node with
    | requested fid =>
      have h := abs_requested_inv ha
      exact refinesS_of_migrates g m _ _ _ (config_pick_g g m ws fid _ hw (pickConfig_requested h)) (migrates_moveReqUnst hok h)
    | offered fid =>
      obtain ⟨h1, h2⟩ := abs_offered_inv ha
      exact refinesS_of_migrates g m _ _ _ (config_pick_g g m ws fid _ hw (pickConfig_unstarted h1 h2)) (migrates_touchUnst hok h1 h2)
    | fetching fid =>
      obtain ⟨h1, h2, _⟩ := abs_fetching_inv ha
      rw [config_nopick g m (pickConfig_none h1 h2)]
      have := refinesS_noop g m hok
      rw [ha] at this; exact this
    | idle =>
      obtain ⟨h1, h2, _⟩ := abs_idle_inv ha
      rw [config_nopick g m (pickConfig_none h1 h2)]
      have := refinesS_noop g m hok
      rw [ha] at this; exact this

theorem block_not_three (g : GW) (m : Msg) (h : ¬ ∃ rt rv blk, fwHexToInt m.payload 3 = some [rt, rv, blk]) :
    otaBlockResponse g m = { g := g } := by
  cases hw : fwHexToInt m.payload 3 with
  | none => exact block_malformed g m hw
  | some ws =>
    obtain ⟨rt, rv, blk, e⟩ := fwHexToInt_three _ _ hw
    exact absurd ⟨rt, rv, blk, by rw [hw, e]⟩ h

theorem refinesS_block (g : GW) (m : Msg) (hok : StoresOk g.ota) :
    RefinesS g m (otaBlockResponse g m)
      (if (fwHexToInt m.payload 3).isSome then (specBlock [] 0 m 0 0 0 (absSession g.ota m.node)).1 else absSession g.ota m.node) := by
  cases hw : fwHexToInt m.payload 3 with
  | none => rw [block_malformed g m hw]; exact refinesS_noop g m hok
  | some ws =>
    obtain ⟨rt, rv, blk, e⟩ := fwHexToInt_three _ _ hw
    subst e
    simp only [Option.isSome_some, ↓reduceIte]
    cases ha : absSession g.ota m.node with
    | requested fid =>
      have h := abs_requested_inv ha
      have hsome := isSome_of_eq_some h
      rw [block_nopick g m (pickBlock_none (hok.reqUnst _ hsome) (hok.reqSt _ hsome))]
      have := refinesS_noop g m hok
      rw [ha] at this; exact this
    | offered fid =>
      obtain ⟨_, h2⟩ := abs_offered_inv ha
      exact refinesS_of_migrates g m _ _ _ (block_pick_g g m rt rv blk _ hw (pickBlock_unstarted h2)) (migrates_moveUnstSt hok h2)
    | fetching fid =>
      obtain ⟨_, h2, h3⟩ := abs_fetching_inv ha
      exact refinesS_of_migrates g m _ _ _ (block_pick_g g m rt rv blk _ hw (pickBlock_started h2 h3)) (migrates_touchSt hok h2 h3)
    | idle =>
      obtain ⟨_, h2, h3⟩ := abs_idle_inv ha
      rw [block_nopick g m (pickBlock_none h2 h3)]
      have := refinesS_noop g m hok
      rw [ha] at this; exact this

theorem RefinesS.ranges {g : GW} {m : Msg} {r : StreamRes} {s' : Session} (h : RefinesS g m r s')
    (hr : RangesOk g.ota) : RangesOk r.g.ota :=
  ⟨fun p hp => hr.fids p (h.mem p hp), by rw [h.fw]; exact hr.fws⟩

/-- every stream responder: the session of the requesting node moves as the automaton says
    (never out of `idle`), other nodes and the firmware table are untouched, invariants hold -/
theorem streamResBy_sessions (h : HandlerId) (g : GW) (m : Msg) (hok : StoresOk g.ota) :
    ∃ s', RefinesS g m (streamResBy h g m) s' ∧ (absSession g.ota m.node = .idle → s' = .idle) := by
  unfold streamResBy
  split
  · refine ⟨_, refinesS_config g m hok, ?_⟩
    intro hi; rw [hi]; split <;> rfl
  · refine ⟨_, refinesS_block g m hok, ?_⟩
    intro hi; rw [hi]; split <;> rfl
  · exact ⟨_, refinesS_same g m _ rfl hok, id⟩

end MySensors.C10
