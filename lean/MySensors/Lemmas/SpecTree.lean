/-
  Commuting lemmas between the gateway model and the tree specification (C04): what every
  combinator and every handler does to the persisted projection and to the callback list.
-/
import MySensors.Lemmas.GwHist
import MySensors.Model.SpecTree

namespace MySensors

/-! ### the abstraction function on association lists -/

def pmap (l : List (Int × Node)) : Tree := l.map fun (k, n) => (k, n.persisted)

theorem persisted_eq (g : GW) : g.persisted = pmap g.sensors := rfl

@[simp] theorem pmap_nil : pmap [] = [] := rfl
@[simp] theorem pmap_cons (k : Int) (n : Node) (l : List (Int × Node)) :
    pmap ((k, n) :: l) = (k, n.persisted) :: pmap l := rfl

theorem pmap_append (l l' : List (Int × Node)) : pmap (l ++ l') = pmap l ++ pmap l' := by
  simp [pmap]

theorem aget_pmap (k : Int) (l : List (Int × Node)) : aget k (pmap l) = (aget k l).map Node.persisted := by
  induction l with
  | nil => rfl
  | cons p l ih =>
    obtain ⟨k', v'⟩ := p
    by_cases h : k = k' <;> simp [aget, h, ih]

theorem pmap_aset (k : Int) (n : Node) (l : List (Int × Node)) :
    pmap (aset k n l) = aset k n.persisted (pmap l) := by
  induction l with
  | nil => rfl
  | cons p l ih =>
    obtain ⟨k', v'⟩ := p
    by_cases h : k = k' <;> simp [aset, h, ih]

theorem akeys_pmap (l : List (Int × Node)) : akeys (pmap l) = akeys l := by
  simp [akeys, pmap, List.map_map, Function.comp_def]

theorem aset_self {ν} (k : Int) (v : ν) (l : List (Int × ν)) (h : aget k l = some v) : aset k v l = l := by
  induction l with
  | nil => simp [aget] at h
  | cons p l ih =>
    obtain ⟨k', v'⟩ := p
    by_cases h1 : k = k'
    · subst h1; simp [aget] at h; simp [aset, h]
    · simp [aget, h1] at h; simp [aset, h1, ih h]

theorem aget_persisted (g : GW) (k : Int) : aget k g.persisted = (aget k g.sensors).map Node.persisted :=
  aget_pmap k g.sensors

theorem persisted_setNode_eq (g : GW) (k : Int) (n : Node) :
    (setNode g k n).persisted = aset k n.persisted g.persisted := pmap_aset k n g.sensors

theorem fresh_persisted (id : Int) : ({ id := id } : Node).persisted = freshPNode id := rfl

theorem persisted_addSensor (g : GW) (id : Int) : (addSensor g id).persisted = addNode g.persisted id := by
  unfold addSensor addNode
  rw [aget_persisted]
  cases h : aget id g.sensors with
  | some n => rfl
  | none => simp only [Option.map_none, persisted_eq, pmap_append]; rfl

theorem isKnown_node (g : GW) (k : Int) : isKnown g k none = knownNode g.persisted k := by
  unfold isKnown knownNode
  rw [aget_persisted]
  cases aget k g.sensors <;> rfl

theorem isKnown_child (g : GW) (k c : Int) : isKnown g k (some c) = knownChild g.persisted k c := by
  unfold isKnown knownChild
  rw [aget_persisted]
  cases aget k g.sensors <;> rfl

theorem updNode_unknown (t : Tree) (k : Int) (f : PNode → PNode) (h : knownNode t k = false) :
    updNode t k f = t := by
  unfold knownNode at h
  unfold updNode
  cases h1 : aget k t with
  | none => rfl
  | some p => simp [h1] at h

/-! ### observations: the tree and the callbacks of a result -/

def obs (r : Res) : Tree × List Msg := (r.1.persisted, r.2.cbs)

/-- a computation that neither touches the tree nor calls back -/
def Silent (f : GW → Res) : Prop := ∀ g, obs (f g) = (g.persisted, [])

theorem obs_ret (g : GW) : obs (ret g) = (g.persisted, []) := rfl
theorem obs_emit (g : GW) (l : List Str) : obs (emit g l) = (g.persisted, []) := rfl
theorem obs_fail (g : GW) (e : Exc) : obs (fail g e) = (g.persisted, []) := rfl
theorem obs_alert (g : GW) (m : Msg) : obs (alert g m) = (g.persisted, [m]) := rfl

theorem cbs_append (a b : Out) : (a ++ b).cbs = a.cbs ++ b.cbs := rfl
theorem exc_append (a b : Out) : (a ++ b).exc = a.exc.or b.exc := rfl

theorem persisted_enqueue (g : GW) (node : Int) (line : Str) : (enqueue g node line).persisted = g.persisted := by
  unfold enqueue
  split
  · rfl
  · rename_i n hn; exact persisted_setNode g node n _ hn rfl

theorem obs_route (g : GW) (m : Msg) : obs (route g m) = (g.persisted, []) := by
  unfold route
  split
  · rfl
  · split
    · simp only [obs, ret, persisted_enqueue]
    · rfl

theorem obs_requestPresentation (g : GW) (node : Int) : obs (requestPresentation g node) = (g.persisted, []) := by
  unfold requestPresentation
  split
  · split
    · rfl
    · exact obs_route g _
  · rfl

theorem obs_replyCopy (g : GW) (m : Msg) (kw : Kw) : obs (replyCopy g m kw) = (g.persisted, []) := by
  unfold replyCopy
  split
  · rfl
  · exact obs_route g _

theorem obs_withConst (g : GW) (o : Option Int) (f : Int → Res) (h : ∀ a, obs (f a) = (g.persisted, [])) :
    obs (withConst g o f) = (g.persisted, []) := by
  unfold withConst
  split
  · rfl
  · exact h _

theorem obs_rebootReply (g : GW) (m : Msg) (b : Bool) : obs (rebootReply g m b) = (g.persisted, []) := by
  unfold rebootReply
  split
  · exact obs_withConst g _ _ fun a => obs_replyCopy g m _
  · rfl

theorem obs_smartSleep (g : GW) (node : Int) : obs (smartSleep g node) = (g.persisted, []) := by
  unfold smartSleep withNode
  split
  · rfl
  · rename_i n hn
    have := persisted_setNode g node n { initSleep n with queue := [] } hn rfl
    simp only [obs, Prod.mk.injEq, and_true]
    exact this

theorem obs_seq_silent (r : Res) (f : GW → Res) (hf : Silent f) : obs (seq r f) = obs r := by
  unfold seq
  split
  · rfl
  · have := hf r.1
    simp only [obs, cbs_append, Prod.mk.injEq] at this ⊢
    rw [this.1, this.2]; simp

theorem obs_seq_first (r : Res) (f : GW → Res) (hx : (seq r f).2.exc = none) (hc : r.2.cbs = []) :
    obs (seq r f) = obs (f r.1) ∧ (f r.1).2.exc = none ∧ r.2.exc = none := by
  unfold seq at hx ⊢
  split
  · rename_i e he
    simp only [he] at hx
    cases hx
  · rename_i he
    simp only [he, exc_append, Option.or] at hx
    refine ⟨?_, hx, he⟩
    simp only [obs, cbs_append, hc, List.nil_append]

theorem obs_ifKnown_node (g : GW) (k : Int) (f : GW → Res) :
    obs (ifKnown g k none f) = if knownNode g.persisted k then obs (f g) else (g.persisted, []) := by
  unfold ifKnown
  rw [isKnown_node]
  split
  · rfl
  · exact obs_requestPresentation g k

theorem obs_ifKnown_child (g : GW) (k c : Int) (f : GW → Res) :
    obs (ifKnown g k (some c) f) = if knownChild g.persisted k c then obs (f g) else (g.persisted, []) := by
  unfold ifKnown
  rw [isKnown_child]
  split
  · rfl
  · exact obs_requestPresentation g k

/-- the common handler shape: change the stored node in place, then alert -/
theorem obs_update (g : GW) (k : Int) (m : Msg) (F : Node → Node) (f : PNode → PNode)
    (hF : ∀ n, (F n).persisted = f n.persisted) :
    obs (withNode g k fun n => alert (setNode g k (F n)) m) =
      (updNode g.persisted k f, if knownNode g.persisted k then [m] else []) := by
  unfold withNode updNode knownNode
  rw [aget_persisted]
  cases h : aget k g.sensors with
  | none => rfl
  | some n =>
    simp only [Option.map_some, Option.isSome_some, ↓reduceIte, obs]
    show ((setNode g k (F n)).persisted, [m]) = _
    rw [persisted_setNode_eq, hF]

theorem obs_knownUpdate (g : GW) (k : Int) (m : Msg) (F : Node → Node) (f : PNode → PNode)
    (hF : ∀ n, (F n).persisted = f n.persisted) :
    obs (ifKnown g k none fun g1 => withNode g1 k fun n => alert (setNode g1 k (F n)) m) =
      (updNode g.persisted k f, if knownNode g.persisted k then [m] else []) := by
  rw [obs_ifKnown_node, obs_update g k m F f hF]
  by_cases h : knownNode g.persisted k = true
  · simp [h]
  · simp only [h]
    simp only [Bool.not_eq_true] at h
    rw [updNode_unknown _ _ _ h]; rfl

/-! ### one commuting lemma per handler -/

/-- tree and callbacks prescribed for a message of a given meaning -/
def obsBy (mg : Meaning) (t : Tree) (m : Msg) : Tree × List Msg :=
  (specBy mg t m, if notifiesBy mg t m then [m] else [])

theorem knownNode_addNode (t : Tree) (id : Int) : knownNode (addNode t id) id = true := by
  unfold knownNode addNode
  cases h : aget id t with
  | some p => simp [h]
  | none => simp [aget_append_not_mem, h]

theorem obs_presentNode (g : GW) (m : Msg) : obs (presentNode g m) = obsBy .presentNode g.persisted m := by
  unfold presentNode
  rw [obs_update (addSensor g m.node) m.node m
    (fun n => { n with type := some m.sub, version := (safeVersion m.payload).getD defaultVersion, reboot := false })
    (fun p => { p with type := some m.sub, version := reportedVersion m.payload }) (fun n => rfl)]
  rw [persisted_addSensor, knownNode_addNode]
  rfl

theorem obs_presentChild (g : GW) (m : Msg) : obs (presentChild g m) = obsBy .presentChild g.persisted m := by
  unfold presentChild
  rw [obs_ifKnown_node]
  unfold obsBy specBy notifiesBy updNode knownNode knownChild withNode
  rw [aget_persisted]
  cases h : aget m.node g.sensors with
  | none => rfl
  | some n =>
    simp only [Option.map_some, Option.isSome_some, ↓reduceIte, Bool.true_and]
    have hc : n.persisted.children = n.children := rfl
    unfold addChild
    rw [hc]
    cases h2 : aget m.child n.children with
    | some ch =>
      simp only [Option.isSome_some, Bool.not_true, Bool.false_eq_true, ↓reduceIte]
      rw [aset_self m.node n.persisted g.persisted (by rw [aget_persisted, h]; rfl)]
      rfl
    | none =>
      simp only [Option.isSome_none, Bool.not_false, ↓reduceIte, obs]
      show ((setNode g m.node _).persisted, [m]) = _
      rw [persisted_setNode_eq]
      rfl

theorem persisted_clearDesired (n : Node) (c vt : Int) : (clearDesired n c vt).persisted = n.persisted := by
  unfold clearDesired; split <;> rfl

theorem persisted_updateChildValue (n : Node) (m : Msg) :
    (updateChildValue n m.child m.sub m.payload).persisted = storeValue n.persisted m := by
  unfold updateChildValue storeValue
  have hc : n.persisted.children = n.children := rfl
  rw [hc]
  cases h : aget m.child n.children with
  | none => rfl
  | some ch => simp only [persisted_clearDesired]; rfl

theorem silent_rebootReply (m : Msg) (b : Bool) : Silent fun g => rebootReply g m b :=
  fun g => obs_rebootReply g m b

theorem obs_handleSet (g : GW) (m : Msg) : obs (handleSet g m) = obsBy .setValue g.persisted m := by
  unfold handleSet
  rw [obs_ifKnown_child]
  unfold obsBy specBy notifiesBy updNode knownChild withNode
  rw [aget_persisted]
  cases h : aget m.node g.sensors with
  | none => rfl
  | some n =>
    have hc : n.persisted.children = n.children := rfl
    simp only [Option.map_some, hc]
    cases h2 : aget m.child n.children with
    | none =>
      simp only [Option.isSome_none, Bool.false_eq_true, ↓reduceIte]
      have : storeValue n.persisted m = n.persisted := by
        unfold storeValue; simp only [hc, h2]
      rw [this, aset_self m.node n.persisted g.persisted (by rw [aget_persisted, h]; rfl)]
    | some ch =>
      simp only [Option.isSome_some, ↓reduceIte]
      rw [obs_seq_silent _ _ (silent_rebootReply m n.reboot)]
      show ((setNode g m.node _).persisted, [m]) = _
      rw [persisted_setNode_eq, persisted_updateChildValue]

theorem obs_handleReq (g : GW) (m : Msg) : obs (handleReq g m) = (g.persisted, []) := by
  unfold handleReq
  rw [obs_ifKnown_child]
  split
  · unfold withNode
    split
    · rfl
    · dsimp only
      split
      · rfl
      · exact obs_replyCopy g m _
  · rfl

theorem maxNodeId_eq (c : ConstId) : (Tables.tables c).maxNodeId = 254 := by
  cases c <;> decide

theorem nextCandidate_eq (g : GW) : nextCandidate g = specNextId g.persisted := by
  unfold nextCandidate specNextId
  rw [persisted_eq, akeys_pmap]
  cases akeys g.sensors <;> rfl

theorem aget_specNextId (t : Tree) : aget (specNextId t) t = none := by
  rw [aget_none_iff_not_mem_keys]
  unfold specNextId
  cases hks : akeys t with
  | nil => simp
  | cons k ks =>
    simp only
    have hm := foldl_max_ge ks k
    intro hmem
    simp only [List.mem_cons] at hmem
    rcases hmem with e | hmem
    · omega
    · have := hm.2 _ hmem; omega

theorem obs_handleIdRequest (g : GW) (m : Msg) : obs (handleIdRequest g m) = obsBy .idRequest g.persisted m := by
  unfold handleIdRequest nextId obsBy specBy notifiesBy specIdRequest
  rw [nextCandidate_eq, show g.t.maxNodeId = 254 from maxNodeId_eq g.const]
  by_cases hle : specNextId g.persisted ≤ 254
  · simp only [hle, ↓reduceIte]
    rw [obs_withConst _ _ _ fun a => obs_replyCopy _ m _, persisted_addSensor]
    unfold addNode
    rw [aget_specNextId]
    rfl
  · simp only [hle, ↓reduceIte]; rfl

theorem obs_handleHeartbeat (g : GW) (m : Msg) :
    obs (handleHeartbeat g m) =
      (updNode g.persisted m.node fun p => { p with heartbeat := specHeartbeat m.payload },
       if knownNode g.persisted m.node then [m] else []) := by
  unfold handleHeartbeat
  exact obs_update g m.node m (fun n => { n with heartbeat := (pyInt m.payload).getD 0 }) _ (fun n => rfl)

theorem batteryOf_eq (p : Str) : batteryOf p = specBattery p := by
  unfold batteryOf specBattery
  cases pyInt p <;> rfl

theorem ifKnown_known (g : GW) (k : Int) (c : Option Int) (f : GW → Res) (h : isKnown g k c = true) :
    ifKnown g k c f = f g := by
  unfold ifKnown; simp [h]

theorem obsBy_unknown_heartbeat (t : Tree) (m : Msg) (h : knownNode t m.node = false) :
    obsBy .heartbeat t m = (t, []) := by
  unfold obsBy specBy notifiesBy
  simp only [h, updNode_unknown _ _ _ h]
  rfl

theorem obs_heartbeat20 (g : GW) (m : Msg)
    (hx : (handleInternalBy .handle_heartbeat_response g m).2.exc = none) :
    obs (handleInternalBy .handle_heartbeat_response g m) = obsBy .heartbeat g.persisted m := by
  simp only [handleInternalBy] at hx ⊢
  by_cases hk : isKnown g m.node none = true
  · rw [ifKnown_known _ _ _ _ hk] at hx ⊢
    have hs := obs_smartSleep g m.node
    simp only [obs, Prod.mk.injEq] at hs
    obtain ⟨h1, _, _⟩ := obs_seq_first _ _ hx hs.2
    rw [h1, obs_handleHeartbeat, hs.1]
    rfl
  · rw [obs_ifKnown_node]
    rw [isKnown_node] at hk
    simp only [Bool.not_eq_true] at hk
    simp only [hk, Bool.false_eq_true, ↓reduceIte]
    exact (obsBy_unknown_heartbeat _ _ hk).symm

theorem obs_handleInternalBy (h : HandlerId) (g : GW) (m : Msg)
    (hx : h = .handle_heartbeat_response → (handleInternalBy h g m).2.exc = none) :
    obs (handleInternalBy h g m) = obsBy (internalMeaning h) g.persisted m := by
  cases h
  case handle_id_request => exact obs_handleIdRequest g m
  case handle_config => exact obs_replyCopy g m _
  case handle_time => exact obs_replyCopy g m _
  case handle_battery_level =>
    simp only [handleInternalBy, batteryOf_eq]
    exact obs_knownUpdate g m.node m (fun n => { n with battery := specBattery m.payload }) _ (fun n => rfl)
  case handle_sketch_name =>
    exact obs_knownUpdate g m.node m (fun n => { n with sketchName := some m.payload }) _ (fun n => rfl)
  case handle_sketch_version =>
    exact obs_knownUpdate g m.node m (fun n => { n with sketchVersion := some m.payload }) _ (fun n => rfl)
  case handle_log_message => rfl
  case handle_gateway_ready => rfl
  case handle_gateway_ready_20 =>
    simp only [handleInternalBy]
    rw [obs_seq_silent]
    · rfl
    · intro g1; exact obs_withConst g1 _ _ fun a => obs_replyCopy g1 m _
  case handle_heartbeat_response => exact obs_heartbeat20 g m (hx rfl)
  case handle_discover_response =>
    simp only [handleInternalBy]
    rw [obs_ifKnown_node]
    split <;> rfl
  case handle_heartbeat_response_22 =>
    simp only [handleInternalBy]
    rw [obs_ifKnown_node, obs_handleHeartbeat]
    by_cases hk : knownNode g.persisted m.node = true
    · simp only [hk, ↓reduceIte, obsBy, specBy, notifiesBy, internalMeaning]
    · simp only [Bool.not_eq_true] at hk
      simp only [hk, Bool.false_eq_true, ↓reduceIte]
      exact (obsBy_unknown_heartbeat _ _ hk).symm
  case handle_pre_sleep_notification =>
    simp only [handleInternalBy]
    rw [obs_ifKnown_node, obs_smartSleep]
    split <;> rfl
  all_goals rfl

/-! ### stream (firmware) requests: only the OTA stores change -/

theorem sensors_config (g : GW) (m : Msg) : (otaConfigResponse g m).g.sensors = g.sensors := by
  unfold otaConfigResponse
  split
  · rfl
  · split
    · rfl
    · split
      · rw [configReply_g]
      · rfl

theorem sensors_block (g : GW) (m : Msg) : (otaBlockResponse g m).g.sensors = g.sensors := by
  unfold otaBlockResponse
  split
  · split
    · rfl
    · split
      · rw [blockReply_g]
      · rfl
  · rfl

theorem persisted_streamResBy (h : HandlerId) (g : GW) (m : Msg) :
    (streamResBy h g m).g.persisted = g.persisted := by
  unfold streamResBy GW.persisted
  split
  · rw [sensors_config]
  · rw [sensors_block]
  · rfl

theorem obs_finishStream (r : StreamRes) (m : Msg) (hx : (finishStream r m).2.exc = none) :
    obs (finishStream r m) = (r.g.persisted, [m]) := by
  unfold finishStream at hx ⊢
  split
  · rename_i e he
    simp only [he, fail] at hx
    cases hx
  · rw [obs_seq_silent]
    · rfl
    · intro g3
      dsimp only
      split
      · rfl
      · exact obs_route g3 _

theorem obs_handleStream (g : GW) (m : Msg) (hx : (handleStream g m).2.exc = none) :
    obs (handleStream g m) =
      (g.persisted, if knownNode g.persisted m.node && (lookup m.sub g.t.streamHandlers).isSome then [m] else []) := by
  unfold handleStream at hx ⊢
  by_cases hk : isKnown g m.node none = true
  · rw [ifKnown_known _ _ _ _ hk] at hx ⊢
    rw [isKnown_node] at hk
    simp only [hk, Bool.true_and]
    cases hl : lookup m.sub g.t.streamHandlers with
    | none => rfl
    | some h =>
      simp only [hl] at hx ⊢
      rw [obs_finishStream _ _ hx, persisted_streamResBy]
      rfl
  · rw [obs_ifKnown_node]
    rw [isKnown_node] at hk
    simp only [Bool.not_eq_true] at hk
    simp [hk]

/-! ### dispatch -/

theorem typeHandlers_eq (c : ConstId) :
    (Tables.tables c).typeHandlers =
      [((Tables.tables c).mtPresentation, .handle_presentation), ((Tables.tables c).mtSet, .handle_set),
       ((Tables.tables c).mtReq, .handle_req), ((Tables.tables c).mtInternal, .handle_internal),
       ((Tables.tables c).mtStream, .handle_stream)] := by
  cases c <;> rfl

/-- the sub-type the TCP gateway uses as watchdog answer (I_VERSION) has no handler -/
theorem iVersion_unhandled (c : ConstId) :
    ∃ s, (Tables.tables c).iVersion = some s ∧ lookup s (Tables.tables c).internalHandlers = none := by
  cases c <;> exact ⟨_, rfl, by decide⟩

theorem dispatch_eq (g : GW) (m : Msg) :
    dispatch g m =
      if m.type = (Tables.tables g.const).mtPresentation then dispatchBy .handle_presentation g m
      else if m.type = (Tables.tables g.const).mtSet then handleSet g m
      else if m.type = (Tables.tables g.const).mtReq then handleReq g m
      else if m.type = (Tables.tables g.const).mtInternal then handleInternal g m
      else if m.type = (Tables.tables g.const).mtStream then handleStream g m
      else fail g .typeError := by
  unfold dispatch
  rw [show g.t.typeHandlers = _ from typeHandlers_eq g.const]
  simp only [lookup]
  by_cases h1 : m.type = (Tables.tables g.const).mtPresentation
  · simp only [if_pos h1]
  · by_cases h2 : m.type = (Tables.tables g.const).mtSet
    · simp only [if_neg h1, if_pos h2, dispatchBy]
    · by_cases h3 : m.type = (Tables.tables g.const).mtReq
      · simp only [if_neg h1, if_neg h2, if_pos h3, dispatchBy]
      · by_cases h4 : m.type = (Tables.tables g.const).mtInternal
        · simp only [if_neg h1, if_neg h2, if_neg h3, if_pos h4, dispatchBy]
        · by_cases h5 : m.type = (Tables.tables g.const).mtStream
          · simp only [if_neg h1, if_neg h2, if_neg h3, if_neg h4, if_pos h5, dispatchBy]
          · simp only [if_neg h1, if_neg h2, if_neg h3, if_neg h4, if_neg h5]

theorem obs_handlePresentationBy (g : GW) (m : Msg) :
    obs (dispatchBy .handle_presentation g m) =
      obsBy (if m.child = Tables.systemChildId then .presentNode else .presentChild) g.persisted m := by
  have hp : obs (handlePresentation g m) =
      obsBy (if m.child = Tables.systemChildId then .presentNode else .presentChild) g.persisted m := by
    unfold handlePresentation
    split
    · exact obs_presentNode g m
    · exact obs_presentChild g m
  simp only [dispatchBy]
  split
  · rw [← hp]
    simp only [obs, cbs_append, List.append_nil]
  · exact hp

theorem obs_handleInternal (g : GW) (m : Msg)
    (hx : lookup m.sub g.t.internalHandlers = some .handle_heartbeat_response → (handleInternal g m).2.exc = none) :
    obs (handleInternal g m) = obsBy (internalMeaningOf (lookup m.sub g.t.internalHandlers)) g.persisted m := by
  unfold handleInternal at hx ⊢
  split
  · rename_i htcp
    obtain ⟨s, hs, hl⟩ := iVersion_unhandled g.const
    have : m.sub = s := by
      have h2 : some m.sub = some s := by rw [htcp.2]; exact hs
      exact Option.some.inj h2
    rw [this]
    rw [show lookup s g.t.internalHandlers = none from hl]
    rfl
  · rename_i htcp
    simp only [htcp, ↓reduceIte] at hx
    cases hl : lookup m.sub g.t.internalHandlers with
    | none => rfl
    | some h =>
      simp only [hl] at hx ⊢
      exact obs_handleInternalBy h g m fun hh => hx (by rw [hh])

theorem obs_dispatch (g : GW) (m : Msg)
    (hx : fallibleFirst g.const m = true → (dispatch g m).2.exc = none) :
    obs (dispatch g m) = obsBy (meaning g.const m) g.persisted m := by
  rw [dispatch_eq] at hx ⊢
  unfold meaning
  by_cases h1 : m.type = (Tables.tables g.const).mtPresentation
  · simp only [if_pos h1]
    exact obs_handlePresentationBy g m
  · by_cases h2 : m.type = (Tables.tables g.const).mtSet
    · simp only [if_neg h1, if_pos h2]
      exact obs_handleSet g m
    · by_cases h3 : m.type = (Tables.tables g.const).mtReq
      · simp only [if_neg h1, if_neg h2, if_pos h3]
        exact obs_handleReq g m
      · by_cases h4 : m.type = (Tables.tables g.const).mtInternal
        · simp only [if_neg h1, if_neg h2, if_neg h3, if_pos h4] at hx ⊢
          apply obs_handleInternal g m
          intro hl
          apply hx
          simp only [fallibleFirst, h4, decide_true, Bool.true_and, Bool.or_eq_true, decide_eq_true_eq]
          exact Or.inl hl
        · by_cases h5 : m.type = (Tables.tables g.const).mtStream
          · simp only [if_neg h1, if_neg h2, if_neg h3, if_neg h4, if_pos h5] at hx ⊢
            have hf : fallibleFirst g.const m = true := by
              simp only [fallibleFirst, h5, decide_true, Bool.or_true]
            rw [obs_handleStream g m (hx hf)]
            unfold obsBy
            cases hl : lookup m.sub (Tables.tables g.const).streamHandlers with
            | none => simp [GW.t, hl, specBy, notifiesBy]
            | some h => simp [GW.t, hl, specBy, notifiesBy]
          · simp only [if_neg h1, if_neg h2, if_neg h3, if_neg h4, if_neg h5]
            rfl

/-! ### lines -/

theorem logic_accepted (g : GW) (l : Str) (m : Msg) (h : acceptedMsg g.const l = some m) :
    logic g l = dispatch g m := by
  unfold acceptedMsg at h
  unfold logic
  cases hd : decode l with
  | none => simp [hd] at h
  | some m' =>
    simp only [hd] at h ⊢
    by_cases hv : validate g.const m' = true
    · simp only [hv, ↓reduceIte, Option.some.injEq] at h ⊢
      rw [h]
    · simp [hv] at h

theorem logic_rejected (g : GW) (l : Str) (h : acceptedMsg g.const l = none) : logic g l = ret g := by
  unfold acceptedMsg at h
  unfold logic
  cases hd : decode l with
  | none => rfl
  | some m' =>
    simp only [hd] at h ⊢
    by_cases hv : validate g.const m' = true
    · simp [hv] at h
    · simp [hv]

theorem acceptedMsg_some (c : ConstId) (l : Str) (m : Msg) (hd : decode l = some m) (hv : validate c m = true) :
    acceptedMsg c l = some m := by
  unfold acceptedMsg; simp [hd, hv]

theorem acceptedMsg_none (c : ConstId) (l : Str)
    (h : decode l = none ∨ ∃ m, decode l = some m ∧ validate c m = false) : acceptedMsg c l = none := by
  unfold acceptedMsg
  rcases h with h | ⟨m, hd, hv⟩
  · simp [h]
  · simp [hd, hv]

theorem transportFilter_obs (g0 : GW) (r : Res) : obs (transportFilter g0 r) = obs r := by
  unfold transportFilter; split <;> rfl

theorem transportFilter_exc (g0 : GW) (r : Res) : (transportFilter g0 r).2.exc = r.2.exc := by
  unfold transportFilter; split <;> rfl

theorem transportFilter_ret (g : GW) : transportFilter g (ret g) = (g, {}) := by
  unfold transportFilter ret; split <;> rfl

/-- **commuting square for an accepted line** -/
theorem obs_line_accepted (g : GW) (l : Str) (m : Msg) (hacc : acceptedMsg g.const l = some m)
    (hx : fallibleFirst g.const m = true → (step g (.line l)).2.exc = none) :
    obs (step g (.line l)) = obsBy (meaning g.const m) g.persisted m := by
  simp only [step, transportFilter_exc, transportFilter_obs, logic_accepted g l m hacc] at hx ⊢
  exact obs_dispatch g m hx

theorem step_line_rejected (g : GW) (l : Str) (h : acceptedMsg g.const l = none) :
    step g (.line l) = (g, {}) := by
  simp only [step, logic_rejected g l h, transportFilter_ret]

/-! ### controller calls -/

theorem obs_storeDesired (g : GW) (node child : Int) (n : Node) (vt : Option Int) (value : Str)
    (hn : aget node g.sensors = some n) : obs (storeDesired g node child n vt value) = (g.persisted, []) := by
  unfold storeDesired
  split
  · rfl
  · split
    · rfl
    · rfl
    · simp only [obs, ret, Prod.mk.injEq, and_true]
      exact persisted_setNode g node n _ hn rfl

theorem obs_setChildValue (g : GW) (node child : Int) (vt : VT) (value : Str) (ack : Option Int) :
    obs (setChildValue g node child vt value ack) = (g.persisted, []) := by
  unfold setChildValue
  rw [obs_ifKnown_child]
  split
  · unfold withNode
    split
    · rfl
    · rename_i n hn
      dsimp only
      unfold setKnown
      split
      · rfl
      · split
        · exact obs_storeDesired g node child n _ value hn
        · rfl
  · rfl

theorem persisted_scheduleNode (fwt fwv : Int) (g : GW) (nid : Int) :
    (scheduleNode fwt fwv g nid).persisted = g.persisted := by
  unfold scheduleNode
  split
  · rfl
  · rename_i n hn
    exact persisted_setNode { g with ota := _ } nid n _ hn rfl

theorem persisted_foldl_scheduleNode (fwt fwv : Int) (nids : List Int) (g : GW) :
    (nids.foldl (scheduleNode fwt fwv) g).persisted = g.persisted := by
  induction nids generalizing g with
  | nil => rfl
  | cons x xs ih => rw [List.foldl_cons, ih, persisted_scheduleNode]

theorem persisted_makeUpdate (g : GW) (nids : List Int) (fwt fwv : Int) (image : Option (List Nat)) :
    (makeUpdate g nids fwt fwv image).persisted = g.persisted := by
  unfold makeUpdate
  split
  · rfl
  · split
    · split
      · rfl
      · rw [persisted_foldl_scheduleNode]; rfl
    · split
      · rfl
      · rw [persisted_foldl_scheduleNode]

/-- ops issued by the controller: set a value, schedule firmware, clock, metric flag -/
def Op.controller : Op → Bool
  | .setValue _ _ _ _ _ => true
  | .update _ _ _ _ => true
  | .clock _ => true
  | .metric _ => true
  | _ => false

theorem obs_step_controller (g : GW) (op : Op) (h : op.controller = true) :
    obs (step g op) = (g.persisted, []) := by
  cases op with
  | setValue n c vt v a => simp only [step, transportFilter_obs]; exact obs_setChildValue g n c vt v a
  | update nids t v img => simp only [step, obs, persisted_makeUpdate]
  | clock t => rfl
  | metric b => rfl
  | _ => simp [Op.controller] at h

/-! ### persistence ops -/

theorem persisted_save (g : GW) : (save g).persisted = g.persisted := by
  unfold GW.persisted; rw [(save_spec g).1]

theorem pmap_restore (d : Tree) : pmap (d.map fun (k, p) => (k, p.restore)) = d := by
  induction d with
  | nil => rfl
  | cons x xs ih =>
    obtain ⟨k, p⟩ := x
    simp only [List.map_cons, pmap_cons, ih]
    rfl

theorem persisted_restart (g : GW) : (restart g).persisted = if g.persist then g.disk.getD [] else [] := by
  unfold restart
  rw [persisted_eq]
  by_cases h : g.persist = true
  · simp only [h, ↓reduceIte]; exact pmap_restore _
  · simp only [h]; rfl

/-! ### histories -/

/-- did this line, if it is an accepted fallible-first message, get through without raising -/
def quietLine (g : GW) (l : Str) : Bool :=
  match acceptedMsg g.const l with
  | some m => !fallibleFirst g.const m || (step g (.line l)).2.exc.isNone
  | none => true

def quietAt (g : GW) : Op → Bool
  | .line l => quietLine g l
  | _ => true

/-- no fallible-first handler raised along the history (C01: none ever does) -/
def quiet (g : GW) : List Op → Bool
  | [] => true
  | op :: ops => quietAt g op && quiet (step g op).1 ops

/-- the callbacks fired along a history, in order -/
def callbacks (g : GW) : List Op → List Msg
  | [] => []
  | op :: ops => (step g op).2.cbs ++ callbacks (step g op).1 ops

theorem const_step (g : GW) (op : Op) (hk : KeyRange g) : (step g op).1.const = g.const := by
  by_cases hp : op.plain = true
  · exact (tr_step g op hp hk).const
  · cases op with
    | saveTick | stop => simp only [step, save]; split <;> rfl
    | restart => rfl
    | _ => simp [Op.plain] at hp

theorem disk_save (g : GW) (hc : Clean g) :
    (save g).disk = if g.persist then some g.persisted else g.disk := by
  by_cases hp : g.persist = true
  · simp only [hp, ↓reduceIte]
    by_cases hn : g.needSave = true
    · exact ((save_spec g).2.2.1 hp hn).1
    · rw [(save_spec g).2.2.2 (fun hh => hn hh.2)]
      exact hc hp (by simpa using hn)
  · simp only [hp]
    rw [(save_spec g).2.2.2 (fun hh => hp hh.1)]
    rfl

/-- one op of a history keeps model and specification in step -/
theorem refines_op (g : GW) (s : SpecState) (op : Op) (hk : KeyRange g) (hc : Clean g)
    (ht : g.persisted = s.tree) (hd : g.disk = s.disk) (hq : quietAt g op = true) :
    (step g op).1.persisted = (specOp g.const g.persist s op).tree ∧
    (step g op).1.disk = (specOp g.const g.persist s op).disk ∧
    (step g op).2.cbs = specNotifyOp g.const s op := by
  cases op with
  | line l =>
    have hdisk : (step g (.line l)).1.disk = g.disk := (tr_step g (.line l) rfl hk).disk
    simp only [specOp, specNotifyOp]
    cases hacc : acceptedMsg g.const l with
    | none =>
      rw [step_line_rejected g l hacc]
      exact ⟨ht, hd, rfl⟩
    | some m =>
      have hx : fallibleFirst g.const m = true → (step g (.line l)).2.exc = none := by
        intro hf
        simp only [quietAt, quietLine, hacc, hf, Bool.not_true, Bool.false_or] at hq
        cases he : (step g (Op.line l)).2.exc with
        | none => rfl
        | some e => rw [he] at hq; simp at hq
      have ho := obs_line_accepted g l m hacc hx
      simp only [obs, obsBy, Prod.mk.injEq] at ho
      refine ⟨?_, ?_, ?_⟩
      · rw [ho.1, ht]; rfl
      · rw [hdisk, hd]; rfl
      · rw [ho.2, ht]; rfl
  | setValue n c vt v a =>
    have ho := obs_step_controller g (.setValue n c vt v a) rfl
    simp only [obs, Prod.mk.injEq] at ho
    exact ⟨ho.1.trans ht, ((tr_step g _ rfl hk).disk).trans hd, ho.2⟩
  | update nids t v img =>
    have ho := obs_step_controller g (.update nids t v img) rfl
    simp only [obs, Prod.mk.injEq] at ho
    exact ⟨ho.1.trans ht, ((tr_step g _ rfl hk).disk).trans hd, ho.2⟩
  | clock t => exact ⟨ht, hd, rfl⟩
  | metric b => exact ⟨ht, hd, rfl⟩
  | saveTick =>
    simp only [step, specOp, specNotifyOp, persisted_save, disk_save g hc]
    refine ⟨?_, ?_, trivial⟩ <;> split <;> simp [ht, hd]
  | stop =>
    simp only [step, specOp, specNotifyOp, persisted_save, disk_save g hc]
    refine ⟨?_, ?_, trivial⟩ <;> split <;> simp [ht, hd]
  | restart =>
    simp only [step, specOp, specNotifyOp, persisted_restart]
    refine ⟨?_, ?_, trivial⟩
    · rw [hd]
    · exact hd

theorem refines_run_all (g : GW) (s : SpecState) (ops : List Op) (hk : KeyInv g) (hc : Clean g)
    (ht : g.persisted = s.tree) (hd : g.disk = s.disk) (hq : quiet g ops = true) :
    (run g ops).persisted = (specRun g.const g.persist s ops).tree ∧
    (run g ops).disk = (specRun g.const g.persist s ops).disk ∧
    callbacks g ops = specCallbacks g.const g.persist s ops := by
  induction ops generalizing g s with
  | nil => exact ⟨ht, hd, rfl⟩
  | cons op ops ih =>
    simp only [quiet, Bool.and_eq_true] at hq
    obtain ⟨h1, h2, h3⟩ := refines_op g s op hk.1 hc ht hd hq.1
    have hconst := const_step g op hk.1
    have hpers := persist_step g op hk.1
    have := ih (step g op).1 (specOp g.const g.persist s op) (keyInv_step g op hk) (clean_step g op hk.1 hc)
      h1 h2 hq.2
    rw [hconst, hpers] at this
    simp only [run, specRun, callbacks, specCallbacks]
    exact ⟨this.1, this.2.1, by rw [h3, this.2.2]⟩

end MySensors
