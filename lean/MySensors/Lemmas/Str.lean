/- String algebra for the Python string model (core Lean only). -/
import MySensors.Py.Str

namespace MySensors

@[simp] theorem splitOn_nil (d : Char) : splitOn d [] = [[]] := rfl

theorem splitOn_cons_eq (d : Char) (cs : Str) : splitOn d (d :: cs) = [] :: splitOn d cs := by
  simp [splitOn]

theorem splitOn_cons_ne (d c : Char) (cs : Str) (h : c ≠ d) :
    splitOn d (c :: cs) = consHead c (splitOn d cs) := by
  simp [splitOn, h]

theorem consHead_ne_nil (c : Char) (l : List Str) : consHead c l ≠ [] := by
  cases l <;> simp [consHead]

theorem splitOn_ne_nil (d : Char) (s : Str) : splitOn d s ≠ [] := by
  cases s with
  | nil => simp
  | cons c cs =>
    by_cases h : c = d
    · subst h; simp [splitOn_cons_eq]
    · rw [splitOn_cons_ne d c cs h]; exact consHead_ne_nil _ _

theorem splitOn_noDelim (d : Char) (s : Str) (h : d ∉ s) : splitOn d s = [s] := by
  induction s with
  | nil => simp
  | cons c cs ih =>
    have hc : c ≠ d := by intro e; apply h; simp [e]
    have hcs : d ∉ cs := by intro e; apply h; simp [e]
    rw [splitOn_cons_ne d c cs hc, ih hcs]; rfl

theorem splitOn_append_delim (d : Char) (f rest : Str) (h : d ∉ f) :
    splitOn d (f ++ d :: rest) = f :: splitOn d rest := by
  induction f with
  | nil => simp [splitOn_cons_eq]
  | cons c cs ih =>
    have hc : c ≠ d := by intro e; apply h; simp [e]
    have hcs : d ∉ cs := by intro e; apply h; simp [e]
    show splitOn d (c :: (cs ++ d :: rest)) = _
    rw [splitOn_cons_ne d c _ hc, ih hcs]; rfl

theorem splitOn_join (d : Char) (fs : List Str) (hne : fs ≠ []) (h : ∀ f ∈ fs, d ∉ f) :
    splitOn d (joinWith d fs) = fs := by
  induction fs with
  | nil => exact absurd rfl hne
  | cons f gs ih =>
    cases gs with
    | nil => simpa [joinWith] using splitOn_noDelim d f (h f (by simp))
    | cons g gs =>
      have := ih (by simp) (fun x hx => h x (by simp [hx]))
      rw [joinWith, splitOn_append_delim d f _ (h f (by simp)), this]

theorem splitOn_fields_noDelim (d : Char) (s : Str) : ∀ f ∈ splitOn d s, d ∉ f := by
  induction s with
  | nil => simp
  | cons c cs ih =>
    by_cases hc : c = d
    · subst hc
      rw [splitOn_cons_eq]
      intro f hf
      simp at hf
      rcases hf with rfl | hf
      · simp
      · exact ih f hf
    · rw [splitOn_cons_ne d c cs hc]
      cases hs : splitOn d cs with
      | nil => exact absurd hs (splitOn_ne_nil d cs)
      | cons h' t =>
        rw [hs] at ih
        intro f hf
        simp [consHead] at hf
        rcases hf with rfl | hf
        · have := ih h' (by simp)
          simp; exact ⟨fun e => hc e.symm, this⟩
        · exact ih f (by simp [hf])

theorem join_splitOn (d : Char) (s : Str) : joinWith d (splitOn d s) = s := by
  induction s with
  | nil => simp [joinWith]
  | cons c cs ih =>
    cases hs : splitOn d cs with
    | nil => exact absurd hs (splitOn_ne_nil d cs)
    | cons h t =>
      rw [hs] at ih
      by_cases hc : c = d
      · subst hc
        rw [splitOn_cons_eq, hs]; simp [joinWith, ih]
      · rw [splitOn_cons_ne d c cs hc, hs]
        cases t with
        | nil => simp [consHead, joinWith] at ih ⊢; exact ih
        | cons g t => simp [consHead, joinWith] at ih ⊢; exact ih

/-! ### rstrip -/

theorem rstripBy_eq_nil_iff (p : Char → Bool) (s : Str) :
    rstripBy p s = [] ↔ ∀ c ∈ s, p c = true := by
  induction s with
  | nil => simp [rstripBy]
  | cons c cs ih =>
    simp only [rstripBy]
    by_cases h : rstripBy p cs = []
    · have hall := ih.mp h
      by_cases hp : p c = true
      · simp [h, hp]; exact hall
      · simp [h, hp]
    · have : ¬ ∀ x ∈ cs, p x = true := fun hall => h (ih.mpr hall)
      simp [h]
      intro _
      apply Classical.byContradiction
      intro hn
      apply this
      intro x hx
      apply Classical.byContradiction
      intro hpx
      exact hn ⟨x, hx, by simpa using hpx⟩

theorem rstripBy_append_true (p : Char → Bool) (s : Str) (c : Char) (hc : p c = true) :
    rstripBy p (s ++ [c]) = rstripBy p s := by
  induction s with
  | nil => simp [rstripBy, hc]
  | cons x xs ih =>
    show rstripBy p (x :: (xs ++ [c])) = _
    simp only [rstripBy, ih]

theorem rstripBy_append_false (p : Char → Bool) (s : Str) (c : Char) (hc : p c = false) :
    rstripBy p (s ++ [c]) = s ++ [c] := by
  induction s with
  | nil => simp [rstripBy, hc]
  | cons x xs ih =>
    show rstripBy p (x :: (xs ++ [c])) = _
    simp only [rstripBy, ih]
    simp

/-- a string that is empty or ends in a non-`p` character is a fixed point -/
theorem rstripBy_fixed (p : Char → Bool) (s : Str)
    (h : ∀ c, s.getLast? = some c → p c = false) : rstripBy p s = s := by
  rcases List.eq_nil_or_concat s with rfl | ⟨xs, x, rfl⟩
  · simp [rstripBy]
  · have : p x = false := h x (by simp)
    simpa using rstripBy_append_false p xs x this

theorem rstripBy_last (p : Char → Bool) (s : Str) :
    ∀ c, (rstripBy p s).getLast? = some c → p c = false := by
  induction s with
  | nil => simp [rstripBy]
  | cons x xs ih =>
    simp only [rstripBy]
    by_cases h : rstripBy p xs = []
    · by_cases hp : p x = true
      · simp [h, hp]
      · simp [h, hp]
    · intro c hc
      simp [h] at hc
      cases hr : rstripBy p xs with
      | nil => exact absurd hr h
      | cons y ys =>
        rw [hr] at hc ih
        rw [List.getLast?_cons_cons] at hc
        exact ih c hc

theorem rstripBy_idem (p : Char → Bool) (s : Str) : rstripBy p (rstripBy p s) = rstripBy p s :=
  rstripBy_fixed p _ (rstripBy_last p s)

theorem lstripBy_fixed (p : Char → Bool) (s : Str)
    (h : ∀ c, s.head? = some c → p c = false) : lstripBy p s = s := by
  cases s with
  | nil => rfl
  | cons c cs => simp [lstripBy, h c (by simp)]

/-! ### popLast -/

theorem popLast_append_singleton {α} (xs : List α) (x : α) : popLast (xs ++ [x]) = some (xs, x) := by
  induction xs with
  | nil => rfl
  | cons y ys ih =>
    cases ys with
    | nil => rfl
    | cons z zs =>
      simp only [List.cons_append] at ih ⊢
      simp [popLast, ih]

theorem popLast_some {α} (l : List α) (i : List α) (x : α) (h : popLast l = some (i, x)) :
    l = i ++ [x] := by
  induction l generalizing i with
  | nil => simp [popLast] at h
  | cons y ys ih =>
    cases ys with
    | nil => simp [popLast] at h; rcases h with ⟨rfl, rfl⟩; rfl
    | cons z zs =>
      simp only [popLast, Option.map_eq_some_iff] at h
      rcases h with ⟨⟨i', l'⟩, h1, h2⟩
      simp at h2
      rcases h2 with ⟨rfl, rfl⟩
      rw [ih i' h1]; rfl

end MySensors
