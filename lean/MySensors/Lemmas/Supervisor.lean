/-
  Lemmas for C20.  The automaton facts are finite case analyses (4 gateway classes × 2 × 5 link
  states × 11 events, each closed by `rfl` after `cases`) lifted to event sequences by
  induction; the watchdog facts are invariants proved with `omega`.
-/
import MySensors.Model.Supervisor

namespace MySensors.Sup

/-! ### finite automaton -/

/-- `isUp → proto`: a connection only exists while `transport.protocol` does -/
def inv (s : L) : Bool := !isUp s.link || s.proto

def edgeMade (a b : Bool) : Nat := if !a && b then 1 else 0
def edgeLost (a b : Bool) : Nat := if a && !b then 1 else 0

/-- all per-step facts about the callbacks in one finite check -/
def stepCbOk (f : Flavour) (s : L) (e : Ev) : Bool :=
  let r := lstep f s e
  (r.2.countP isMade == edgeMade (isUp s.link) (isUp r.1.link)) &&
  (r.2.countP isLost == edgeLost (isUp s.link) (isUp r.1.link)) &&
  (alt (isUp s.link) r.2 == some (isUp r.1.link)) &&
  (!inv s || inv r.1)

theorem stepCbOk_all (f : Flavour) (s : L) (e : Ev) : stepCbOk f s e = true := by
  obtain ⟨p, l⟩ := s
  cases f <;> cases e <;> cases p <;> cases l <;> (try rename_i tr; cases tr) <;> rfl

theorem step_made (f : Flavour) (s : L) (e : Ev) :
    (lstep f s e).2.countP isMade = edgeMade (isUp s.link) (isUp (lstep f s e).1.link) := by
  have h := stepCbOk_all f s e
  simp only [stepCbOk, Bool.and_eq_true, beq_iff_eq] at h
  exact h.1.1.1

theorem step_lost (f : Flavour) (s : L) (e : Ev) :
    (lstep f s e).2.countP isLost = edgeLost (isUp s.link) (isUp (lstep f s e).1.link) := by
  have h := stepCbOk_all f s e
  simp only [stepCbOk, Bool.and_eq_true, beq_iff_eq] at h
  exact h.1.1.2

theorem step_alt (f : Flavour) (s : L) (e : Ev) :
    alt (isUp s.link) (lstep f s e).2 = some (isUp (lstep f s e).1.link) := by
  have h := stepCbOk_all f s e
  simp only [stepCbOk, Bool.and_eq_true, beq_iff_eq] at h
  exact h.1.2

theorem step_inv (f : Flavour) (s : L) (e : Ev) (hi : inv s = true) : inv (lstep f s e).1 = true := by
  have h := stepCbOk_all f s e
  simp only [stepCbOk, Bool.and_eq_true, Bool.or_eq_true, Bool.not_eq_true'] at h
  cases h.2 with
  | inl h1 => rw [hi] at h1; cases h1
  | inr h2 => exact h2

theorem final_inv (f : Flavour) (evs : List Ev) : ∀ s, inv s = true → inv (final f s evs) = true := by
  induction evs with
  | nil => intro s h; exact h
  | cons e es ih => intro s h; exact ih _ (step_inv f s e h)

theorem final_append (f : Flavour) (a b : List Ev) : ∀ s, final f s (a ++ b) = final f (final f s a) b := by
  induction a with
  | nil => intro s; rfl
  | cons e es ih => intro s; exact ih _

theorem alt_append (a b : List Out) : ∀ u, alt u (a ++ b) = (alt u a).bind fun u' => alt u' b := by
  induction a with
  | nil => intro u; simp [alt]
  | cons o os ih =>
    intro u
    cases o with
    | connMade => cases u <;> simp [alt, ih]
    | connLost e => cases u <;> simp [alt, ih]
    | connectAttempt => simp [alt, ih]
    | write => simp [alt, ih]
    | crash => simp [alt, ih]

/-- per-step: reconnect after a loss the user did not ask for -/
def reconnOk (f : Flavour) (s : L) (e : Ev) : Bool :=
  let r := lstep f s e
  !(inv s && isUp s.link && !isUp r.1.link && !userEv e) ||
    (r.2.contains .connectAttempt && r.1.proto &&
      (match r.1.link with | .attempting _ => true | _ => false))

theorem reconnOk_all (f : Flavour) (s : L) (e : Ev) : reconnOk f s e = true := by
  obtain ⟨p, l⟩ := s
  cases f <;> cases e <;> cases p <;> cases l <;> (try rename_i tr; cases tr) <;> rfl

/-- nothing left that could produce a callback, a write or a connect attempt -/
def dead (_f : Flavour) (s : L) : Bool :=
  !s.proto && (match s.link with | .idle => true | .attempting _ => true | _ => false)

def stopOk (f : Flavour) (s : L) : Bool :=
  !(inv s) || dead f (lstep f s .stop).1

theorem stopOk_all (f : Flavour) (s : L) : stopOk f s = true := by
  obtain ⟨p, l⟩ := s
  cases f <;> cases p <;> cases l <;> (try rename_i tr; cases tr) <;> rfl

def deadOk (f : Flavour) (s : L) (e : Ev) : Bool :=
  !dead f s || (dead f (lstep f s e).1 && (lstep f s e).2.all fun o => !loud o)

theorem deadOk_all (f : Flavour) (s : L) (e : Ev) : deadOk f s e = true := by
  obtain ⟨p, l⟩ := s
  cases f <;> cases e <;> cases p <;> cases l <;> (try rename_i tr; cases tr) <;> rfl

theorem dead_quiet (f : Flavour) (evs : List Ev) :
    ∀ s, dead f s = true → ∀ o ∈ outsOf f s evs, loud o = false := by
  induction evs with
  | nil => intro s _ o ho; cases ho
  | cons e es ih =>
    intro s hd o ho
    have h := deadOk_all f s e
    simp only [deadOk, Bool.or_eq_true, Bool.not_eq_true', Bool.and_eq_true, List.all_eq_true] at h
    cases h with
    | inl h1 => rw [hd] at h1; cases h1
    | inr h2 =>
      simp only [outsOf, List.mem_append] at ho
      cases ho with
      | inl h3 => have := h2.2 o h3; simpa using this
      | inr h4 => exact ih _ h2.1 o h4

/-! ### timed layer -/

/-- the attempts after `n` failed ones, starting at `t0` -/
def expectAttempts (rt : Nat) : Nat → Nat → List (List (Nat × Out))
  | _, 0 => []
  | t0, n + 1 => [(t0 + rt, Out.connectAttempt)] :: expectAttempts rt (t0 + rt) n

theorem tstep_fail (f : Flavour) (rt t0 : Nat) (tr : Bool) :
    tstep f rt { l := { proto := true, link := .attempting tr }, now := t0 } .connectFail =
      ({ l := { proto := true, link := .attempting tr }, now := t0 + rt }, [(t0 + rt, .connectAttempt)]) := by
  cases f <;> cases tr <;> rfl

theorem tstep_ok (f : Flavour) (rt t0 : Nat) (tr : Bool) :
    tstep f rt { l := { proto := true, link := .attempting tr }, now := t0 } .connectOk =
      ({ l := { proto := true, link := .up }, now := t0 }, [(t0, .connMade)]) := by
  cases f <;> cases tr <;> rfl

theorem trun_fails (f : Flavour) (rt : Nat) (tr : Bool) (n : Nat) : ∀ t0,
    trun f rt { l := { proto := true, link := .attempting tr }, now := t0 } (List.replicate n .connectFail) =
      ({ l := { proto := true, link := .attempting tr }, now := t0 + n * rt }, expectAttempts rt t0 n) := by
  induction n with
  | zero => intro t0; simp [trun, expectAttempts]
  | succ n ih =>
    intro t0
    simp only [List.replicate_succ, trun, tstep_fail, ih (t0 + rt), expectAttempts]
    congr 2
    rw [Nat.add_mul]; omega

/-! ### watchdog -/

theorem check_cases (rt : Nat) (w : W) (now : Nat) :
    (w.tDisc + 2 * rt < now ∧ check rt w now = ({ w with tDisc := now }, .drop)) ∨
    (now ≤ w.tDisc + 2 * rt ∧ now ≤ w.tCheck + rt ∧ check rt w now = (w, .idle)) ∨
    (now ≤ w.tDisc + 2 * rt ∧ w.tCheck + rt < now ∧ check rt w now = ({ w with tCheck := now }, .probe)) := by
  unfold check
  by_cases h1 : w.tDisc + 2 * rt < now
  · left; simp [h1]
  · by_cases h2 : w.tCheck + rt ≥ now
    · right; left; simp [h1, h2]; omega
    · right; right; simp [h1, h2]; omega

/-- invariant of the densely checked watchdog -/
structure DInv (rt G : Nat) (s : WS) : Prop where
  nd : s.dropped = false
  a1 : s.w.tCheck ≤ s.lastCheck
  a2 : s.lastCheck ≤ s.w.tCheck + rt
  c : s.lastCheck ≤ s.last
  b1 : s.pend = none → s.w.tCheck ≤ s.w.tDisc
  b2 : ∀ c, s.pend = some c → c = s.w.tCheck ∧ s.w.tCheck ≤ s.w.tDisc + rt + G

theorem dinv_init (rt G t0 : Nat) : DInv rt G (wsInit t0) := by
  constructor <;> simp [wsInit, wconnect]

theorem dinv_step (rt G d : Nat) (hd : d + G ≤ rt) (s : WS) (e : WEv) (h : DInv rt G s)
    (ha : admDense G d s e) : DInv rt G (wstep rt s e) := by
  obtain ⟨ht, hp0, he⟩ := ha
  have hp : ∀ c, s.pend = some c → e.time ≤ c + d := by
    intro c hc; rw [hc] at hp0; exact hp0
  cases e with
  | answer now =>
    simp only [WEv.time] at ht hp
    constructor
    · exact h.nd
    · exact h.a1
    · exact h.a2
    · show s.lastCheck ≤ now; have := h.c; omega
    · intro _; show s.w.tCheck ≤ now; have := h.a1; have := h.c; omega
    · intro c hc; simp [wstep] at hc
  | check now =>
    simp only [WEv.time] at ht hp
    have hG : now ≤ s.lastCheck + G := he
    have nodrop : now ≤ s.w.tDisc + 2 * rt := by
      cases hpe : s.pend with
      | none => have := h.b1 hpe; have := h.a2; omega
      | some c => have := h.b2 c hpe; have := hp c hpe; omega
    rcases check_cases rt s.w now with ⟨h1, _⟩ | ⟨_, h2, hc⟩ | ⟨_, h2, hc⟩
    · omega
    · simp only [wstep, hc]
      constructor
      · exact h.nd
      · show s.w.tCheck ≤ now; have := h.a1; have := h.c; omega
      · exact h2
      · exact Nat.le_refl _
      · exact h.b1
      · exact h.b2
    · have hnone : s.pend = none := by
        cases hpe : s.pend with
        | none => rfl
        | some c => have := h.b2 c hpe; have := hp c hpe; omega
      simp only [wstep, hc]
      constructor
      · exact h.nd
      · exact Nat.le_refl _
      · show now ≤ now + rt; omega
      · exact Nat.le_refl _
      · intro hc'; cases hc'
      · intro c hc'
        simp at hc'; subst hc'
        refine ⟨rfl, ?_⟩
        show now ≤ s.w.tDisc + rt + G
        have := h.b1 hnone; have := h.a2; omega

theorem dinv_run (rt G d : Nat) (hd : d + G ≤ rt) (evs : List WEv) :
    ∀ s, DInv rt G s → AdmDense rt G d s evs → DInv rt G (wrun rt s evs) := by
  induction evs with
  | nil => intro s h _; exact h
  | cons e es ih =>
    intro s h ha
    exact ih _ (dinv_step rt G d hd s e h ha.1) ha.2

/-- invariant of the sparsely (periodically) checked watchdog -/
structure PInv (s : WS) : Prop where
  nd : s.dropped = false
  a : s.w.tCheck = s.lastCheck
  c : s.lastCheck ≤ s.last
  b : s.pend = none → s.lastCheck ≤ s.w.tDisc

theorem pinv_init (t0 : Nat) : PInv (wsInit t0) := by
  constructor <;> simp [wsInit, wconnect]

theorem pinv_step (rt : Nat) (s : WS) (e : WEv) (h : PInv s) (ha : admSparse rt s e) :
    PInv (wstep rt s e) := by
  obtain ⟨ht, he⟩ := ha
  cases e with
  | answer now =>
    simp only [WEv.time] at ht
    constructor
    · exact h.nd
    · exact h.a
    · show s.lastCheck ≤ now; have := h.c; omega
    · intro _; show s.lastCheck ≤ now; have := h.c; omega
  | check now =>
    simp only [WEv.time] at ht
    obtain ⟨g1, g2, g3⟩ : s.lastCheck + rt < now ∧ now ≤ s.lastCheck + 2 * rt ∧ s.pend = none := he
    have hb := h.b g3
    have ha := h.a
    rcases check_cases rt s.w now with ⟨h1, _⟩ | ⟨_, h2, _⟩ | ⟨_, _, hc⟩
    · omega
    · omega
    · simp only [wstep, hc]
      constructor
      · exact h.nd
      · rfl
      · exact Nat.le_refl _
      · intro hc'; cases hc'

theorem pinv_run (rt : Nat) (evs : List WEv) :
    ∀ s, PInv s → AdmSparse rt s evs → PInv (wrun rt s evs) := by
  induction evs with
  | nil => intro s h _; exact h
  | cons e es ih =>
    intro s h ha
    exact ih _ (pinv_step rt s e h ha.1) ha.2

theorem firstDrop_spec (rt G : Nat) (td : Nat) (ts : List Nat) :
    ∀ (w : W) (l : Nat), w.tDisc = td → Gaps G l ts → l ≤ td + 2 * rt →
      (∃ t ∈ ts, td + 2 * rt < t) →
      ∃ c, firstDrop rt w ts = some c ∧ td + 2 * rt < c ∧ c ≤ td + 2 * rt + G := by
  induction ts with
  | nil => intro w l _ _ _ ⟨t, ht, _⟩; cases ht
  | cons t ts ih =>
    intro w l hw hg hl hex
    obtain ⟨g1, g2, g3⟩ := hg
    rcases check_cases rt w t with ⟨h1, hc⟩ | ⟨h1, _, hc⟩ | ⟨h1, _, hc⟩
    · refine ⟨t, ?_, by omega, by omega⟩
      simp [firstDrop, hc]
    · simp only [firstDrop, hc]
      apply ih w t hw g3 (by omega)
      obtain ⟨x, hx, hx2⟩ := hex
      cases hx with
      | head => omega
      | tail _ hx' => exact ⟨x, hx', hx2⟩
    · simp only [firstDrop, hc]
      apply ih { w with tCheck := t } t hw g3 (by omega)
      obtain ⟨x, hx, hx2⟩ := hex
      cases hx with
      | head => omega
      | tail _ hx' => exact ⟨x, hx', hx2⟩

end MySensors.Sup
