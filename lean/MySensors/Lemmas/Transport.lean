/-
  Lemmas for C16: soundness of the exhaustive exploration (`check`) for schedules of any
  length, and the queue invariants by induction over the schedule.
-/
import MySensors.Model.Transport

namespace MySensors.Tr

theorem stepAt_lt {i : Nat} {c c' : Cfg} (h : stepAt i c = some c') : i < c.ths.length := by
  unfold stepAt at h
  cases hi : c.ths[i]? with
  | none => simp [hi] at h
  | some t =>
    have := List.getElem?_eq_some_iff.mp hi
    exact this.1

/-- if the exploration accepts `c` with some fuel, `P` holds after **every** schedule (a list of
    thread indices of any length; indices of finished, blocked or non-existent threads are
    no-ops) -/
theorem check_sound (P : Cfg → Bool) :
    ∀ (s : List Nat) (n : Nat) (c : Cfg), check P n c = true → P (run c s) = true := by
  intro s
  induction s with
  | nil =>
    intro n c h
    cases n with
    | zero => simp [check] at h
    | succ n => simp [check] at h; simpa [run] using h.1
  | cons i s ih =>
    intro n c h
    cases hs : stepAt i c with
    | none => simp only [run, hs]; exact ih n c h
    | some c' =>
      simp only [run, hs]
      cases n with
      | zero => simp [check] at h
      | succ n =>
        simp only [check, Bool.and_eq_true, List.all_eq_true] at h
        have hi := stepAt_lt hs
        have := h.2 i (List.mem_range.mpr hi)
        simp only [hs] at this
        exact ih n c' this

/-- the exploration also bounds the length of every run: after the fuel is used up nothing
    can move (used for termination of the sender) -/
theorem check_mono (P Q : Cfg → Bool) (hPQ : ∀ c, P c = true → Q c = true) :
    ∀ (n : Nat) (c : Cfg), check P n c = true → check Q n c = true := by
  intro n
  induction n with
  | zero => intro c h; simp [check] at h
  | succ n ih =>
    intro c h
    simp only [check, Bool.and_eq_true, List.all_eq_true] at h ⊢
    refine ⟨hPQ c h.1, ?_⟩
    intro i hi
    have := h.2 i hi
    cases hs : stepAt i c with
    | none => rfl
    | some c' => simp only [hs] at this ⊢; exact ih c' this

/-! ### The general argument: an inductive invariant of the sender against *any* number of
      threads of the other kinds, in any state -/

/-- the initial connection is still installed and usable -/
def Live (s : Sh) : Prop := s.tp = true ∧ s.pt = some .c0 ∧ s.open0 = true

/-- what a step of any thread other than a sender can do to the shared state -/
structure BenignStep (s s' : Sh) : Prop where
  attempts : s'.attempts = s.attempts
  tp : s'.tp = true → s.tp = true
  pt : s'.pt = some .c0 → s.pt = some .c0
  open0 : s'.open0 = true → s.open0 = true

theorem BenignStep.rfl' (s : Sh) : BenignStep s s := ⟨rfl, id, id, id⟩

theorem BenignStep.notLive {s s' : Sh} (h : BenignStep s s') (hl : ¬ Live s) : ¬ Live s' :=
  fun ⟨a, b, c⟩ => hl ⟨h.tp a, h.pt b, h.open0 c⟩

theorem BenignStep.writeLog {s s' : Sh} (h : BenignStep s s') : s'.writeLog = s.writeLog := by
  unfold Sh.writeLog; rw [h.attempts]

@[simp] theorem goto_kind (t : Th) (n : Nat) : (t.goto n).kind = t.kind := rfl
@[simp] theorem fin_kind (t : Th) (x : Status) : (t.fin x).kind = t.kind := rfl
@[simp] theorem closeConn_attempts (s : Sh) (c : Conn) : (s.closeConn c).attempts = s.attempts := by
  cases c <;> rfl
@[simp] theorem closeConn_tp (s : Sh) (c : Conn) : (s.closeConn c).tp = s.tp := by cases c <;> rfl
@[simp] theorem closeConn_pt (s : Sh) (c : Conn) : (s.closeConn c).pt = s.pt := by cases c <;> rfl
theorem closeConn_open0 (s : Sh) (c : Conn) : (s.closeConn c).open0 = true → s.open0 = true := by
  cases c <;> simp [Sh.closeConn]
theorem closeConn_benign (s : Sh) (c : Conn) : BenignStep s (s.closeConn c) :=
  ⟨by simp, by simp, by simp, closeConn_open0 s c⟩

def benignKind : Kind → Bool
  | .send | .sendPinned => false
  | _ => true

theorem hook_benign {exc : Bool} {b : Nat} {t t' : Th} {s s' : Sh} {l : Label}
    (h : hookStep exc b t s = some (l, t', s')) : BenignStep s s' ∧ t'.kind = t.kind := by
  unfold hookStep at h
  split at h
  · simp at h; obtain ⟨_, rfl, rfl⟩ := h; exact ⟨⟨rfl, id, id, id⟩, rfl⟩
  · split at h
    · simp at h; obtain ⟨_, rfl, rfl⟩ := h; exact ⟨⟨rfl, id, id, id⟩, rfl⟩
    · split at h
      · simp at h; obtain ⟨_, rfl, rfl⟩ := h
        exact ⟨⟨rfl, id, (by intro h; cases h), id⟩, rfl⟩
      · cases h

theorem lossFull_benign {exc : Bool} {t t' : Th} {s s' : Sh} {l : Label}
    (h : lossFullStep exc t s = some (l, t', s')) : BenignStep s s' ∧ t'.kind = t.kind := by
  unfold lossFullStep at h
  split at h
  · split at h <;> (simp at h; obtain ⟨_, rfl, rfl⟩ := h; exact ⟨BenignStep.rfl' _, rfl⟩)
  · split at h <;> (simp at h; obtain ⟨_, rfl, rfl⟩ := h; exact ⟨BenignStep.rfl' _, rfl⟩)
  · simp at h; obtain ⟨_, rfl, rfl⟩ := h; exact ⟨closeConn_benign _ _, rfl⟩
  · exact hook_benign h

theorem disconnect_benign {t t' : Th} {s s' : Sh} {l : Label}
    (h : disconnectStep t s = some (l, t', s')) : BenignStep s s' ∧ t'.kind = t.kind := by
  unfold disconnectStep at h
  split at h
  · simp at h; obtain ⟨_, rfl, rfl⟩ := h; exact ⟨BenignStep.rfl' _, rfl⟩
  · simp at h; obtain ⟨_, rfl, rfl⟩ := h; exact ⟨BenignStep.rfl' _, (by split <;> rfl)⟩
  · simp at h; obtain ⟨_, rfl, rfl⟩ := h; exact ⟨BenignStep.rfl' _, rfl⟩
  · simp at h; obtain ⟨_, rfl, rfl⟩ := h; exact ⟨BenignStep.rfl' _, (by split <;> rfl)⟩
  · split at h <;> (simp at h; obtain ⟨_, rfl, rfl⟩ := h; exact ⟨BenignStep.rfl' _, rfl⟩)
  · simp at h; obtain ⟨_, rfl, rfl⟩ := h; exact ⟨closeConn_benign _ _, rfl⟩
  · simp at h; obtain ⟨_, rfl, rfl⟩ := h
    exact ⟨⟨rfl, (by intro h; cases h), id, id⟩, rfl⟩
  · cases h

theorem connMade_benign {g : Bool} {t t' : Th} {s s' : Sh} {l : Label}
    (h : connMadeStep g t s = some (l, t', s')) : BenignStep s s' ∧ t'.kind = t.kind := by
  unfold connMadeStep at h
  split at h
  · split at h
    · cases h
    · simp at h; obtain ⟨_, rfl, rfl⟩ := h
      exact ⟨⟨rfl, id, (by intro h; cases h), id⟩, rfl⟩
  · simp at h; obtain ⟨_, rfl, rfl⟩ := h; exact ⟨BenignStep.rfl' _, rfl⟩
  · simp at h; obtain ⟨_, rfl, rfl⟩ := h; exact ⟨BenignStep.rfl' _, (by split <;> rfl)⟩
  · simp at h; obtain ⟨_, rfl, rfl⟩ := h; exact ⟨⟨rfl, id, id, id⟩, rfl⟩
  · cases h

theorem benign_step {t t' : Th} {s s' : Sh} {l : Label} (hk : benignKind t.kind = true)
    (h : stepTh t s = some (l, t', s')) : BenignStep s s' ∧ t'.kind = t.kind := by
  unfold stepTh at h
  split at h
  · cases h
  · cases hkind : t.kind with
    | send => rw [hkind] at hk; cases hk
    | sendPinned => rw [hkind] at hk; cases hk
    | lossHook e => rw [hkind] at h; rw [← hkind]; exact hook_benign h
    | lossFull e => rw [hkind] at h; rw [← hkind]; exact lossFull_benign h
    | disconnect => rw [hkind] at h; rw [← hkind]; exact disconnect_benign h
    | connMade g => rw [hkind] at h; rw [← hkind]; exact connMade_benign h

/-- the invariant of the sending thread -/
structure SInv (t : Th) (s : Sh) : Prop where
  kind : t.kind = .send
  ok : t.st = .running ∨ t.st = .returned
  att : s.attempts.length ≤ 1
  fresh : t.st = .running → t.pc ≤ 2 → s.attempts = []
  pcb : t.st = .running → t.pc ≤ 4
  loc : t.st = .running → 2 ≤ t.pc → t.lt.isSome = true
  drop : t.st = .returned → s.writeLog.length ≠ 1 → ¬ Live s
  l1 : t.st = .running → 2 ≤ t.pc → t.lt = some .c1 → ¬ Live s
  l0 : t.st = .running → 3 ≤ t.pc → t.lt = some .c0 → ¬ Live s

theorem sinv_returned {t : Th} {s : Sh} (hk : t.kind = .send) (hst : t.st = .returned)
    (hatt : s.attempts.length ≤ 1) (hdrop : s.writeLog.length ≠ 1 → ¬ Live s) : SInv t s := by
  have hne : t.st = .running → False := by intro h; rw [hst] at h; cases h
  constructor
  · exact hk
  · exact Or.inr hst
  · exact hatt
  · intro h; exact (hne h).elim
  · intro h; exact (hne h).elim
  · intro h; exact (hne h).elim
  · intro _; exact hdrop
  · intro h; exact (hne h).elim
  · intro h; exact (hne h).elim

theorem sinv_running {t : Th} {s : Sh} (hk : t.kind = .send) (hst : t.st = .running)
    (hatt : s.attempts.length ≤ 1) (hfresh : t.pc ≤ 2 → s.attempts = []) (hpcb : t.pc ≤ 4)
    (hloc : 2 ≤ t.pc → t.lt.isSome = true) (hl1 : 2 ≤ t.pc → t.lt = some .c1 → ¬ Live s)
    (hl0 : 3 ≤ t.pc → t.lt = some .c0 → ¬ Live s) : SInv t s := by
  constructor
  · exact hk
  · exact Or.inl hst
  · exact hatt
  · intro _; exact hfresh
  · intro _; exact hpcb
  · intro _; exact hloc
  · intro h; rw [hst] at h; cases h
  · intro _; exact hl1
  · intro _; exact hl0

theorem sinv_init (s : Sh) (h : s.attempts = []) : SInv { kind := .send } s :=
  sinv_running rfl rfl (by simp [h]) (fun _ => h) (by simp) (fun h => by simp at h)
    (fun h => by simp at h) (fun h => by simp at h)

theorem sinv_benign {t : Th} {s s' : Sh} (h : SInv t s) (b : BenignStep s s') : SInv t s' := by
  constructor
  · exact h.kind
  · exact h.ok
  · rw [b.attempts]; exact h.att
  · intro a c; rw [b.attempts]; exact h.fresh a c
  · exact h.pcb
  · exact h.loc
  · intro a c; exact b.notLive (h.drop a (by rw [← b.writeLog]; exact c))
  · intro a c d; exact b.notLive (h.l1 a c d)
  · intro a c d; exact b.notLive (h.l0 a c d)

/-- the sender's own step preserves the invariant -/
theorem sinv_send {t t' : Th} {s s' : Sh} {l : Label} (h : SInv t s)
    (hs : stepTh t s = some (l, t', s')) : SInv t' s' := by
  unfold stepTh at hs
  split at hs
  · cases hs
  · rename_i hnr
    have hrun : t.st = .running := by
      cases h.ok with
      | inl a => exact a
      | inr a => exact absurd (by rw [a]; decide) hnr
    rw [h.kind] at hs
    simp only at hs
    have hpc := h.pcb hrun
    have hcases : t.pc = 0 ∨ t.pc = 1 ∨ t.pc = 2 ∨ t.pc = 3 ∨ t.pc = 4 := by omega
    rcases hcases with p | p | p | p | p
    · -- R tp
      simp only [sendStep, p] at hs
      simp at hs; obtain ⟨_, rfl, rfl⟩ := hs
      have hat := h.fresh hrun (by omega)
      by_cases htp : s.tp = true
      · simp only [htp, if_true]
        exact sinv_running h.kind hrun h.att (fun _ => hat) (by simp [Th.goto])
          (fun c => by simp [Th.goto] at c) (fun c => by simp [Th.goto] at c)
          (fun c => by simp [Th.goto] at c)
      · simp only [htp]
        exact sinv_returned h.kind rfl h.att (fun _ hl => htp hl.1)
    · -- R pt
      simp only [sendStep, p] at hs
      have hat := h.fresh hrun (by omega)
      cases hpt : s.pt with
      | none =>
        rw [hpt] at hs; simp at hs; obtain ⟨_, rfl, rfl⟩ := hs
        exact sinv_returned h.kind rfl h.att (fun _ hl => by have := hl.2.1; rw [hpt] at this; cases this)
      | some c =>
        rw [hpt] at hs; simp at hs; obtain ⟨_, rfl, rfl⟩ := hs
        refine sinv_running h.kind hrun h.att (fun _ => hat) (by simp) (fun _ => rfl) ?_
          (fun c => by simp at c)
        intro _ hc hl
        simp at hc; subst hc
        have := hl.2.1; rw [hpt] at this; cases this
    · -- write
      have hlt := h.loc hrun (by omega)
      have hat := h.fresh hrun (by omega)
      cases hl : t.lt with
      | none => rw [hl] at hlt; cases hlt
      | some c =>
        simp only [sendStep, p, hl] at hs
        by_cases ho : s.isOpen c = true
        · simp only [ho, if_true] at hs
          simp at hs; obtain ⟨_, rfl, rfl⟩ := hs
          refine sinv_returned h.kind rfl (by simp [hat]) ?_
          intro hw
          exfalso; apply hw
          simp [Sh.writeLog, hat]
        · simp only [ho] at hs
          simp at hs; obtain ⟨_, rfl, rfl⟩ := hs
          refine sinv_running h.kind hrun (by simp [hat]) (fun c => by simp [Th.goto] at c)
            (by simp [Th.goto]) (fun _ => by simp [Th.goto, hl]) ?_ ?_
          · intro _ hc hlive
            have : t.lt = some .c1 := hc
            exact h.l1 hrun (by omega) this ⟨hlive.1, hlive.2.1, hlive.2.2⟩
          · intro _ hc hlive
            have hc' : t.lt = some .c0 := hc
            rw [hl] at hc'; simp at hc'; subst hc'
            exact ho hlive.2.2
    · -- close
      have hlt := h.loc hrun (by omega)
      cases hl : t.lt with
      | none => rw [hl] at hlt; cases hlt
      | some c =>
        simp only [sendStep, p, hl] at hs
        simp at hs; obtain ⟨_, rfl, rfl⟩ := hs
        have b := closeConn_benign s c
        refine sinv_running h.kind hrun (by simp; exact h.att) (fun c => by simp [Th.goto] at c)
          (by simp [Th.goto]) (fun _ => by simp [Th.goto, hl]) ?_ ?_
        · intro _ hc; exact b.notLive (h.l1 hrun (by omega) hc)
        · intro _ hc; exact b.notLive (h.l0 hrun (by omega) hc)
    · -- conn_lost_callback
      have hlt := h.loc hrun (by omega)
      simp only [sendStep, p] at hs
      simp at hs; obtain ⟨_, rfl, rfl⟩ := hs
      refine sinv_returned h.kind rfl h.att ?_
      intro _ hlive
      cases hl : t.lt with
      | none => rw [hl] at hlt; cases hlt
      | some c =>
        cases c with
        | c0 => exact h.l0 hrun (by omega) hl hlive
        | c1 => exact h.l1 hrun (by omega) hl hlive

/-- a running sender is never blocked, and each of its steps brings it closer to the end -/
theorem sinv_progress {t : Th} {s : Sh} (h : SInv t s) (hrun : t.st = .running) :
    ∃ l t' s', stepTh t s = some (l, t', s') ∧ (t'.st = .returned ∨ (t'.st = .running ∧ t'.pc = t.pc + 1)) := by
  have hpc := h.pcb hrun
  have hcases : t.pc = 0 ∨ t.pc = 1 ∨ t.pc = 2 ∨ t.pc = 3 ∨ t.pc = 4 := by omega
  unfold stepTh
  rw [h.kind]
  simp only [hrun, ne_eq, not_true_eq_false, if_false]
  rcases hcases with p | p | p | p | p
  · simp only [sendStep, p]
    by_cases htp : s.tp = true
    · exact ⟨_, _, _, rfl, Or.inr (by simp [htp, Th.goto, hrun, p])⟩
    · exact ⟨_, _, _, rfl, Or.inl (by simp [htp, Th.fin])⟩
  · simp only [sendStep, p]
    cases hpt : s.pt with
    | none => exact ⟨_, _, _, rfl, Or.inl rfl⟩
    | some c => exact ⟨_, _, _, rfl, Or.inr ⟨hrun, by simp [p]⟩⟩
  · have hlt := h.loc hrun (by omega)
    cases hl : t.lt with
    | none => rw [hl] at hlt; cases hlt
    | some c =>
      simp only [sendStep, p, hl]
      by_cases ho : s.isOpen c = true
      · simp only [ho, if_true]; exact ⟨_, _, _, rfl, Or.inl rfl⟩
      · simp only [ho]; exact ⟨_, _, _, rfl, Or.inr ⟨hrun, by simp [Th.goto, p]⟩⟩
  · have hlt := h.loc hrun (by omega)
    cases hl : t.lt with
    | none => rw [hl] at hlt; cases hlt
    | some c =>
      simp only [sendStep, p, hl]
      exact ⟨_, _, _, rfl, Or.inr ⟨hrun, by simp [Th.goto, p]⟩⟩
  · simp only [sendStep, p]
    exact ⟨_, _, _, rfl, Or.inl rfl⟩

/-- configuration-level invariant: thread 0 is a sender satisfying `SInv`, all others are of the
    benign kinds (any number of them, in any state) -/
def Good (c : Cfg) : Prop :=
  ∃ t others, c.ths = t :: others ∧ SInv t c.sh ∧ ∀ o ∈ others, benignKind o.kind = true

theorem good_step {i : Nat} {c c' : Cfg} (h : Good c) (hs : stepAt i c = some c') : Good c' := by
  obtain ⟨t, others, hths, hinv, hben⟩ := h
  unfold stepAt at hs
  rw [hths] at hs
  cases i with
  | zero =>
    simp only [List.getElem?_cons_zero] at hs
    cases hst : stepTh t c.sh with
    | none => rw [hst] at hs; cases hs
    | some r =>
      obtain ⟨l, t', s'⟩ := r
      rw [hst] at hs; simp at hs; subst hs
      exact ⟨t', others, by simp, sinv_send hinv hst, hben⟩
  | succ k =>
    simp only [List.getElem?_cons_succ] at hs
    cases ho : others[k]? with
    | none => rw [ho] at hs; cases hs
    | some o =>
      have hmem : o ∈ others := List.mem_of_getElem? ho
      cases hst : stepTh o c.sh with
      | none => simp [ho, hst] at hs
      | some r =>
        obtain ⟨l, o', s'⟩ := r
        simp [ho, hst] at hs; subst hs
        have hb := benign_step (hben o hmem) hst
        refine ⟨t, others.set k o', by simp, sinv_benign hinv hb.1, ?_⟩
        intro x hx
        cases List.mem_or_eq_of_mem_set hx with
        | inl h1 => exact hben x h1
        | inr h2 => rw [h2, hb.2]; exact hben o hmem

theorem good_run (s : List Nat) : ∀ c, Good c → Good (run c s) := by
  induction s with
  | nil => intro c h; exact h
  | cons i s ih =>
    intro c h
    cases hs : stepAt i c with
    | none => simp only [run, hs]; exact ih c h
    | some c' => simp only [run, hs]; exact ih c' (good_step h hs)

theorem good_sender {c : Cfg} (h : Good c) : SInv (sender c) c.sh := by
  obtain ⟨t, others, hths, hinv, _⟩ := h
  unfold sender; rw [hths]; exact hinv

theorem good_stepAt_zero {c : Cfg} (h : Good c) (hrun : (sender c).st = .running) :
    ∃ c', stepAt 0 c = some c' ∧ Good c' ∧
      ((sender c').st = .returned ∨ ((sender c').st = .running ∧ (sender c').pc = (sender c).pc + 1)) := by
  have hg := h
  obtain ⟨t, others, hths, hinv, hben⟩ := h
  have hst : sender c = t := by unfold sender; rw [hths]; rfl
  rw [hst] at hrun
  obtain ⟨l, t', s', hstep, hprog⟩ := sinv_progress hinv hrun
  have hs : stepAt 0 c = some { sh := s', ths := c.ths.set 0 t' } := by
    unfold stepAt; rw [hths]; simp [hstep]
  refine ⟨_, hs, good_step hg hs, ?_⟩
  have : sender { sh := s', ths := c.ths.set 0 t' } = t' := by
    unfold sender; rw [hths]; rfl
  rw [this, hst]; exact hprog

/-- `k` own steps from program counter `≥ 5 - k` finish the sender -/
theorem good_finish : ∀ (k : Nat) (c : Cfg), Good c →
    ((sender c).st = .running → 5 ≤ (sender c).pc + k) →
    (sender (run c (List.replicate k 0))).st = .returned := by
  intro k
  induction k with
  | zero =>
    intro c h hk
    have hinv := good_sender h
    cases hinv.ok with
    | inl hrun => have := hinv.pcb hrun; have := hk hrun; omega
    | inr hret => simpa [run] using hret
  | succ k ih =>
    intro c h hk
    have hinv := good_sender h
    cases hinv.ok with
    | inl hrun =>
      obtain ⟨c', hs, hg', hprog⟩ := good_stepAt_zero h hrun
      simp only [List.replicate_succ, run, hs]
      apply ih c' hg'
      intro hrun'
      cases hprog with
      | inl hret => rw [hret] at hrun'; cases hrun'
      | inr hp => have := hk hrun; omega
    | inr hret =>
      have hnone : stepAt 0 c = none := by
        obtain ⟨t, others, hths, _, _⟩ := h
        have hst : sender c = t := by unfold sender; rw [hths]; rfl
        unfold stepAt; rw [hths]; simp
        rw [hst] at hret
        unfold stepTh; simp [hret]
      simp only [List.replicate_succ, run, hnone]
      apply ih c h
      intro hrun; rw [hret] at hrun; cases hrun

/-! ### Queue -/

theorem listSet_getD {α} (l : List α) (i : Nat) (a d : α) (k : Nat) (hi : i < l.length) :
    (listSet l i a).getD k d = if k = i then a else l.getD k d := by
  induction l generalizing i k with
  | nil => simp at hi
  | cons x xs ih =>
    cases i with
    | zero =>
      cases k with
      | zero => simp [listSet]
      | succ k => simp [listSet]
    | succ i =>
      cases k with
      | zero => simp [listSet]
      | succ k =>
        have := ih i k (by simpa using hi)
        simpa [listSet] using this

theorem getD_ne_nil_lt {α} (l : List (List α)) (i : Nat) (h : l.getD i [] ≠ []) : i < l.length := by
  by_cases hi : i < l.length
  · exact hi
  · exfalso; apply h; simp [List.getD, List.getElem?_eq_none (Nat.le_of_not_lt hi)]

/-- the invariant carried along every schedule -/
structure QInv (p0 : List (List Job)) (q : QS) : Prop where
  fifo : q.sent ++ q.queue = q.appended
  noRaise : q.raised = false
  popOk : q.pc = .pop → q.queue ≠ []
  perProd : ∀ i, q.appended.filter (fun j => j.1 == i) ++ q.prod.getD i [] = p0.getD i []
  tags : ∀ i, ∀ j ∈ q.prod.getD i [], j.1 = i
  owners : ∀ j ∈ q.appended, j.1 < p0.length
  len : q.prod.length = p0.length

theorem qinv_init (p0 : List (List Job)) (h : tagged p0) : QInv p0 (qinit p0) :=
  ⟨rfl, rfl, (by intro h; cases h), (by intro i; simp [qinit]), h, (by intro j hj; simp [qinit] at hj), rfl⟩

theorem listSet_length {α} (l : List α) (i : Nat) (a : α) : (listSet l i a).length = l.length := by
  induction l generalizing i with
  | nil => rfl
  | cons x xs ih => cases i <;> simp [listSet, ih]

theorem qinv_produce (p0 : List (List Job)) (q : QS) (i : Nat) (h : QInv p0 q) :
    QInv p0 (produceStep q i) := by
  unfold produceStep
  cases hp : q.prod.getD i [] with
  | nil => simpa [hp] using h
  | cons j rest =>
    simp only
    have hi : i < q.prod.length := getD_ne_nil_lt q.prod i (by rw [hp]; simp)
    have hj : j.1 = i := h.tags i j (by rw [hp]; simp)
    refine { fifo := ?_, noRaise := (by first | exact h.noRaise | rfl), popOk := ?_, perProd := ?_, tags := ?_, owners := ?_, len := ?_ }
    · show q.sent ++ (q.queue ++ [j]) = q.appended ++ [j]
      rw [← List.append_assoc, h.fifo]
    · intro _; show q.queue ++ [j] ≠ []; simp
    · intro k
      show (q.appended ++ [j]).filter (fun x => x.1 == k) ++ (listSet q.prod i rest).getD k [] = p0.getD k []
      rw [listSet_getD _ _ _ _ _ hi, List.filter_append]
      by_cases hk : k = i
      · subst hk
        have := h.perProd k
        rw [hp] at this
        simp only [if_true]
        rw [← this]
        simp [hj]
      · have hne : (j.1 == k) = false := by simp [hj]; exact fun e => hk e.symm
        simp only [hk, if_false]
        have := h.perProd k
        simpa [hne] using this
    · intro k x hx
      show x.1 = k
      rw [listSet_getD _ _ _ _ _ hi] at hx
      by_cases hk : k = i
      · subst hk
        simp only [if_true] at hx
        exact h.tags k x (by rw [hp]; exact List.mem_cons_of_mem _ hx)
      · simp only [hk, if_false] at hx
        exact h.tags k x hx
    · intro x hx
      have hx' : x ∈ q.appended ++ [j] := hx
      rw [List.mem_append] at hx'
      cases hx' with
      | inl h1 => exact h.owners x h1
      | inr h2 =>
        simp at h2; subst h2
        rw [hj, ← h.len]; exact hi
    · show (listSet q.prod i rest).length = p0.length
      rw [listSet_length]; exact h.len

theorem qinv_pump (p0 : List (List Job)) (q : QS) (h : QInv p0 q) : QInv p0 (pumpStep q) := by
  unfold pumpStep
  rw [h.noRaise]
  simp only [Bool.false_eq_true, if_false]
  cases hpc : q.pc with
  | c1 =>
    simp only
    refine { fifo := h.fifo, noRaise := (by first | exact h.noRaise | rfl), popOk := ?_, perProd := h.perProd, tags := h.tags, owners := h.owners, len := h.len }
    intro hp
    show q.queue ≠ []
    cases hq : q.queue with
    | nil => simp [hq] at hp
    | cons a b => simp
  | pop =>
    simp only
    unfold popStep
    cases hq : q.queue with
    | nil => exact absurd hq (h.popOk hpc)
    | cons j rest =>
      simp only
      refine { fifo := ?_, noRaise := (by first | exact h.noRaise | rfl), popOk := ?_, perProd := h.perProd, tags := h.tags, owners := h.owners, len := h.len }
      · show (q.sent ++ [j]) ++ rest = q.appended
        rw [← h.fifo, hq]; simp
      · intro hp; cases hp
  | c2 =>
    simp only
    refine { fifo := h.fifo, noRaise := (by first | exact h.noRaise | rfl), popOk := ?_, perProd := h.perProd, tags := h.tags, owners := h.owners, len := h.len }
    intro hp
    show q.queue ≠ []
    cases hq : q.queue with
    | nil => simp [hq] at hp
    | cons a b => simp
  | slp =>
    simp only
    refine { fifo := h.fifo, noRaise := (by first | exact h.noRaise | rfl), popOk := ?_, perProd := h.perProd, tags := h.tags, owners := h.owners, len := h.len }
    intro hp; cases hp

theorem qinv_run (p0 : List (List Job)) (acts : List QAct) :
    ∀ q, QInv p0 q → QInv p0 (qrun q acts) := by
  induction acts with
  | nil => intro q h; exact h
  | cons a as ih =>
    intro q h
    apply ih
    cases a with
    | produce i => exact qinv_produce p0 q i h
    | pump => exact qinv_pump p0 q h


/-! ### the pump alone drains the queue -/

def pumps (k : Nat) : List QAct := List.replicate k .pump

theorem qrun_append (q : QS) (a b : List QAct) : qrun q (a ++ b) = qrun (qrun q a) b := by
  induction a generalizing q with
  | nil => rfl
  | cons x xs ih => exact ih _

theorem pumps_succ (q : QS) (k : Nat) : qrun q (pumps (k + 1)) = qrun (pumpStep q) (pumps k) := rfl

theorem pumps_add (q : QS) (a b : Nat) : qrun q (pumps (a + b)) = qrun (qrun q (pumps a)) (pumps b) := by
  induction a generalizing q with
  | zero => rw [Nat.zero_add]; rfl
  | succ a ih => rw [show a + 1 + b = (a + b) + 1 by omega, pumps_succ, pumps_succ, ih]

/-- an idle pump (empty queue, not about to pop) stays idle: it only cycles check → check → sleep -/
theorem pump_idle_stays (k : Nat) : ∀ q : QS, q.raised = false → q.queue = [] → q.pc ≠ .pop →
    (qrun q (pumps k)).queue = [] ∧ (qrun q (pumps k)).raised = false ∧
    (qrun q (pumps k)).sent = q.sent ∧ (qrun q (pumps k)).appended = q.appended := by
  induction k with
  | zero => intro q hr he _; exact ⟨he, hr, rfl, rfl⟩
  | succ k ih =>
    intro q hr he hp
    rw [pumps_succ]
    have key : (pumpStep q).raised = false ∧ (pumpStep q).queue = [] ∧ (pumpStep q).pc ≠ .pop ∧
        (pumpStep q).sent = q.sent ∧ (pumpStep q).appended = q.appended := by
      unfold pumpStep
      rw [hr]
      cases hpc : q.pc with
      | pop => exact absurd hpc hp
      | c1 => simp [he]
      | c2 => simp [he]
      | slp => simp [he]
    obtain ⟨h1, h2, h3, h4, h5⟩ := key
    have := ih (pumpStep q) h1 h2 h3
    rw [h4, h5] at this
    exact this

/-- from any state the pump can be in, at most three of its steps per queued job empty the queue -/
theorem pump_drains_aux (n : Nat) : ∀ q : QS, q.raised = false → (q.pc = .pop → q.queue ≠ []) →
    q.queue.length = n →
    ∃ k, k ≤ 3 * n ∧ (qrun q (pumps k)).queue = [] ∧ (qrun q (pumps k)).raised = false ∧
      (qrun q (pumps k)).pc ≠ .pop ∧ (qrun q (pumps k)).sent = q.sent ++ q.queue ∧
      (qrun q (pumps k)).appended = q.appended := by
  induction n with
  | zero =>
    intro q hr hp hl
    have he : q.queue = [] := List.eq_nil_of_length_eq_zero hl
    refine ⟨0, Nat.le_refl _, he, hr, ?_, ?_, rfl⟩
    · intro h; exact hp h he
    · show q.sent = q.sent ++ q.queue
      rw [he, List.append_nil]
  | succ n ih =>
    intro q hr hp hl
    cases hq : q.queue with
    | nil => rw [hq] at hl; cases hl
    | cons j rest =>
      have hrest : rest.length = n := by rw [hq] at hl; simpa using hl
      -- the state right after the pop of `j`
      let q' : QS := { q with queue := rest, sent := q.sent ++ [j], pc := .c2 }
      have hq' : ∃ k', k' ≤ 3 * n ∧ (qrun q' (pumps k')).queue = [] ∧ (qrun q' (pumps k')).raised = false ∧
          (qrun q' (pumps k')).pc ≠ .pop ∧ (qrun q' (pumps k')).sent = q.sent ++ (j :: rest) ∧
          (qrun q' (pumps k')).appended = q.appended := by
        obtain ⟨k', hk', h1, h2, h3, h4, h5⟩ := ih q' hr (by intro h; cases h) hrest
        refine ⟨k', hk', h1, h2, h3, ?_, h5⟩
        rw [h4]; show (q.sent ++ [j]) ++ rest = _
        simp
      obtain ⟨k', hk', h1, h2, h3, h4, h5⟩ := hq'
      have pop_step : ∀ q0 : QS, q0.raised = false → q0.pc = .pop → q0.queue = j :: rest →
          q0.sent = q.sent → q0.appended = q.appended → q0.prod = q.prod → pumpStep q0 = q' := by
        intro q0 h0 hpc h0q hs ha hpr
        unfold pumpStep popStep
        rw [h0, hpc, h0q]
        cases q0; cases q; simp_all [q']
      have c1_step : ∀ q0 : QS, q0.raised = false → q0.pc = .c1 → q0.queue = j :: rest →
          q0.sent = q.sent → q0.appended = q.appended → q0.prod = q.prod →
          pumpStep (pumpStep q0) = q' := by
        intro q0 h0 hpc h0q hs ha hpr
        have : pumpStep q0 = { q0 with pc := .pop } := by
          unfold pumpStep; rw [h0, hpc, h0q]; rfl
        rw [this]
        exact pop_step _ h0 rfl h0q hs ha hpr
      cases hpc : q.pc with
      | pop =>
        refine ⟨k' + 1, by omega, ?_⟩
        rw [pumps_succ, pop_step q hr hpc hq rfl rfl rfl]
        exact ⟨h1, h2, h3, h4, h5⟩
      | c1 =>
        refine ⟨k' + 1 + 1, by omega, ?_⟩
        rw [pumps_succ, pumps_succ, c1_step q hr hpc hq rfl rfl rfl]
        exact ⟨h1, h2, h3, h4, h5⟩
      | c2 =>
        have : pumpStep q = { q with pc := .c1 } := by
          unfold pumpStep; rw [hr, hpc, hq]; rfl
        refine ⟨k' + 1 + 1 + 1, by omega, ?_⟩
        rw [pumps_succ, this, pumps_succ, pumps_succ, c1_step { q with pc := .c1 } hr rfl hq rfl rfl rfl]
        exact ⟨h1, h2, h3, h4, h5⟩
      | slp =>
        have : pumpStep q = { q with pc := .c1 } := by
          unfold pumpStep; simp [hr, hpc]
        refine ⟨k' + 1 + 1 + 1, by omega, ?_⟩
        rw [pumps_succ, this, pumps_succ, pumps_succ, c1_step { q with pc := .c1 } hr rfl hq rfl rfl rfl]
        exact ⟨h1, h2, h3, h4, h5⟩

theorem pump_drains (q : QS) (hr : q.raised = false) (hp : q.pc = .pop → q.queue ≠ []) (k : Nat)
    (hk : 3 * q.queue.length ≤ k) :
    (qrun q (pumps k)).queue = [] ∧ (qrun q (pumps k)).raised = false ∧
    (qrun q (pumps k)).sent = q.sent ++ q.queue ∧ (qrun q (pumps k)).appended = q.appended := by
  obtain ⟨k0, hk0, h1, h2, h3, h4, h5⟩ := pump_drains_aux q.queue.length q hr hp rfl
  have : k = k0 + (k - k0) := by omega
  rw [this, pumps_add]
  obtain ⟨i1, i2, i3, i4⟩ := pump_idle_stays (k - k0) (qrun q (pumps k0)) h2 h1 h3
  exact ⟨i1, i2, by rw [i3, h4], by rw [i4, h5]⟩

end MySensors.Tr
