/-
  Lemmas for C16: soundness of the exhaustive exploration (`check`) for schedules of any
  length, and the queue invariants by induction over the schedule.
-/
import MySensors.Model.Transport

namespace MySensors.Tr

theorem stepAt_lt {i : Nat} {c c' : Cfg} (h : stepAt i c = some c') : i < c.ths.length := by
  unfold stepAt at h
  cases hi : c.ths[i]? with
  | none => simp [hi] at h
  | some t =>
    have := List.getElem?_eq_some_iff.mp hi
    exact this.1

/-- if the exploration accepts `c` with some fuel, `P` holds after **every** schedule (a list of
    thread indices of any length; indices of finished, blocked or non-existent threads are
    no-ops) -/
theorem check_sound (P : Cfg → Bool) :
    ∀ (s : List Nat) (n : Nat) (c : Cfg), check P n c = true → P (run c s) = true := by
  intro s
  induction s with
  | nil =>
    intro n c h
    cases n with
    | zero => simp [check] at h
    | succ n => simp [check] at h; simpa [run] using h.1
  | cons i s ih =>
    intro n c h
    cases hs : stepAt i c with
    | none => simp only [run, hs]; exact ih n c h
    | some c' =>
      simp only [run, hs]
      cases n with
      | zero => simp [check] at h
      | succ n =>
        simp only [check, Bool.and_eq_true, List.all_eq_true] at h
        have hi := stepAt_lt hs
        have := h.2 i (List.mem_range.mpr hi)
        simp only [hs] at this
        exact ih n c' this

/-- the exploration also bounds the length of every run: after the fuel is used up nothing
    can move (used for termination of the sender) -/
theorem check_mono (P Q : Cfg → Bool) (hPQ : ∀ c, P c = true → Q c = true) :
    ∀ (n : Nat) (c : Cfg), check P n c = true → check Q n c = true := by
  intro n
  induction n with
  | zero => intro c h; simp [check] at h
  | succ n ih =>
    intro c h
    simp only [check, Bool.and_eq_true, List.all_eq_true] at h ⊢
    refine ⟨hPQ c h.1, ?_⟩
    intro i hi
    have := h.2 i hi
    cases hs : stepAt i c with
    | none => rfl
    | some c' => simp only [hs] at this ⊢; exact ih c' this

/-! ### Queue -/

theorem listSet_getD {α} (l : List α) (i : Nat) (a d : α) (k : Nat) (hi : i < l.length) :
    (listSet l i a).getD k d = if k = i then a else l.getD k d := by
  induction l generalizing i k with
  | nil => simp at hi
  | cons x xs ih =>
    cases i with
    | zero =>
      cases k with
      | zero => simp [listSet]
      | succ k => simp [listSet]
    | succ i =>
      cases k with
      | zero => simp [listSet]
      | succ k =>
        have := ih i k (by simpa using hi)
        simpa [listSet] using this

theorem getD_ne_nil_lt {α} (l : List (List α)) (i : Nat) (h : l.getD i [] ≠ []) : i < l.length := by
  by_cases hi : i < l.length
  · exact hi
  · exfalso; apply h; simp [List.getD, List.getElem?_eq_none (Nat.le_of_not_lt hi)]

/-- the invariant carried along every schedule -/
structure QInv (p0 : List (List Job)) (q : QS) : Prop where
  fifo : q.sent ++ q.queue = q.appended
  noRaise : q.raised = false
  popOk : q.pc = .pop → q.queue ≠ []
  perProd : ∀ i, q.appended.filter (fun j => j.1 == i) ++ q.prod.getD i [] = p0.getD i []
  tags : ∀ i, ∀ j ∈ q.prod.getD i [], j.1 = i
  owners : ∀ j ∈ q.appended, j.1 < p0.length
  len : q.prod.length = p0.length

theorem qinv_init (p0 : List (List Job)) (h : tagged p0) : QInv p0 (qinit p0) :=
  ⟨rfl, rfl, (by intro h; cases h), (by intro i; simp [qinit]), h, (by intro j hj; simp [qinit] at hj), rfl⟩

theorem listSet_length {α} (l : List α) (i : Nat) (a : α) : (listSet l i a).length = l.length := by
  induction l generalizing i with
  | nil => rfl
  | cons x xs ih => cases i <;> simp [listSet, ih]

theorem qinv_produce (p0 : List (List Job)) (q : QS) (i : Nat) (h : QInv p0 q) :
    QInv p0 (produceStep q i) := by
  unfold produceStep
  cases hp : q.prod.getD i [] with
  | nil => simpa [hp] using h
  | cons j rest =>
    simp only
    have hi : i < q.prod.length := getD_ne_nil_lt q.prod i (by rw [hp]; simp)
    have hj : j.1 = i := h.tags i j (by rw [hp]; simp)
    refine { fifo := ?_, noRaise := (by first | exact h.noRaise | rfl), popOk := ?_, perProd := ?_, tags := ?_, owners := ?_, len := ?_ }
    · show q.sent ++ (q.queue ++ [j]) = q.appended ++ [j]
      rw [← List.append_assoc, h.fifo]
    · intro _; show q.queue ++ [j] ≠ []; simp
    · intro k
      show (q.appended ++ [j]).filter (fun x => x.1 == k) ++ (listSet q.prod i rest).getD k [] = p0.getD k []
      rw [listSet_getD _ _ _ _ _ hi, List.filter_append]
      by_cases hk : k = i
      · subst hk
        have := h.perProd k
        rw [hp] at this
        simp only [if_true]
        rw [← this]
        simp [hj]
      · have hne : (j.1 == k) = false := by simp [hj]; exact fun e => hk e.symm
        simp only [hk, if_false]
        have := h.perProd k
        simpa [hne] using this
    · intro k x hx
      show x.1 = k
      rw [listSet_getD _ _ _ _ _ hi] at hx
      by_cases hk : k = i
      · subst hk
        simp only [if_true] at hx
        exact h.tags k x (by rw [hp]; exact List.mem_cons_of_mem _ hx)
      · simp only [hk, if_false] at hx
        exact h.tags k x hx
    · intro x hx
      have hx' : x ∈ q.appended ++ [j] := hx
      rw [List.mem_append] at hx'
      cases hx' with
      | inl h1 => exact h.owners x h1
      | inr h2 =>
        simp at h2; subst h2
        rw [hj, ← h.len]; exact hi
    · show (listSet q.prod i rest).length = p0.length
      rw [listSet_length]; exact h.len

theorem qinv_pump (p0 : List (List Job)) (q : QS) (h : QInv p0 q) : QInv p0 (pumpStep q) := by
  unfold pumpStep
  rw [h.noRaise]
  simp only [Bool.false_eq_true, if_false]
  cases hpc : q.pc with
  | c1 =>
    simp only
    refine { fifo := h.fifo, noRaise := (by first | exact h.noRaise | rfl), popOk := ?_, perProd := h.perProd, tags := h.tags, owners := h.owners, len := h.len }
    intro hp
    show q.queue ≠ []
    cases hq : q.queue with
    | nil => simp [hq] at hp
    | cons a b => simp
  | pop =>
    simp only
    unfold popStep
    cases hq : q.queue with
    | nil => exact absurd hq (h.popOk hpc)
    | cons j rest =>
      simp only
      refine { fifo := ?_, noRaise := (by first | exact h.noRaise | rfl), popOk := ?_, perProd := h.perProd, tags := h.tags, owners := h.owners, len := h.len }
      · show (q.sent ++ [j]) ++ rest = q.appended
        rw [← h.fifo, hq]; simp
      · intro hp; cases hp
  | c2 =>
    simp only
    refine { fifo := h.fifo, noRaise := (by first | exact h.noRaise | rfl), popOk := ?_, perProd := h.perProd, tags := h.tags, owners := h.owners, len := h.len }
    intro hp
    show q.queue ≠ []
    cases hq : q.queue with
    | nil => simp [hq] at hp
    | cons a b => simp
  | slp =>
    simp only
    refine { fifo := h.fifo, noRaise := (by first | exact h.noRaise | rfl), popOk := ?_, perProd := h.perProd, tags := h.tags, owners := h.owners, len := h.len }
    intro hp; cases hp

theorem qinv_run (p0 : List (List Job)) (acts : List QAct) :
    ∀ q, QInv p0 q → QInv p0 (qrun q acts) := by
  induction acts with
  | nil => intro q h; exact h
  | cons a as ih =>
    intro q h
    apply ih
    cases a with
    | produce i => exact qinv_produce p0 q i h
    | pump => exact qinv_pump p0 q h

end MySensors.Tr
