/- Lemmas about the rule interpreter and association-list tables (core Lean only). -/
import MySensors.Model.SpecC03

namespace MySensors

/-! ### association lists -/

theorem lookup_some_mem {κ ν} [DecidableEq κ] (k : κ) (v : ν) (l : List (κ × ν))
    (h : lookup k l = some v) : (k, v) ∈ l := by
  induction l with
  | nil => simp [lookup] at h
  | cons kv rest ih =>
    obtain ⟨k', v'⟩ := kv
    simp only [lookup] at h
    split at h
    · rename_i hk; subst hk; cases h; simp
    · simp [ih h]

theorem lookup_isSome_of_mem {κ ν} [DecidableEq κ] (k : κ) (v : ν) (l : List (κ × ν))
    (h : (k, v) ∈ l) : (lookup k l).isSome = true := by
  induction l with
  | nil => simp at h
  | cons kv rest ih =>
    obtain ⟨k', v'⟩ := kv
    simp only [lookup]
    split
    · rfl
    · rename_i hk
      simp at h
      rcases h with ⟨rfl, _⟩ | h
      · exact absurd rfl hk
      · exact ih h

theorem tableEquiv_lookup {κ ν} [DecidableEq κ] [DecidableEq ν] (a b : List (κ × ν))
    (h : tableEquiv a b = true) (k : κ) : lookup k a = lookup k b := by
  simp only [tableEquiv, Bool.and_eq_true, List.all_eq_true, beq_iff_eq] at h
  obtain ⟨hab, hba⟩ := h
  cases ha : lookup k a with
  | some v => exact (hab (k, v) (lookup_some_mem k v a ha)).symm
  | none =>
    cases hb : lookup k b with
    | none => rfl
    | some v =>
      have := hba (k, v) (lookup_some_mem k v b hb)
      simp at this
      rw [ha] at this; cases this

theorem lookup_map_snd {κ ν μ} [DecidableEq κ] (f : ν → μ) (k : κ) (l : List (κ × ν)) :
    lookup k (l.map fun kv => (kv.1, f kv.2)) = (lookup k l).map f := by
  induction l with
  | nil => rfl
  | cons kv rest ih =>
    obtain ⟨k', v'⟩ := kv
    simp only [List.map_cons, lookup]
    split
    · rfl
    · exact ih

/-! ### the rule interpreter on each class -/

theorem evalV_text (p : Str) : evalV [[.str]] p = true := by
  simp [evalV, evalAll, evalAtom, List.foldlM]

theorem evalV_textOr (ws : List Str) (p : Str) : evalV [[.str], [.inn ws]] p = true := by
  simp [evalV, evalAll, evalAtom, List.foldlM]

theorem evalV_lit (l p : Str) : evalV [[.lit l]] p = true ↔ p = l := by
  simp only [evalV, evalAll, evalAtom, List.foldlM, List.any_cons, List.any_nil, Bool.or_false]
  by_cases h : p = l <;> simp [h]

theorem evalV_inn (ws : List Str) (p : Str) : evalV [[.inn ws]] p = true ↔ p ∈ ws := by
  simp only [evalV, evalAll, evalAtom, List.foldlM, List.any_cons, List.any_nil, Bool.or_false]
  by_cases h : p ∈ ws <;> simp [h]

theorem evalAll_intRange (lo hi : Int) (p : Str) :
    (evalAll [.coerceInt, .range lo hi, .coerceStr] (.str p)).isSome = true ↔
      ∃ n, pyInt p = some n ∧ lo ≤ n ∧ n ≤ hi := by
  simp only [evalAll, List.foldlM, evalAtom]
  cases h : pyInt p with
  | none => simp
  | some n =>
    simp only [Option.map_some, Option.bind_eq_bind, Option.bind_some]
    by_cases hr : lo ≤ n ∧ n ≤ hi
    · simp [hr]
    · simp [hr]

theorem evalAll_intRange' (lo hi : Int) (p : Str) :
    (evalAll [.coerceInt, .range lo hi] (.str p)).isSome = true ↔
      ∃ n, pyInt p = some n ∧ lo ≤ n ∧ n ≤ hi := by
  simp only [evalAll, List.foldlM, evalAtom]
  cases h : pyInt p with
  | none => simp
  | some n =>
    simp only [Option.map_some, Option.bind_eq_bind, Option.bind_some]
    by_cases hr : lo ≤ n ∧ n ≤ hi
    · simp [hr]
    · simp [hr]

theorem evalAll_int (p : Str) :
    (evalAll [.coerceInt, .coerceStr] (.str p)).isSome = (pyInt p).isSome := by
  simp only [evalAll, List.foldlM, evalAtom]
  cases h : pyInt p <;> simp

theorem evalAll_lit (l p : Str) : (evalAll [.lit l] (.str p)).isSome = true ↔ p = l := by
  simp only [evalAll, List.foldlM, evalAtom]
  by_cases h : p = l <;> simp [h]

theorem evalAll_frange (loT hiT lo hi : Rat) (p : Str) :
    (evalAll [.coerceFloat, .frange loT true hiT true lo hi, .coerceStr] (.str p)).isSome = true ↔
      ∃ q, pyFloat p = some (.fin q) ∧ loT ≤ q ∧ q ≤ hiT := by
  simp only [evalAll, List.foldlM, evalAtom]
  cases h : pyFloat p with
  | none => simp
  | some f =>
    cases f with
    | nan => simp
    | inf n => simp
    | fin q =>
      simp only [Option.map_some, Option.bind_eq_bind, Option.bind_some, ratLe]
      by_cases hr : loT ≤ q ∧ q ≤ hiT
      · simp [hr]
      · simp [hr]

theorem evalAll_strFn (f : FnId) (p : Str) :
    (evalAll [.str, .fn f] (.str p)).isSome = evalFn f p := by
  simp only [evalAll, List.foldlM, evalAtom]
  cases h : evalFn f p <;> simp [h]

theorem evalAll_fn (f : FnId) (p : Str) :
    (evalAll [.fn f] (.str p)).isSome = evalFn f p := by
  simp only [evalAll, List.foldlM, evalAtom]
  cases h : evalFn f p <;> simp

theorem evalV_single (atoms : List Atom) (p : Str) :
    evalV [atoms] p = (evalAll atoms (.str p)).isSome := by
  simp [evalV]

theorem isHexStr_len (p : Str) (n : Nat) (hn : n % 2 = 0) :
    (p.length == n && isHexStr p) = true ↔ p.length = n ∧ ∀ c ∈ p, isHexDigit c = true := by
  simp only [isHexStr, Bool.and_eq_true, beq_iff_eq, List.all_eq_true]
  constructor
  · rintro ⟨h1, h2, _⟩; exact ⟨h1, h2⟩
  · rintro ⟨h1, h2⟩; exact ⟨h1, h2, by rw [h1]; exact hn⟩

theorem isGps_iff (p : Str) : isGps p = true ↔ ∃ a b c, splitOn ',' p = [a, b, c] ∧
    (pyFloat a).isSome = true ∧ (pyFloat b).isSome = true ∧ (pyFloat c).isSome = true := by
  unfold isGps
  split
  · rename_i a b c h
    simp only [Bool.and_eq_true, h]
    constructor
    · rintro ⟨⟨h1, h2⟩, h3⟩; exact ⟨a, b, c, rfl, h1, h2, h3⟩
    · rintro ⟨a', b', c', he, h1, h2, h3⟩
      simp at he
      obtain ⟨rfl, rfl, rfl⟩ := he
      exact ⟨⟨h1, h2⟩, h3⟩
  · rename_i hne
    constructor
    · intro h; cases h
    · rintro ⟨a, b, c, he, _⟩
      exact absurd he (hne a b c)

/-- every rule class, interpreted by the model of voluptuous, means what the reference says -/
theorem evalV_ruleOfClass (rc : RuleClass) (p : Str) :
    evalV (ruleOfClass rc) p = true ↔ classSem rc p := by
  cases rc with
  | text => simp [ruleOfClass, classSem, evalV_text]
  | textOr ws => simp [ruleOfClass, classSem, evalV_textOr]
  | empty => simpa [ruleOfClass, classSem] using evalV_lit [] p
  | binary =>
    simp only [ruleOfClass, classSem]
    rw [evalV_inn]; simp
  | enum ws => simpa [ruleOfClass, classSem] using evalV_inn ws p
  | percentInt => simp only [ruleOfClass, classSem, evalV_single]; exact evalAll_intRange 0 100 p
  | percentFloat =>
    simp only [ruleOfClass, classSem, evalV_single, percentFrange]; exact evalAll_frange _ _ _ _ p
  | unitFloat =>
    simp only [ruleOfClass, classSem, evalV_single, unitFrange]; exact evalAll_frange _ _ _ _ p
  | int => simp only [ruleOfClass, classSem, evalV_single, evalAll_int]
  | nodeId1 => simp only [ruleOfClass, classSem, evalV_single]; exact evalAll_intRange 1 254 p
  | nodeId0 => simp only [ruleOfClass, classSem, evalV_single]; exact evalAll_intRange 0 254 p
  | config =>
    simp only [ruleOfClass, classSem, evalV, List.any_cons, List.any_nil, Bool.or_false,
      Bool.or_eq_true, evalAll_intRange', evalAll_lit]
  | time =>
    simp only [ruleOfClass, classSem, evalV, List.any_cons, List.any_nil, Bool.or_false,
      Bool.or_eq_true, evalAll_lit, evalAll_int]
  | rgb =>
    simp only [ruleOfClass, classSem, evalV_single, evalAll_strFn, evalFn]
    exact isHexStr_len p 6 rfl
  | rgbw =>
    simp only [ruleOfClass, classSem, evalV_single, evalAll_strFn, evalFn]
    exact isHexStr_len p 8 rfl
  | gps =>
    simp only [ruleOfClass, classSem, evalV_single, evalAll_strFn, evalFn]
    exact isGps_iff p
  | version =>
    simp only [ruleOfClass, classSem, evalV_single, evalAll_fn, evalFn]
    cases isVersion p with
    | none => simp
    | some b => cases b <;> simp

/-! ### the header clauses on the translated tables -/

theorem tables_consts (c : ConstId) :
    (Tables.tables c).mtPresentation = 0 ∧ (Tables.tables c).mtInternal = 3 ∧
    (Tables.tables c).mtStream = 4 ∧ (Tables.tables c).iIdRequest = some 3 ∧
    (Tables.tables c).iIdResponse = some 4 ∧ (Tables.tables c).messageTypes = [0, 1, 2, 3, 4] ∧
    Tables.systemChildId = 255 ∧ Tables.broadcastId = 255 := by
  cases c <;> exact ⟨rfl, rfl, rfl, rfl, rfl, rfl, rfl, rfl⟩

theorem headerOk_iff (t : VTables) (m : Msg) : headerOk t m = true ↔
    (0 ≤ m.node ∧ m.node ≤ Tables.broadcastId) ∧ childOk t m = true ∧ typeOk t m = true ∧
    (m.ack = 0 ∨ m.ack = 1) ∧ (subTypesOf t m.type).contains m.sub = true := by
  simp [headerOk, and_assoc]

theorem childOk_iff (c : ConstId) (m : Msg) : childOk (Tables.tables c) m = true ↔
    ((m.type = 3 ∧ (m.sub = 3 ∨ m.sub = 4)) ∨ ((m.type = 3 ∨ m.type = 4) ∧ m.child = 255) ∨
     (¬ (m.type = 3 ∨ m.type = 4) ∧ 0 ≤ m.child ∧ m.child ≤ 255)) := by
  obtain ⟨_, h3, h4, hq, hr, _, hs, _⟩ := tables_consts c
  unfold childOk
  rw [h3, h4, hq, hr, hs]
  simp only [Option.some.injEq]
  split
  · simp_all
  · split
    · simp_all
    · simp_all

theorem typeOk_iff (c : ConstId) (m : Msg) : typeOk (Tables.tables c) m = true ↔
    ((m.child = 255 ∧ (m.type = 0 ∨ m.type = 3 ∨ m.type = 4)) ∨
     (m.child ≠ 255 ∧ (m.type = 0 ∨ m.type = 1 ∨ m.type = 2 ∨ m.type = 3 ∨ m.type = 4))) := by
  obtain ⟨h0, h3, h4, _, _, hl, hs, _⟩ := tables_consts c
  unfold typeOk
  rw [h0, h3, h4, hl, hs]
  split
  · simp_all
  · simp_all

theorem getD_contains_iff (t s : Int) (l : List (Int × List Int)) :
    ((lookup t l).getD []).contains s = true ↔ ∃ subs, lookup t l = some subs ∧ s ∈ subs := by
  cases lookup t l with
  | none => simp
  | some subs => simp

/-! ### finite checks and their soundness for all integers -/

def subsetTables (a b : List (Int × List Int)) : Bool :=
  a.all fun kv => kv.2.all fun s => ((lookup kv.1 b).getD []).contains s

theorem subsetTables_sound (a b : List (Int × List Int)) (h : subsetTables a b = true) (t s : Int)
    (hs : ((lookup t a).getD []).contains s = true) : ((lookup t b).getD []).contains s = true := by
  rw [getD_contains_iff] at hs
  obtain ⟨subs, hl, hm⟩ := hs
  simp only [subsetTables, List.all_eq_true] at h
  exact h (t, subs) (lookup_some_mem t subs a hl) s hm

/-- every defined sub-type has a payload rule without `opaque` atoms -/
def payloadsTotal (t : VTables) : Bool :=
  t.subTypes.all fun kv => kv.2.all fun s =>
    match lookup (kv.1, s) t.payloads with
    | some r => !ruleHasOpaque r
    | none => false

theorem payloadsTotal_sound (t : VTables) (h : payloadsTotal t = true) (ty s : Int)
    (hs : (subTypesOf t ty).contains s = true) :
    ∃ r, lookup (ty, s) t.payloads = some r ∧ ruleHasOpaque r = false := by
  unfold subTypesOf at hs
  rw [getD_contains_iff] at hs
  obtain ⟨subs, hl, hm⟩ := hs
  simp only [payloadsTotal, List.all_eq_true] at h
  have := h (ty, subs) (lookup_some_mem ty subs _ hl) s hm
  cases hr : lookup (ty, s) t.payloads with
  | none => simp [hr] at this
  | some r => exact ⟨r, rfl, by simpa [hr] using this⟩

/-- every presentation type has a child-value schema without `opaque` atoms -/
def schemasTotal (t : VTables) : Bool :=
  (subTypesOf t t.mtPresentation).all fun p =>
    match childSchema t p with
    | some sch => sch.all fun kr => !ruleHasOpaque kr.2
    | none => false

theorem schemasTotal_sound (t : VTables) (h : schemasTotal t = true) (p : Int)
    (hp : (subTypesOf t t.mtPresentation).contains p = true) :
    ∃ sch, childSchema t p = some sch ∧ ∀ kr ∈ sch, ruleHasOpaque kr.2 = false := by
  simp only [schemasTotal, List.all_eq_true] at h
  have := h p (by simpa using hp)
  cases hr : childSchema t p with
  | none => simp [hr] at this
  | some sch =>
    refine ⟨sch, rfl, ?_⟩
    intro kr hk
    simp only [hr, List.all_eq_true] at this
    simpa using this kr hk

end MySensors
