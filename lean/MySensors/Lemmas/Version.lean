/- Lemmas about the version model: rendered dotted-numeric strings parse back to their sections. -/
import MySensors.Model.Version
import MySensors.Lemmas.Int

namespace MySensors

/-- `"M.m"` / `"M.m.p"` / … : the decimal sections joined by dots -/
def renderSections (v : List Nat) : Str := joinWith '.' (v.map renderNat)

/-- every section is within CPython's integer digit limit -/
def sectionsWithinLimit (v : List Nat) : Prop :=
  ∀ n ∈ v, (natDigits n).length ≤ PyTables.intMaxDigits

theorem digitChar_props2 : ∀ d : Fin 10,
    digitChar d.val ≠ '.' ∧ digitChar d.val ≠ 'v' ∧ digitChar d.val ≠ 'V' ∧
    digitChar d.val ≠ 'l' ∧ digitChar d.val ≠ 'd' ∧ digitChar d.val ≠ 's' ∧
    digitChar d.val ≠ 'b' := by decide

/-! ### shape of a rendered version -/

theorem renderNat_noDot (n : Nat) : '.' ∉ renderNat n := by
  intro h
  rcases renderNat_chars n _ h with ⟨d, hd⟩
  exact (digitChar_props2 d).1 hd.symm

theorem renderNat_last (n : Nat) : ∃ d : Fin 10, (renderNat n).getLast? = some (digitChar d.val) := by
  cases h : (renderNat n).getLast? with
  | none => exact absurd (List.getLast?_eq_none_iff.mp h) (renderNat_ne_nil n)
  | some c =>
    rcases renderNat_chars n c (List.mem_of_getLast? h) with ⟨d, rfl⟩
    exact ⟨d, rfl⟩

theorem joinWith_head (d : Char) (f : Str) (fs : List Str) (hf : f ≠ []) :
    (joinWith d (f :: fs)).head? = f.head? := by
  cases fs with
  | nil => rfl
  | cons g gs =>
    cases f with
    | nil => exact absurd rfl hf
    | cons c cs => rfl

theorem joinWith_last (d : Char) (fs : List Str) (hne : fs ≠ []) (hf : ∀ f ∈ fs, f ≠ []) :
    ∃ f ∈ fs, (joinWith d fs).getLast? = f.getLast? := by
  induction fs with
  | nil => exact absurd rfl hne
  | cons f gs ih =>
    cases gs with
    | nil => exact ⟨f, by simp, rfl⟩
    | cons g gs =>
      obtain ⟨f', hf', hl⟩ := ih (by simp) (fun x hx => hf x (by simp [hx]))
      refine ⟨f', by simp at hf' ⊢; exact Or.inr hf', ?_⟩
      have hne' : joinWith d (g :: gs) ≠ [] := by
        intro he
        have hg := hf g (by simp)
        cases gs with
        | nil => exact hg (by simpa [joinWith] using he)
        | cons k ks =>
          cases g with
          | nil => exact hg rfl
          | cons c cs => simp [joinWith] at he
      rw [joinWith, ← hl, List.getLast?_append]
      cases h : (d :: joinWith d (g :: gs)).getLast? with
      | none => simp at h
      | some c =>
        rw [List.getLast?_cons_of_ne_nil hne'] at h
        simp [h]

theorem renderSections_head (v : List Nat) (hv : v ≠ []) :
    ∃ d : Fin 10, ∃ t, renderSections v = digitChar d.val :: t := by
  cases v with
  | nil => exact absurd rfl hv
  | cons n ns =>
    rcases renderNat_head n with ⟨d, t, ht⟩
    simp only [renderSections, List.map_cons]
    rw [ht]
    cases ns.map renderNat with
    | nil => exact ⟨d, t, rfl⟩
    | cons g gs => exact ⟨d, _, rfl⟩

theorem renderSections_last (v : List Nat) (hv : v ≠ []) :
    ∃ d : Fin 10, (renderSections v).getLast? = some (digitChar d.val) := by
  have hne : v.map renderNat ≠ [] := by simpa using hv
  obtain ⟨f, hf, hl⟩ := joinWith_last '.' (v.map renderNat) hne (by
    intro f hf
    simp only [List.mem_map] at hf
    rcases hf with ⟨n, _, rfl⟩
    exact renderNat_ne_nil n)
  simp only [List.mem_map] at hf
  rcases hf with ⟨n, _, rfl⟩
  rcases renderNat_last n with ⟨d, hd⟩
  exact ⟨d, by rw [renderSections, hl, hd]⟩

theorem strip_renderSections (v : List Nat) (hv : v ≠ []) :
    strip (renderSections v) = renderSections v := by
  rcases renderSections_head v hv with ⟨d, t, ht⟩
  rcases renderSections_last v hv with ⟨e, he⟩
  unfold strip
  have h1 : lstripBy isSpace (renderSections v) = renderSections v := by
    apply lstripBy_fixed
    intro c hc
    rw [ht] at hc; simp at hc; subst hc
    exact (digitChar_props d).1
  rw [h1]
  apply rstripBy_fixed
  intro c hc
  rw [he] at hc; cases hc
  exact (digitChar_props e).1

theorem dropTrailingDot_of_last (s : Str) (c : Char) (h : s.getLast? = some c) (hc : c ≠ '.') :
    dropTrailingDot s = s := by
  rcases List.eq_nil_or_concat s with rfl | ⟨xs, x, rfl⟩
  · rfl
  · rw [List.concat_eq_append] at h ⊢
    simp at h; subst h
    unfold dropTrailingDot
    rw [popLast_append_singleton]
    split
    · rename_i i heq; simp at heq; exact absurd heq.2 hc
    · rfl

theorem dropPrefix_of_head (c : Char) (t : Str) (h1 : c ≠ 'v') (h2 : c ≠ 'V') :
    dropPrefix (c :: t) = c :: t := by
  unfold dropPrefix
  split
  · rename_i r heq; simp at heq; exact absurd heq.1 h1
  · rename_i r heq; simp at heq; exact absurd heq.1 h2
  · rfl

theorem versionString_renderSections (v : List Nat) (hv : v ≠ []) :
    versionString (renderSections v) = renderSections v := by
  rcases renderSections_head v hv with ⟨d, t, ht⟩
  rcases renderSections_last v hv with ⟨e, he⟩
  unfold versionString
  rw [strip_renderSections v hv, dropTrailingDot_of_last _ _ he (digitChar_props2 e).1, ht]
  exact dropPrefix_of_head _ _ (digitChar_props2 d).2.1 (digitChar_props2 d).2.2.1

theorem isContainerWord_digit (d : Fin 10) (t : Str) : isContainerWord (digitChar d.val :: t) = false := by
  have h := digitChar_props2 d
  simp only [isContainerWord, Bool.or_eq_false_iff, decide_eq_false_iff_not]
  refine ⟨⟨⟨?_, ?_⟩, ?_⟩, ?_⟩ <;> intro he <;> simp at he
  · exact h.2.2.2.1 he.1
  · exact h.2.2.2.2.1 he.1
  · exact h.2.2.2.2.2.1 he.1
  · exact h.2.2.2.2.2.2 he.1

/-! ### parsing a rendered version -/

theorem mapM_digitVal_digits (ds : List Nat) (h : ∀ d ∈ ds, d < 10) :
    (ds.map digitChar).mapM digitVal = some ds := by
  induction ds with
  | nil => rfl
  | cons d ds ih =>
    have hd := h d (by simp)
    simp only [List.map_cons, List.mapM_cons, digitVal_digitChar' d hd]
    rw [ih (fun x hx => h x (by simp [hx]))]
    rfl

theorem parseSection_renderNat (n : Nat) (h : (natDigits n).length ≤ PyTables.intMaxDigits) :
    parseSection (renderNat n) = some n := by
  unfold parseSection
  have h1 : (renderNat n).isEmpty = false := by
    cases hr : renderNat n with
    | nil => exact absurd hr (renderNat_ne_nil n)
    | cons c cs => rfl
  have h2 : ¬ PyTables.intMaxDigits < (renderNat n).length := by
    simp only [renderNat, List.length_map]; omega
  simp only [h1, Bool.false_or, decide_eq_true_eq, h2, ↓reduceIte]
  rw [renderNat, mapM_digitVal_digits _ (natDigits_lt n)]
  simp [ofDigits_natDigits]

theorem mapM_parseSection (v : List Nat) (h : sectionsWithinLimit v) :
    (v.map renderNat).mapM parseSection = some v := by
  induction v with
  | nil => rfl
  | cons n ns ih =>
    simp only [List.map_cons, List.mapM_cons, parseSection_renderNat n (h n (by simp))]
    rw [ih (fun x hx => h x (by simp [hx]))]
    rfl

/-- a rendered version parses back to exactly its sections -/
theorem parseVersion_renderSections (v : List Nat) (hv : v ≠ []) (hl : sectionsWithinLimit v) :
    parseVersion (renderSections v) = some v := by
  unfold parseVersion
  rw [versionString_renderSections v hv, renderSections,
    splitOn_join '.' (v.map renderNat) (by simpa using hv) (by
      intro f hf
      simp only [List.mem_map] at hf
      rcases hf with ⟨n, _, rfl⟩
      exact renderNat_noDot n)]
  exact mapM_parseSection v hl

theorem parseVersion_14 : parseVersion ['1', '.', '4'] = some [1, 4] := by decide

/-- `is_version` on a rendered version: accepted iff not below 1.4 -/
theorem isVersion_renderSections (v : List Nat) (hv : v ≠ []) (hl : sectionsWithinLimit v) :
    isVersion (renderSections v) = some (!(sectionsLt v [1, 4])) := by
  have hp := parseVersion_renderSections v hv hl
  have hs := versionString_renderSections v hv
  rcases renderSections_head v hv with ⟨d, t, ht⟩
  unfold isVersion
  rw [hs]
  by_cases h14 : renderSections v = ['1', '.', '4']
  · rw [h14, parseVersion_14] at hp
    cases hp
    simp [h14, sectionsLt]
  · simp only [h14, ↓reduceIte]
    rw [ht, isContainerWord_digit d t, ← ht]
    simp [hp]

theorem selectConstSections_14 : selectConstSections [1, 4] = .v14 := by
  simp [selectConstSections, sectionsLt]

/-- `get_const(safe_is_version(s))` on a rendered version -/
theorem selectConst_renderSections (v : List Nat) (hv : v ≠ []) (hl : sectionsWithinLimit v) :
    selectConst (renderSections v) =
      some (if sectionsLt v [1, 4] then .v14 else selectConstSections v) := by
  have hp := parseVersion_renderSections v hv hl
  have hs := versionString_renderSections v hv
  rcases renderSections_head v hv with ⟨d, t, ht⟩
  unfold selectConst safeVersion
  rw [isVersion_renderSections v hv hl]
  cases hlt : sectionsLt v [1, 4] with
  | true =>
    simp only [Bool.not_true, Option.map_some, Bool.false_eq_true, ↓reduceIte]
    have : versionString ['1', '.', '4'] = ['1', '.', '4'] := by decide
    rw [this, parseVersion_14]
    have : isContainerWord ['1', '.', '4'] = false := by decide
    simp [this, selectConstSections_14]
  | false =>
    simp only [Bool.not_false, Option.map_some, ↓reduceIte]
    rw [hs, ht, isContainerWord_digit d t, ← ht, hp]
    simp

/-! ### small literals -/

theorem renderNat_small (n : Nat) (h : n < 10) : renderNat n = [digitChar n] := by
  rw [renderNat, natDigits]; simp [h]

theorem small_within (n : Nat) (h : n < 10) : (natDigits n).length ≤ PyTables.intMaxDigits := by
  rw [natDigits]; simp [h]; decide

theorem sectionsWithinLimit_small (v : List Nat) (h : ∀ n ∈ v, n < 10) : sectionsWithinLimit v :=
  fun n hn => small_within n (h n hn)

/-! ### strings without any digit -/

theorem mem_joinWith_of_mem (d : Char) (fs : List Str) (f : Str) (hf : f ∈ fs) (c : Char) (hc : c ∈ f) :
    c ∈ joinWith d fs := by
  induction fs with
  | nil => simp at hf
  | cons g gs ih =>
    cases gs with
    | nil => simp at hf; subst hf; simpa [joinWith] using hc
    | cons k ks =>
      simp only [joinWith, List.mem_append, List.mem_cons]
      rcases List.mem_cons.mp hf with rfl | hf'
      · exact Or.inl hc
      · exact Or.inr (Or.inr (ih hf'))

/-- a character of a field of `s.split(d)` is a character of `s` -/
theorem mem_of_mem_splitOn (d : Char) (s f : Str) (hf : f ∈ splitOn d s) (c : Char) (hc : c ∈ f) : c ∈ s := by
  have := mem_joinWith_of_mem d (splitOn d s) f hf c hc
  rwa [join_splitOn] at this

theorem parseSection_some_hasDigit (f : Str) (n : Nat) (h : parseSection f = some n) :
    ∃ c ∈ f, (digitVal c).isSome = true := by
  unfold parseSection at h
  split at h
  · cases h
  · rename_i hne
    cases f with
    | nil => simp at hne
    | cons c cs =>
      refine ⟨c, by simp, ?_⟩
      simp only [List.mapM_cons, Option.map_eq_some_iff] at h
      obtain ⟨ds, hds, _⟩ := h
      cases hd : digitVal c with
      | none => simp [hd] at hds
      | some d => rfl

/-- a string that parses as dotted-numeric sections contains a digit -/
theorem parseVersion_some_hasDigit (s : Str) (v : List Nat) (h : parseVersion s = some v) :
    hasDigit (versionString s) = true := by
  unfold parseVersion at h
  cases hs : splitOn '.' (versionString s) with
  | nil => exact absurd hs (splitOn_ne_nil _ _)
  | cons f fs =>
    rw [hs] at h
    simp only [List.mapM_cons] at h
    cases hp : parseSection f with
    | none => simp [hp] at h
    | some n =>
      obtain ⟨c, hc, hd⟩ := parseSection_some_hasDigit f n hp
      have hmem : c ∈ versionString s := mem_of_mem_splitOn '.' _ f (by rw [hs]; simp) c hc
      simp only [hasDigit, List.any_eq_true]
      exact ⟨c, hmem, hd⟩

/-- `is_version` rejects every digit-free string other than the four container words -/
theorem isVersion_noDigit (s : Str) (hd : hasDigit (versionString s) = false)
    (hc : isContainerWord (versionString s) = false) : isVersion s = some false := by
  unfold isVersion
  have h14 : versionString s ≠ ['1', '.', '4'] := by
    intro h; rw [h] at hd; revert hd; decide
  simp only [h14, ↓reduceIte, hc, Bool.false_eq_true]
  cases hp : parseVersion s with
  | some v => rw [parseVersion_some_hasDigit s v hp] at hd; cases hd
  | none => simp [hd]

end MySensors
