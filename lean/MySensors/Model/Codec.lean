/-
  Model of `mysensors/message.py`: `Message.decode`, `Message.encode`, `Message.copy`.
-/
import MySensors.Py.Int

namespace MySensors

structure Msg where
  node : Int
  child : Int
  type : Int
  ack : Int
  sub : Int
  payload : Str
  deriving DecidableEq, Repr, Inhabited

/-- `Message.decode`: `none` is the ValueError the dispatcher catches -/
def decode (data : Str) : Option Msg :=
  match popLast (splitOn ';' (rstrip data)) with
  | none => none
  | some (hdr, payload) =>
    match hdr.map pyInt with
    | [some n, some c, some t, some a, some s] => some ⟨n, c, t, a, s, payload⟩
    | _ => none

/-- `Message.encode` with an arbitrary delimiter: `none` is the `None` returned after the
    ValueError of the integer digit limit -/
def encodeWith (d : Char) (m : Msg) : Option Str :=
  match pyStrInt m.node, pyStrInt m.child, pyStrInt m.type, pyStrInt m.ack, pyStrInt m.sub with
  | some n, some c, some t, some a, some s => some (joinWith d [n, c, t, a, s, m.payload] ++ ['\n'])
  | _, _, _, _, _ => none

def encode (m : Msg) : Option Str := encodeWith ';' m

/-- the canonical line of a message -/
def canon (m : Msg) : Str :=
  joinWith ';' [renderInt m.node, renderInt m.child, renderInt m.type, renderInt m.ack,
    renderInt m.sub, m.payload] ++ ['\n']

/-- keyword arguments of `copy` / `modify` -/
structure Kw where
  node : Option Int := none
  child : Option Int := none
  type : Option Int := none
  ack : Option Int := none
  sub : Option Int := none
  payload : Option Str := none
  deriving DecidableEq, Repr

def Msg.modify (m : Msg) (kw : Kw) : Msg :=
  { node := kw.node.getD m.node, child := kw.child.getD m.child, type := kw.type.getD m.type,
    ack := kw.ack.getD m.ack, sub := kw.sub.getD m.sub, payload := kw.payload.getD m.payload }

/-- `Message.copy(**kw)` = decode (encode self) then setattr.  `none` = the copy raised
    (encode returned None → `Message(None)` keeps defaults — modelled below — or decode
    raised ValueError). -/
inductive CopyResult
  | ok (m : Msg)
  | raised
  deriving DecidableEq, Repr

def Msg.copy (m : Msg) (kw : Kw) : CopyResult :=
  match encode m with
  | none =>
    -- `Message(None, gateway)`: data is None, nothing decoded, defaults 0/""
    .ok ((⟨0, 0, 0, 0, 0, []⟩ : Msg).modify kw)
  | some line =>
    match decode line with
    | some m' => .ok (m'.modify kw)
    | none => .raised

def carryable (p : Str) : Prop := ';' ∉ p ∧ endsNonSpace p

def intsWithinLimit (m : Msg) : Prop :=
  numDigits m.node ≤ PyTables.intMaxDigits ∧ numDigits m.child ≤ PyTables.intMaxDigits ∧
  numDigits m.type ≤ PyTables.intMaxDigits ∧ numDigits m.ack ≤ PyTables.intMaxDigits ∧
  numDigits m.sub ≤ PyTables.intMaxDigits

end MySensors
