/-
  Model of the inbound byte framing:

    serial.threaded.Packetizer.data_received   (pyserial 3.5)
        self.buffer.extend(data)
        while self.TERMINATOR in self.buffer:
            packet, self.buffer = self.buffer.split(self.TERMINATOR, 1)
            self.handle_packet(packet)
    serial.threaded.LineReader.handle_packet   → handle_line(packet.decode('utf-8', 'replace'))
    BaseMySensorsProtocol.TERMINATOR = b"\n";  handle_line → tasks.add_job(gateway.logic, line)
    TCPTransport.run: data = sock.recv(120); protocol.data_received(data)

  Bytes are `Nat`s; the decoder is a parameter `dec : Bytes → Str` (applied per complete packet,
  exactly as the code does), so nothing below depends on what UTF-8 decoding does.
-/
import MySensors.Py.Str

namespace MySensors

abbrev Bytes := List Nat

/-- `b"\n"` -/
def nl : Nat := 10

/-- `buffer.split(TERMINATOR, 1)` when the terminator occurs: (packet, rest); `none` when the
    terminator is not in the buffer (the `while` condition is false) -/
def splitOnce : Bytes → Option (Bytes × Bytes)
  | [] => none
  | b :: bs =>
    if b = nl then some ([], bs)
    else
      match splitOnce bs with
      | none => none
      | some pr => some (b :: pr.1, pr.2)

/-- the `while TERMINATOR in buffer` loop, with the number of iterations bounded by `fuel`
    (the buffer length suffices: every iteration removes at least the terminator) -/
def packetLoop : Nat → Bytes → List Bytes × Bytes
  | 0, buf => ([], buf)
  | fuel + 1, buf =>
    match splitOnce buf with
    | none => ([], buf)
    | some pr =>
      let r := packetLoop fuel pr.2
      (pr.1 :: r.1, r.2)

/-- protocol object state: the Packetizer buffer -/
structure Framer where
  buffer : Bytes := []
  deriving DecidableEq, Repr

/-- `data_received(data)`: new buffer and the lines handed to `handle_line`, in order -/
def dataReceived (dec : Bytes → Str) (f : Framer) (data : Bytes) : Framer × List Str :=
  let buf := f.buffer ++ data
  let r := packetLoop buf.length buf
  ({ buffer := r.2 }, r.1.map dec)

/-- a sequence of `data_received` calls: final buffer and all lines delivered, in order -/
def feedAll (dec : Bytes → Str) (f : Framer) : List Bytes → Framer × List Str
  | [] => (f, [])
  | c :: cs =>
    let r := dataReceived dec f c
    let r' := feedAll dec r.1 cs
    (r'.1, r.2 ++ r'.2)

/-- what the TCP reader thread does with a stream the socket returns in pieces of at most `n`
    bytes (`sock.recv(120)`): the pieces, greedy -/
def chunksAux {α} (n : Nat) : List α → List α → List (List α)
  | [], cur => if cur.isEmpty then [] else [cur]
  | x :: xs, cur =>
    if cur.length + 1 ≥ n then (cur ++ [x]) :: chunksAux n xs [] else chunksAux n xs (cur ++ [x])

def chunksOf {α} (n : Nat) (s : List α) : List (List α) := chunksAux n s []

/-- specification side: the complete '\n'-terminated segments of a stream and its
    unterminated tail, by structural recursion from the front -/
def segments : Bytes → List Bytes × Bytes
  | [] => ([], [])
  | b :: bs =>
    let r := segments bs
    if b = nl then ([] :: r.1, r.2)
    else
      match r.1 with
      | [] => ([], b :: r.2)
      | p :: ps => ((b :: p) :: ps, r.2)

/-! ### the TCP reader thread

    TCPTransport.run (gateway_tcp.py):   while self.alive:
                                             data = self.sock.recv(120)      # when readable
                                             if data: self.protocol.data_received(data)
                                             self._check_connection(); time.sleep(0.02)
  `reads` are the results of the successive `recv` calls (`none`: the socket was not readable in
  that iteration, `some []`: a read that returned nothing).  Only a non-empty read reaches the
  protocol. -/
def tcpReader (dec : Bytes → Str) (f : Framer) : List (Option Bytes) → Framer × List Str
  | [] => (f, [])
  | none :: rs => tcpReader dec f rs
  | some d :: rs =>
    if d.isEmpty then tcpReader dec f rs
    else
      let r := dataReceived dec f d
      let r' := tcpReader dec r.1 rs
      (r'.1, r.2 ++ r'.2)

/-- the bytes the socket delivered, in order -/
def readBytes : List (Option Bytes) → Bytes
  | [] => []
  | none :: rs => readBytes rs
  | some d :: rs => d ++ readBytes rs

/-! ### connection events between the `data_received` calls

  Every gateway class hands ONE protocol object to every connection it ever makes
  (`lambda: transport.protocol` in `sync_connect` / `async_connect` of gateway_serial.py and
  gateway_tcp.py), and neither `BaseMySensorsProtocol.connection_lost` / `_connection_lost` nor
  `connection_made` touches the Packetizer buffer.  `keep = true` is that code: the
  unterminated tail of a lost connection is still in the buffer when the next connection
  delivers bytes.  `keep = false` is the other policy a protocol class could follow and still
  satisfy C19 (the buffer is emptied when the connection is lost); it exists so that the
  correspondence can tell the two apart from a third behaviour (a tail handed over as a line, a
  complete line lost). -/

inductive ConnEv where
  /-- `data_received(bytes)` -/
  | data (bytes : Bytes)
  /-- `connection_lost(exc)` (with or without an error: the framing does not look at it) -/
  | lost
  /-- `connection_made(transport)` on the same protocol object -/
  | made
  deriving DecidableEq, Repr

def connStep (keep : Bool) (dec : Bytes → Str) (f : Framer) : ConnEv → Framer × List Str
  | .data b => dataReceived dec f b
  | .lost => (if keep then f else {}, [])
  | .made => (f, [])

def feedEvents (keep : Bool) (dec : Bytes → Str) (f : Framer) : List ConnEv → Framer × List Str
  | [] => (f, [])
  | e :: es =>
    let r := connStep keep dec f e
    let r' := feedEvents keep dec r.1 es
    (r'.1, r.2 ++ r'.2)

/-- the chunks of an event sequence, connection boundaries forgotten -/
def dataOf : List ConnEv → List Bytes
  | [] => []
  | .data b :: es => b :: dataOf es
  | .lost :: es => dataOf es
  | .made :: es => dataOf es

/-- the byte stream of each connection (a new one starts at every `lost`); never empty -/
def sessions : List ConnEv → List Bytes
  | [] => [[]]
  | .data b :: es =>
    match sessions es with
    | [] => [b]
    | s :: ss => (b ++ s) :: ss
  | .lost :: es => [] :: sessions es
  | .made :: es => sessions es

/-- specification of the `keep = false` policy: the complete segments of every connection's
    own stream (`buf` is what the buffer held before the first one) -/
def sessLines (dec : Bytes → Str) (buf : Bytes) : List Bytes → List Str
  | [] => []
  | s :: ss => (segments (buf ++ s)).1.map dec ++ sessLines dec [] ss

end MySensors
