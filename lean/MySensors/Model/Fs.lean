/-
  Abstract file store of the persistence layer and the file operations of
  `Persistence.save_sensors`, `_load_sensors`, `safe_load_sensors` (mysensors/persistence.py).

  Three paths: the persistence file (`main`), `<file>.bak` (`bak`) and `<base>.tmp<ext>` (`tmp`).
  A file is absent or has a content and a flag "its data has reached the disk" (`synced`).
  Contents are symbolic: `whole s` is a complete serialisation of the state `s : σ` (σ is any
  type, so every theorem holds for every network state), `empty` a zero-length file, `damaged`
  any content the parser rejects with one of the exception classes `safe_load_sensors` catches
  (truncated, zero-filled, half-written), `hostile` a content whose parse raises any *other*
  exception class (it exists in the model so that the assumption "damaged content is classified
  as bad content" is visible: see `Parse.otherError`).

  File-system assumptions (DESIGN.md section 2): `rename` and `remove` are atomic and persist in
  program order; data persists only after `fsync`; a crash keeps every directory operation done
  so far and may replace every not yet synced content by an empty or damaged one.
-/
namespace MySensors.Fs

inductive Data (σ : Type) where
  | whole (s : σ)
  | empty
  | damaged
  | hostile
  deriving DecidableEq, Repr

structure File (σ : Type) where
  data : Data σ
  synced : Bool
  deriving DecidableEq, Repr

structure Store (σ : Type) where
  main : Option (File σ) := none
  bak : Option (File σ) := none
  tmp : Option (File σ) := none
  deriving DecidableEq, Repr

/-- outcome of `json.load` / `pickle.load` (+ decoder hooks) on a file's content -/
inductive Parse (σ : Type) where
  | ok (s : σ)
  /-- EOFError, ValueError (incl. JSONDecodeError, UnicodeDecodeError), pickle.UnpicklingError -/
  | badContent
  /-- any other exception class: not caught by `safe_load_sensors` -/
  | otherError
  deriving DecidableEq, Repr

def parse {σ} : Data σ → Parse σ
  | .whole s => .ok s
  | .empty => .badContent
  | .damaged => .badContent
  | .hostile => .otherError

/-! ### saving -/

/-- the file-system operations of one `save_sensors` call, in program order -/
inductive FsOp where
  /-- `open(tmp, "w"/"wb")`: creates or truncates the temp file -/
  | openTmp
  /-- the `write` calls of `json.dump` / `pickle.dump` (buffered; the file is incomplete) -/
  | write
  /-- `file_handle.flush()`: the complete text reaches the operating system -/
  | flush
  /-- `os.fsync(file_handle.fileno())` -/
  | fsync
  /-- leaving the `with` block -/
  | close
  /-- `os.rename(fname, persistence_bak)` (only when the file existed) -/
  | renMainBak
  /-- `os.rename(tmp_fname, fname)` -/
  | renTmpMain
  /-- `os.remove(persistence_bak)` (only when the file existed) -/
  | rmBak
  deriving DecidableEq, Repr

/-- `exists_` is `os.path.isfile(fname)` evaluated before anything is written -/
def saveOps (exists_ : Bool) : List FsOp :=
  if exists_ then [.openTmp, .write, .flush, .fsync, .close, .renMainBak, .renTmpMain, .rmBak]
  else [.openTmp, .write, .flush, .fsync, .close, .renTmpMain]

def syncFile {σ} (f : File σ) : File σ := { f with synced := true }

/-- effect of one operation that completes (`new` is the state being saved) -/
def step {σ} (new : σ) (st : Store σ) : FsOp → Store σ
  | .openTmp => { st with tmp := some ⟨.empty, false⟩ }
  | .write => { st with tmp := some ⟨.damaged, false⟩ }
  | .flush => { st with tmp := some ⟨.whole new, false⟩ }
  | .fsync => { st with tmp := st.tmp.map syncFile }
  | .close => st
  | .renMainBak => { st with bak := st.main, main := none }
  | .renTmpMain => { st with main := st.tmp, tmp := none }
  | .rmBak => { st with bak := none }

def run {σ} (new : σ) : List FsOp → Store σ → Store σ
  | [], st => st
  | op :: ops, st => run new ops (step new st op)

def fileExists {σ} (st : Store σ) : Bool := st.main.isSome

/-- a complete `save_sensors()` (with `need_save` set) -/
def save {σ} (new : σ) (st : Store σ) : Store σ := run new (saveOps (fileExists st)) st

/-! ### crash -/

/-- what a crash does to the content of a file whose data was not yet synced -/
inductive Dmg where
  | keep | toEmpty | toDamaged
  deriving DecidableEq, Repr

structure Damage where
  main : Dmg := .keep
  bak : Dmg := .keep
  tmp : Dmg := .keep
  deriving DecidableEq, Repr

def crashFile {σ} (d : Dmg) (f : File σ) : File σ :=
  if f.synced then f else
    match d with
    | .keep => f
    | .toEmpty => ⟨.empty, false⟩
    | .toDamaged => ⟨.damaged, false⟩

def crash {σ} (d : Damage) (st : Store σ) : Store σ :=
  { main := st.main.map (crashFile d.main), bak := st.bak.map (crashFile d.bak), tmp := st.tmp.map (crashFile d.tmp) }

/-- the process dies (or the machine loses power) just before operation number `k` -/
def crashAt {σ} (new : σ) (k : Nat) (d : Damage) (st : Store σ) : Store σ :=
  crash d (run new ((saveOps (fileExists st)).take k) st)

/-- operation number `k` raises `OSError`; the operations before it completed, the rest is
    skipped (`save_sensors` re-raises after setting `need_save`).  Leaving the `with` block
    after a failing `write`/`flush`/`fsync` still closes the temp file, which may complete or
    lose its buffered content: the temp file's content is then `tmpAfter` (arbitrary). -/
def failAt {σ} (new : σ) (k : Nat) (tmpAfter : Option (File σ)) (st : Store σ) : Store σ :=
  let st' := run new ((saveOps (fileExists st)).take k) st
  match st'.tmp with
  | none => st'
  | some _ => { st' with tmp := tmpAfter.or st'.tmp }

/-! ### loading -/

inductive Loaded (σ : Type) where
  /-- `sensors.update(<decoded mapping>)` with one complete saved state -/
  | state (s : σ)
  /-- nothing loaded: the gateway starts with an empty network -/
  | emptyNet
  /-- an exception escaped `safe_load_sensors` -/
  | raised
  deriving DecidableEq, Repr

/-- second half of `safe_load_sensors`: `_load_sensors(persistence_bak)`.  An existing backup is
    first renamed onto the main path, then parsed; bad content removes it. -/
def loadBackup {σ} (st : Store σ) : Store σ × Loaded σ :=
  match st.bak with
  | none => (st, .emptyNet)
  | some fb =>
    match parse fb.data with
    | .ok s => ({ st with main := some fb, bak := none }, .state s)
    | .badContent => ({ st with main := none, bak := none }, .emptyNet)
    | .otherError => ({ st with main := some fb, bak := none }, .raised)

/-- `safe_load_sensors()` of a fresh gateway: the resulting store and what was loaded -/
def safeLoad {σ} (st : Store σ) : Store σ × Loaded σ :=
  match st.main with
  | none => loadBackup st
  | some fm =>
    match parse fm.data with
    | .ok s => (st, .state s)
    | .badContent => loadBackup st
    | .otherError => (st, .raised)

/-- what a start-up would load, without its side effects on the files -/
def loadable {σ} (st : Store σ) : Loaded σ := (safeLoad st).2

/-! ### prior on-disk configurations of C12 -/

inductive Cfg where
  | none | good | goodBak | goodTmp | goodBoth
  deriving DecidableEq, Repr

/-- `old` is the previously saved state (its file was written by an earlier complete save, so
    it is synced); a stale backup / temp file may hold anything, synced or not -/
def initial {σ} (cfg : Cfg) (old : σ) (staleBak staleTmp : File σ) : Store σ :=
  match cfg with
  | .none => {}
  | .good => { main := some ⟨.whole old, true⟩ }
  | .goodBak => { main := some ⟨.whole old, true⟩, bak := some staleBak }
  | .goodTmp => { main := some ⟨.whole old, true⟩, tmp := some staleTmp }
  | .goodBoth => { main := some ⟨.whole old, true⟩, bak := some staleBak, tmp := some staleTmp }

def oldOf {σ} (cfg : Cfg) (old : σ) : Loaded σ :=
  match cfg with
  | .none => .emptyNet
  | _ => .state old

end MySensors.Fs
