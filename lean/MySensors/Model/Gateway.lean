/-
  Model of the gateway core: `Gateway.logic`, `alert`, `add_sensor`, `_get_next_id`, `is_sensor`,
  `_route_message`, `set_child_value`, `create_message_to_set_sensor_value` (mysensors/__init__.py),
  every handler of handler.py incl. the smart-sleep flush, `Sensor`/`ChildSensor` state
  (sensor.py), the OTA session stores (ota.py) and — abstractly — `save_sensors`/load.

  The pump is the inline one (the asyncio flavour's `add_job`: a job's reply is sent at once);
  the threaded pump's ordering is the subject of C19.  Python dicts are insertion-ordered
  association lists.  Exceptions that would escape are explicit (`Out.exc`).
-/
import MySensors.Model.Validate
import MySensors.Model.Ota

namespace MySensors

/-! ### insertion-ordered dictionaries -/

def aget {ν} (k : Int) : List (Int × ν) → Option ν
  | [] => none
  | (k', v) :: rest => if k = k' then some v else aget k rest

/-- `d[k] = v`: replace in place, or append -/
def aset {ν} (k : Int) (v : ν) : List (Int × ν) → List (Int × ν)
  | [] => [(k, v)]
  | (k', v') :: rest => if k = k' then (k', v) :: rest else (k', v') :: aset k v rest

def aerase {ν} (k : Int) : List (Int × ν) → List (Int × ν)
  | [] => []
  | (k', v') :: rest => if k = k' then rest else (k', v') :: aerase k rest

def akeys {ν} (l : List (Int × ν)) : List Int := l.map (·.1)

/-! ### state -/

structure Child where
  id : Int
  type : Int
  desc : Str
  values : List (Int × Str) := []
  deriving DecidableEq

structure Node where
  id : Int
  children : List (Int × Child) := []
  type : Option Int := none
  sketchName : Option Str := none
  sketchVersion : Option Str := none
  battery : Int := 0
  version : Str := ['1', '.', '4']
  heartbeat : Int := 0
  /-- `new_state`: child id ↦ (value type ↦ desired value or None) -/
  desired : List (Int × List (Int × Option Str)) := []
  /-- withheld lines, oldest first -/
  queue : List Str := []
  reboot : Bool := false
  deriving DecidableEq

def Node.sleeping (n : Node) : Bool := !n.desired.isEmpty

structure OtaState where
  firmware : List ((Int × Int) × Fw) := []
  requested : List (Int × (Int × Int)) := []
  unstarted : List (Int × (Int × Int)) := []
  started : List (Int × (Int × Int)) := []
  deriving DecidableEq

inductive Kind | base | tcp | mqtt
  deriving DecidableEq, Repr

/-- what persistence keeps of a node -/
structure PNode where
  id : Int
  children : List (Int × Child)
  type : Option Int
  sketchName : Option Str
  sketchVersion : Option Str
  battery : Int
  version : Str
  heartbeat : Int
  deriving DecidableEq

def Node.persisted (n : Node) : PNode :=
  ⟨n.id, n.children, n.type, n.sketchName, n.sketchVersion, n.battery, n.version, n.heartbeat⟩

def PNode.restore (p : PNode) : Node :=
  { id := p.id, children := p.children, type := p.type, sketchName := p.sketchName, sketchVersion := p.sketchVersion, battery := p.battery, version := p.version, heartbeat := p.heartbeat }

structure GW where
  const : ConstId
  kind : Kind := .base
  sensors : List (Int × Node) := []
  ota : OtaState := {}
  metric : Bool := true
  clock : Int := 0
  canLog : Bool := false
  /-- persistence enabled -/
  persist : Bool := false
  needSave : Bool := true
  /-- the saved file: `none` = no file yet -/
  disk : Option (List (Int × PNode)) := none
  deriving DecidableEq

def GW.persisted (g : GW) : List (Int × PNode) := g.sensors.map fun (k, n) => (k, n.persisted)

inductive Exc | valueError | volInvalid | keyError | structError | typeError
  deriving DecidableEq, Repr

structure Out where
  sent : List Str := []
  cbs : List Msg := []
  subs : List (Int × Int) := []     -- MQTT: (node, child) whose topics were subscribed
  exc : Option Exc := none
  deriving DecidableEq

def Out.append (a b : Out) : Out :=
  { sent := a.sent ++ b.sent, cbs := a.cbs ++ b.cbs, subs := a.subs ++ b.subs, exc := a.exc.or b.exc }

instance : Append Out := ⟨Out.append⟩

def GW.t (g : GW) : VTables := Tables.tables g.const

def noneStr : Str := "None".toList

/-- text handed to the transport / stored in a hold queue for a message -/
def encLine (m : Msg) : Str := (encode m).getD noneStr

def setNode (g : GW) (n : Node) : GW := { g with sensors := aset n.id n g.sensors }

/-- `Gateway.alert` -/
def alert (g : GW) (m : Msg) : GW × Out :=
  ({ g with needSave := if g.persist then true else g.needSave }, { cbs := [m] })

/-- `Gateway._route_message` on a message -/
def route (g : GW) (m : Msg) : GW × List Str :=
  if m.type = g.t.mtPresentation then (g, [])
  else
    match aget m.node g.sensors with
    | none => (g, [encLine m])
    | some n =>
      if m.type = g.t.mtStream ∨ !n.sleeping then (g, [encLine m])
      else (setNode g { n with queue := n.queue ++ [encLine m] }, [])

/-- `Gateway.is_sensor`: known?  For ≥ 2.0 an unknown node/child triggers one I_PRESENTATION
    request to the node (routed: withheld when the node sleeps). -/
def isSensor (g : GW) (node : Int) (child : Option Int) : Bool × GW × List Str :=
  let known :=
    match aget node g.sensors with
    | none => false
    | some n => match child with
      | none => true
      | some c => (aget c n.children).isSome
  if known then (true, g, [])
  else if g.const.ge20 then
    match g.t.iPresentation with
    | none => (false, g, [])
    | some sub =>
      let (g', sent) := route g ⟨node, Tables.systemChildId, g.t.mtInternal, 0, sub, []⟩
      (false, g', sent)
  else (false, g, [])

/-- `Gateway._get_next_id` -/
def nextId (g : GW) : Option Int :=
  let nxt := match akeys g.sensors with
    | [] => 1
    | k :: ks => ks.foldl max k + 1
  if nxt ≤ g.t.maxNodeId then some nxt else none

/-- `Gateway.add_sensor(sensorid)` for an explicit id (new nodes mark the state unsaved) -/
def addSensor (g : GW) (id : Int) : GW :=
  match aget id g.sensors with
  | some _ => g
  | none => { g with sensors := g.sensors ++ [(id, { id := id })], needSave := if g.persist then true else g.needSave }

/-- `create_message_to_set_sensor_value`: the message, or the exception raised -/
def createSetMessage (g : GW) (node child : Int) (vt : Option Int) (value : Str) (ack : Int) :
    Except Exc Msg :=
  match vt with
  | none => .error .valueError
  | some vt =>
    let m : Msg := ⟨node, child, g.t.mtSet, ack, vt, value⟩
    match encode m with
    | none => .error .valueError
    | some _ => if validate g.const m then .ok m else .error .volInvalid

/-- `Sensor.validate_child_state` against the node's own protocol version -/
def validateChildState (n : Node) (child : Int) (vt : Option Int) (value : Str) : Except Exc Unit :=
  match vt with
  | none => .error .valueError
  | some vt =>
    let c := (selectConst n.version).getD .v14
    let m : Msg := ⟨n.id, child, (Tables.tables c).mtSet, 0, vt, value⟩
    match encode m with
    | none => .error .valueError
    | some _ => if validate c m then .ok () else .error .volInvalid

/-- `init_smart_sleep_mode` -/
def initSleep (n : Node) : Node :=
  let d := n.children.foldl
    (fun d (cid, _) => match aget cid d with | some _ => d | none => d ++ [(cid, [])]) n.desired
  { n with desired := d }

/-- the set commands of a wake-up: one per (child, reported value type) with a pending desired
    value; stops at the first command that cannot be built -/
def wakeSets (g : GW) (n : Node) : List Str × Option Exc :=
  let pairs : List (Int × Int × Str) := n.children.flatMap fun (cid, ch) =>
    match aget cid n.desired with
    | none => []
    | some dv => ch.values.filterMap fun (vt, _) =>
        match aget vt dv with
        | some (some v) => some (cid, vt, v)
        | _ => none
  pairs.foldl (fun (acc : List Str × Option Exc) (cid, vt, v) =>
    match acc.2 with
    | some _ => acc
    | none =>
      match createSetMessage g n.id cid (some vt) v 0 with
      | .ok m => (acc.1 ++ [encLine m], none)
      | .error e => (acc.1, some e)) ([], none)

/-- `handle_smartsleep` for a known node -/
def smartSleep (g : GW) (node : Int) : GW × Out :=
  match aget node g.sensors with
  | none => (g, { exc := some .keyError })
  | some n =>
    let n1 := initSleep n
    let flushed := n1.queue
    let n2 := { n1 with queue := [] }
    let g2 := setNode g n2
    let (sets, e) := wakeSets g2 n2
    (g2, { sent := flushed ++ sets, exc := e })

/-- reply of a handler: copy of the request with replaced fields, routed -/
def replyCopy (g : GW) (m : Msg) (kw : Kw) : GW × Out :=
  match m.copy kw with
  | .raised => (g, { exc := some .valueError })
  | .ok r => let (g', sent) := route g r; (g', { sent := sent })

def seq (r : GW × Out) (f : GW → GW × Out) : GW × Out :=
  match r.2.exc with
  | some _ => r
  | none => let r' := f r.1; (r'.1, r.2 ++ r'.2)

/-! ### OTA -/

def otaConfigResponse (g : GW) (m : Msg) : GW × Option Msg × Option Exc :=
  match fwHexToInt m.payload 5 with
  | none => (g, none, none)
  | some _ =>
    let o := g.ota
    let pick : Option ((Int × Int) × OtaState) :=
      match aget m.node o.requested with
      | some fid => some (fid, { o with requested := aerase m.node o.requested, unstarted := aset m.node fid o.unstarted })
      | none =>
        match aget m.node o.unstarted with
        | some fid => some (fid, { o with unstarted := aset m.node fid (aerase m.node o.unstarted) })
        | none => none
    match pick with
    | none => (g, none, none)
    | some (fid, o') =>
      let g' := { g with ota := o' }
      match lookup fid o'.firmware, g.t.stConfigResponse with
      | some fw, some sub =>
        match m.copy { sub := some sub } with
        | .raised => (g', none, some .valueError)
        | .ok r =>
          match fwIntToHex [fid.1.toNat, fid.2.toNat, fw.blocks, fw.crc] with
          | some p => (g', some { r with payload := p }, none)
          | none => (g', none, some .structError)
      | _, _ => (g', none, none)

def otaBlockResponse (g : GW) (m : Msg) : GW × Option Msg × Option Exc :=
  match fwHexToInt m.payload 3 with
  | some [rt, rv, blk] =>
    let o := g.ota
    let pick : Option OtaState :=
      match aget m.node o.unstarted with
      | some fid => some { o with unstarted := aerase m.node o.unstarted, started := aset m.node fid o.started }
      | none =>
        match aget m.node o.started with
        | some fid => some { o with started := aset m.node fid (aerase m.node o.started) }
        | none => none
    match pick with
    | none => (g, none, none)
    | some o' =>
      let g' := { g with ota := o' }
      match lookup ((rt : Int), (rv : Int)) o'.firmware, g.t.stResponse with
      | some fw, some sub =>
        match m.copy { sub := some sub } with
        | .raised => (g', none, some .valueError)
        | .ok r =>
          match fwIntToHex [rt, rv, blk] with
          | some p => (g', some { r with payload := p ++ hexBytes (fwBlock fw.data blk) }, none)
          | none => (g', none, some .structError)
      | _, _ => (g', none, none)
  | _ => (g, none, none)

/-- `OTAFirmware.make_update` with integer type/version -/
def makeUpdate (g : GW) (nids : List Int) (fwt fwv : Int) (image : Option (List Nat)) : GW :=
  if ¬ (0 ≤ fwt ∧ fwt ≤ 0xFFFF ∧ 0 ≤ fwv ∧ fwv ≤ 0xFFFF) then g else
  let stored : Option (List ((Int × Int) × Fw)) :=
    match image with
    | none => some g.ota.firmware
    | some img =>
      let fw := prepareFw img
      if fw.blocks > 0xFFFF then none
      else some (
        match lookup (fwt, fwv) g.ota.firmware with
        | some _ => g.ota.firmware.map fun (k, v) => if k = (fwt, fwv) then (k, fw) else (k, v)
        | none => g.ota.firmware ++ [((fwt, fwv), fw)])
  match stored with
  | none => g
  | some firmware =>
    let g1 := { g with ota := { g.ota with firmware := firmware } }
    if (lookup (fwt, fwv) firmware).isNone then g1 else
    nids.foldl (fun g nid =>
      match aget nid g.sensors with
      | none => g
      | some n =>
        let o := g.ota
        let o' : OtaState := { o with unstarted := aerase nid o.unstarted, started := aerase nid o.started, requested := aset nid (fwt, fwv) o.requested }
        let g' := { g with ota := o' }
        setNode g' { n with reboot := true }) g1

/-! ### handlers -/

def updateChildValue (n : Node) (child vt : Int) (v : Str) : Node :=
  match aget child n.children with
  | none => n
  | some ch =>
    let n' := { n with children := aset child { ch with values := aset vt v ch.values } n.children }
    match aget child n'.desired with
    | none => n'
    | some dv => { n' with desired := aset child (aset vt none dv) n'.desired }

/-- desired-or-actual value of `get_desired_value` -/
def desiredValue (n : Node) (child vt : Int) : Option Str :=
  match aget child n.children with
  | none => none
  | some ch =>
    let d : Option Str :=
      if n.sleeping then
        match aget child n.desired with
        | some dv => (aget vt dv).join
        | none => none
      else none
    match d with
    | some v => some v
    | none => aget vt ch.values

def handlePresentation (g : GW) (m : Msg) : GW × Out × Bool :=
  if m.child = Tables.systemChildId then
    let g1 := addSensor g m.node
    match aget m.node g1.sensors with
    | none => (g1, {}, false)
    | some n =>
      let ver := (safeVersion m.payload).getD ['1', '.', '4']
      let g2 := setNode g1 { n with type := some m.sub, version := ver, reboot := false }
      let (g3, o) := alert g2 m
      (g3, o, true)
  else
    let (ok, g1, sent) := isSensor g m.node none
    if !ok then (g1, { sent := sent }, false)
    else
      match aget m.node g1.sensors with
      | none => (g1, {}, false)
      | some n =>
        match aget m.child n.children with
        | some _ => (g1, {}, false)
        | none =>
          let g2 := setNode g1 { n with children := n.children ++ [(m.child, ⟨m.child, m.sub, m.payload, []⟩)] }
          let (g3, o) := alert g2 m
          (g3, o, true)

def handleSet (g : GW) (m : Msg) : GW × Out :=
  let (ok, g1, sent) := isSensor g m.node (some m.child)
  if !ok then (g1, { sent := sent })
  else
    match aget m.node g1.sensors with
    | none => (g1, { exc := some .keyError })
    | some n =>
      let n' := updateChildValue n m.child m.sub m.payload
      let g2 := setNode g1 n'
      seq (alert g2 m) fun g3 =>
        if n'.reboot then
          match g3.t.iReboot with
          | some sub =>
            replyCopy g3 m { child := some Tables.systemChildId, type := some g3.t.mtInternal, ack := some 0, sub := some sub, payload := some [] }
          | none => (g3, { exc := some .keyError })
        else (g3, {})

def handleReq (g : GW) (m : Msg) : GW × Out :=
  let (ok, g1, sent) := isSensor g m.node (some m.child)
  if !ok then (g1, { sent := sent })
  else
    match aget m.node g1.sensors with
    | none => (g1, { exc := some .keyError })
    | some n =>
      match desiredValue n m.child m.sub with
      | none => (g1, {})
      | some v => replyCopy g1 m { type := some g1.t.mtSet, payload := some v }

def knownNodeThen (g : GW) (m : Msg) (f : GW → Node → GW × Out) : GW × Out :=
  let (ok, g1, sent) := isSensor g m.node none
  if !ok then (g1, { sent := sent })
  else
    match aget m.node g1.sensors with
    | none => (g1, { exc := some .keyError })
    | some n => f g1 n

def handleInternalBy (h : HandlerId) (g : GW) (m : Msg) : GW × Out :=
  match h with
  | .handle_id_request =>
    match nextId g with
    | none => (g, {})
    | some id =>
      let g1 := addSensor g id
      match g1.t.iIdResponse with
      | some sub => replyCopy g1 m { ack := some 0, sub := some sub, payload := some (renderInt id) }
      | none => (g1, { exc := some .keyError })
  | .handle_config =>
    replyCopy g m { ack := some 0, payload := some (if g.metric then ['M'] else ['I']) }
  | .handle_time => replyCopy g m { ack := some 0, payload := some (renderInt g.clock) }
  | .handle_battery_level =>
    knownNodeThen g m fun g1 n =>
      let b : Int := match pyInt m.payload with
        | some v => if 0 ≤ v ∧ v ≤ 100 then v else 0
        | none => 0
      alert (setNode g1 { n with battery := b }) m
  | .handle_sketch_name =>
    knownNodeThen g m fun g1 n => alert (setNode g1 { n with sketchName := some m.payload }) m
  | .handle_sketch_version =>
    knownNodeThen g m fun g1 n => alert (setNode g1 { n with sketchVersion := some m.payload }) m
  | .handle_log_message => ({ g with canLog := true }, {})
  | .handle_gateway_ready => alert g m
  | .handle_gateway_ready_20 =>
    seq (alert g m) fun g1 =>
      match g1.t.iDiscover with
      | some sub => replyCopy g1 m { node := some 255, ack := some 0, sub := some sub, payload := some [] }
      | none => (g1, { exc := some .keyError })
  | .handle_heartbeat_response =>
    knownNodeThen g m fun g1 _ =>
      seq (smartSleep g1 m.node) fun g2 =>
        match aget m.node g2.sensors with
        | none => (g2, { exc := some .keyError })
        | some n => alert (setNode g2 { n with heartbeat := (pyInt m.payload).getD 0 }) m
  | .handle_discover_response =>
    let (_, g1, sent) := isSensor g m.node none
    (g1, { sent := sent })
  | .handle_heartbeat_response_22 =>
    knownNodeThen g m fun g1 n =>
      alert (setNode g1 { n with heartbeat := (pyInt m.payload).getD 0 }) m
  | .handle_pre_sleep_notification =>
    knownNodeThen g m fun g1 _ => smartSleep g1 m.node
  | _ => (g, { exc := some .typeError })

def handleStream (g : GW) (m : Msg) : GW × Out :=
  knownNodeThen g m fun g1 _ =>
    match lookup m.sub g1.t.streamHandlers with
    | none => (g1, {})
    | some h =>
      let (g2, reply, e) :=
        match h with
        | .handle_firmware_config_request => otaConfigResponse g1 m
        | .handle_firmware_request => otaBlockResponse g1 m
        | _ => (g1, none, some .typeError)
      match e with
      | some e => (g2, { exc := some e })
      | none =>
        seq (alert g2 m) fun g3 =>
          match reply with
          | none => (g3, {})
          | some r => let (g4, sent) := route g3 r; (g4, { sent := sent })

def handleInternal (g : GW) (m : Msg) : GW × Out :=
  if g.kind = .tcp ∧ some m.sub = g.t.iVersion then (g, {})      -- TCP: watchdog answer, no reply
  else
    match lookup m.sub g.t.internalHandlers with
    | none => (g, {})
    | some h => handleInternalBy h g m

/-- dispatch of a decoded and validated message -/
def dispatch (g : GW) (m : Msg) : GW × Out :=
  match lookup m.type g.t.typeHandlers with
  | none => (g, { exc := some .typeError })
  | some .handle_presentation =>
    let (g', o, added) := handlePresentation g m
    -- MQTT: a newly presented child gets its topics subscribed
    if g.kind = .mqtt ∧ added ∧ m.child ≠ 255 then (g', o ++ { subs := [(m.node, m.child)] }) else (g', o)
  | some .handle_set => handleSet g m
  | some .handle_req => handleReq g m
  | some .handle_internal => handleInternal g m
  | some .handle_stream => handleStream g m
  | some _ => (g, { exc := some .typeError })

/-- `Gateway.logic(line)` through the inline pump -/
def logic (g : GW) (line : Str) : GW × Out :=
  match decode line with
  | none => (g, {})
  | some m => if validate g.const m then dispatch g m else (g, {})

/-! ### controller calls -/

inductive VT | int (n : Int) | str (s : Str)
  deriving DecidableEq

def VT.toInt : VT → Option Int
  | .int n => some n
  | .str s => pyInt s

/-- `Gateway.set_child_value(node, child, value_type, value, ack=…)` -/
def setChildValue (g : GW) (node child : Int) (vt : VT) (value : Str) (ack : Option Int) : GW × Out :=
  let (ok, g1, sent) := isSensor g node (some child)
  if !ok then (g1, { sent := sent })
  else
    match aget node g1.sensors with
    | none => (g1, { exc := some .keyError })
    | some n =>
      match createSetMessage g1 node child vt.toInt value (ack.getD 0) with
      | .error e => (g1, { exc := some e })
      | .ok msg =>
        if n.sleeping then
          match aget child n.desired with
          | none => (g1, { exc := some .valueError })
          | some dv =>
            match validateChildState n child vt.toInt value, vt.toInt with
            | .error e, _ => (g1, { exc := some e })
            | .ok _, none => (g1, { exc := some .valueError })
            | .ok _, some vti =>
              (setNode g1 { n with desired := aset child (aset vti (some value) dv) n.desired }, {})
        else (g1, { sent := [encLine msg] })

/-! ### persistence (abstract: the file holds the persisted projection) -/

def save (g : GW) : GW :=
  if g.persist ∧ g.needSave then { g with disk := some g.persisted, needSave := false } else g

/-- a fresh gateway of the same configuration loading the file -/
def restart (g : GW) : GW :=
  let loaded := if g.persist then (g.disk.getD []).map (fun (k, p) => (k, p.restore)) else []
  { const := g.const, kind := g.kind, persist := g.persist, disk := g.disk, clock := g.clock, sensors := loaded }

inductive Op
  | line (s : Str)
  | setValue (node child : Int) (vt : VT) (value : Str) (ack : Option Int)
  | update (nids : List Int) (fwt fwv : Int) (image : Option (List Nat))
  | clock (t : Int)
  | metric (b : Bool)
  | saveTick
  | stop
  | restart
  deriving DecidableEq

/-- `MQTTTransport.send` re-decodes every outgoing line to build the topic and drops (logs) a
    line that does not decode; the serial / TCP transports write the text as it is. -/
def transportFilter (g : GW) (r : GW × Out) : GW × Out :=
  if g.kind = .mqtt then (r.1, { r.2 with sent := r.2.sent.filter fun l => (decode l).isSome }) else r

def step (g : GW) : Op → GW × Out
  | .line s => transportFilter g (logic g s)
  | .setValue n c vt v a => transportFilter g (setChildValue g n c vt v a)
  | .update nids t v img => (makeUpdate g nids t v img, {})
  | .clock t => ({ g with clock := t }, {})
  | .metric b => ({ g with metric := b }, {})
  | .saveTick => (save g, {})
  | .stop => (save g, {})
  | .restart => (restart g, {})

def run (g : GW) : List Op → GW
  | [] => g
  | op :: ops => run (step g op).1 ops

end MySensors
