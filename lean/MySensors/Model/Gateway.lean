/-
  Model of the gateway core: `Gateway.logic`, `alert`, `add_sensor`, `_get_next_id`, `is_sensor`,
  `_route_message`, `set_child_value`, `create_message_to_set_sensor_value` (mysensors/__init__.py),
  every handler of handler.py incl. the smart-sleep flush, `Sensor`/`ChildSensor` state
  (sensor.py), the OTA session stores (ota.py) and — abstractly — `save_sensors`/load.

  The pump is the inline one (the asyncio flavour's `add_job`: a job's reply is sent at once);
  the threaded pump's ordering is the subject of C19.  Python dicts are insertion-ordered
  association lists.  Exceptions that would escape are explicit (`Out.exc`).
-/
import MySensors.Model.Validate
import MySensors.Model.Ota

namespace MySensors

/-! ### insertion-ordered dictionaries -/

def aget {ν} (k : Int) : List (Int × ν) → Option ν
  | [] => none
  | (k', v) :: rest => if k = k' then some v else aget k rest

/-- `d[k] = v`: replace in place, or append -/
def aset {ν} (k : Int) (v : ν) : List (Int × ν) → List (Int × ν)
  | [] => [(k, v)]
  | (k', v') :: rest => if k = k' then (k', v) :: rest else (k', v') :: aset k v rest

def aerase {ν} (k : Int) : List (Int × ν) → List (Int × ν)
  | [] => []
  | (k', v') :: rest => if k = k' then rest else (k', v') :: aerase k rest

def akeys {ν} (l : List (Int × ν)) : List Int := l.map (·.1)

/-! ### state -/

structure Child where
  id : Int
  type : Int
  desc : Str
  values : List (Int × Str) := []
  deriving DecidableEq

structure Node where
  id : Int
  children : List (Int × Child) := []
  type : Option Int := none
  sketchName : Option Str := none
  sketchVersion : Option Str := none
  battery : Int := 0
  version : Str := ['1', '.', '4']
  heartbeat : Int := 0
  /-- `new_state`: child id ↦ (value type ↦ desired value or None) -/
  desired : List (Int × List (Int × Option Str)) := []
  /-- withheld lines, oldest first -/
  queue : List Str := []
  reboot : Bool := false
  deriving DecidableEq

def Node.sleeping (n : Node) : Bool := !n.desired.isEmpty

structure OtaState where
  firmware : List ((Int × Int) × Fw) := []
  requested : List (Int × (Int × Int)) := []
  unstarted : List (Int × (Int × Int)) := []
  started : List (Int × (Int × Int)) := []
  deriving DecidableEq

inductive Kind | base | tcp | mqtt
  deriving DecidableEq, Repr

/-- what persistence keeps of a node -/
structure PNode where
  id : Int
  children : List (Int × Child)
  type : Option Int
  sketchName : Option Str
  sketchVersion : Option Str
  battery : Int
  version : Str
  heartbeat : Int
  deriving DecidableEq

def Node.persisted (n : Node) : PNode :=
  ⟨n.id, n.children, n.type, n.sketchName, n.sketchVersion, n.battery, n.version, n.heartbeat⟩

def PNode.restore (p : PNode) : Node :=
  { id := p.id, children := p.children, type := p.type, sketchName := p.sketchName, sketchVersion := p.sketchVersion, battery := p.battery, version := p.version, heartbeat := p.heartbeat }

structure GW where
  const : ConstId
  kind : Kind := .base
  sensors : List (Int × Node) := []
  ota : OtaState := {}
  metric : Bool := true
  clock : Int := 0
  canLog : Bool := false
  /-- persistence enabled -/
  persist : Bool := false
  needSave : Bool := true
  /-- the saved file: `none` = no file yet -/
  disk : Option (List (Int × PNode)) := none
  deriving DecidableEq

def GW.persisted (g : GW) : List (Int × PNode) := g.sensors.map fun (k, n) => (k, n.persisted)

inductive Exc | valueError | volInvalid | keyError | structError | typeError
  deriving DecidableEq, Repr

structure Out where
  sent : List Str := []
  cbs : List Msg := []
  subs : List (Int × Int) := []     -- MQTT: (node, child) whose topics were subscribed
  exc : Option Exc := none
  deriving DecidableEq

def Out.append (a b : Out) : Out :=
  { sent := a.sent ++ b.sent, cbs := a.cbs ++ b.cbs, subs := a.subs ++ b.subs, exc := a.exc.or b.exc }

instance : Append Out := ⟨Out.append⟩

def GW.t (g : GW) : VTables := Tables.tables g.const

def noneStr : Str := "None".toList

/-- text handed to the transport / stored in a hold queue for a message -/
def encLine (m : Msg) : Str := (encode m).getD noneStr

/-- in-place mutation of the node object stored under key `k` -/
def setNode (g : GW) (k : Int) (n : Node) : GW := { g with sensors := aset k n g.sensors }

abbrev Res := GW × Out

def ret (g : GW) : Res := (g, {})
def emit (g : GW) (ls : List Str) : Res := (g, { sent := ls })
def fail (g : GW) (e : Exc) : Res := (g, { exc := some e })

/-- run `f` on the state reached by `r` unless `r` already raised; outputs accumulate -/
def seq (r : Res) (f : GW → Res) : Res :=
  match r.2.exc with
  | some _ => r
  | none => ((f r.1).1, r.2 ++ (f r.1).2)

/-- `Gateway.alert` -/
def alert (g : GW) (m : Msg) : Res :=
  ({ g with needSave := if g.persist then true else g.needSave }, { cbs := [m] })

/-- is a message for this destination withheld (smart-sleeping node, non-stream)? -/
def holds (g : GW) (m : Msg) : Bool :=
  match aget m.node g.sensors with
  | none => false
  | some n => !(m.type = g.t.mtStream) && n.sleeping

def enqueue (g : GW) (node : Int) (line : Str) : GW :=
  match aget node g.sensors with
  | none => g
  | some n => setNode g node { n with queue := n.queue ++ [line] }

/-- `Gateway._route_message` followed by the send of the encoded reply -/
def route (g : GW) (m : Msg) : Res :=
  if m.type = g.t.mtPresentation then ret g
  else if holds g m then ret (enqueue g m.node (encLine m))
  else emit g [encLine m]

def isKnown (g : GW) (node : Int) (child : Option Int) : Bool :=
  match aget node g.sensors with
  | none => false
  | some n =>
    match child with
    | none => true
    | some c => (aget c n.children).isSome

/-- for ≥ 2.0 an unknown node/child triggers one I_PRESENTATION request to the node (routed:
    withheld when the node sleeps) -/
def requestPresentation (g : GW) (node : Int) : Res :=
  if g.const.ge20 then
    match g.t.iPresentation with
    | none => ret g
    | some sub => route g ⟨node, Tables.systemChildId, g.t.mtInternal, 0, sub, []⟩
  else ret g

/-- `if not gateway.is_sensor(node, child): return None` around a handler body -/
def ifKnown (g : GW) (node : Int) (child : Option Int) (f : GW → Res) : Res :=
  if isKnown g node child then f g else requestPresentation g node

/-- `sensor = gateway.sensors[node]` -/
def withNode (g : GW) (node : Int) (f : Node → Res) : Res :=
  match aget node g.sensors with
  | none => fail g .keyError
  | some n => f n

/-- a table constant that must exist in this version (KeyError / AttributeError otherwise) -/
def withConst (g : GW) (o : Option Int) (f : Int → Res) : Res :=
  match o with
  | none => fail g .keyError
  | some a => f a

def nextCandidate (g : GW) : Int :=
  match akeys g.sensors with
  | [] => 1
  | k :: ks => ks.foldl max k + 1

/-- `Gateway._get_next_id` -/
def nextId (g : GW) : Option Int :=
  if nextCandidate g ≤ g.t.maxNodeId then some (nextCandidate g) else none

/-- `Gateway.add_sensor(sensorid)` for an explicit id (new nodes mark the state unsaved) -/
def addSensor (g : GW) (id : Int) : GW :=
  match aget id g.sensors with
  | some _ => g
  | none => { g with sensors := g.sensors ++ [(id, { id := id })], needSave := if g.persist then true else g.needSave }

/-- `create_message_to_set_sensor_value`: the message, or the exception raised -/
def createSetMessage (g : GW) (node child : Int) (vt : Option Int) (value : Str) (ack : Int) :
    Except Exc Msg :=
  match vt with
  | none => .error .valueError
  | some vt =>
    if (encode ⟨node, child, g.t.mtSet, ack, vt, value⟩).isNone then .error .valueError
    else if validate g.const ⟨node, child, g.t.mtSet, ack, vt, value⟩ then .ok ⟨node, child, g.t.mtSet, ack, vt, value⟩
    else .error .volInvalid

/-- `Sensor.validate_child_state` against the node's own protocol version -/
def validateChildState (n : Node) (child : Int) (vt : Option Int) (value : Str) : Except Exc Unit :=
  match vt with
  | none => .error .valueError
  | some vt =>
    let c := (selectConst n.version).getD .v14
    if (encode ⟨n.id, child, (Tables.tables c).mtSet, 0, vt, value⟩).isNone then .error .valueError
    else if validate c ⟨n.id, child, (Tables.tables c).mtSet, 0, vt, value⟩ then .ok ()
    else .error .volInvalid

def initDesired (d : List (Int × List (Int × Option Str))) (cid : Int) : List (Int × List (Int × Option Str)) :=
  match aget cid d with
  | some _ => d
  | none => d ++ [(cid, [])]

/-- `init_smart_sleep_mode` -/
def initSleep (n : Node) : Node :=
  { n with desired := (akeys n.children).foldl initDesired n.desired }

/-- pending (child, value type, value) triples in flush order: children in presentation order,
    value types in first-report order -/
def pendingOfChild (desired : List (Int × List (Int × Option Str))) (c : Int × Child) : List (Int × Int × Str) :=
  match aget c.1 desired with
  | none => []
  | some dv => c.2.values.filterMap fun kv =>
      match aget kv.1 dv with
      | some (some v) => some (c.1, kv.1, v)
      | _ => none

def pending (n : Node) : List (Int × Int × Str) := n.children.flatMap (pendingOfChild n.desired)

/-- build the set commands one by one; stop at the first that cannot be built -/
def buildSets (g : GW) (node : Int) : List (Int × Int × Str) → List Str × Option Exc
  | [] => ([], none)
  | (cid, vt, v) :: rest =>
    match createSetMessage g node cid (some vt) v 0 with
    | .error e => ([], some e)
    | .ok m => ((encLine m) :: (buildSets g node rest).1, (buildSets g node rest).2)

/-- `handle_smartsleep` for a known node -/
def smartSleep (g : GW) (node : Int) : Res :=
  withNode g node fun n =>
    let n2 : Node := { initSleep n with queue := [] }
    let sets := buildSets (setNode g node n2) n2.id (pending n2)
    (setNode g node n2, { sent := n.queue ++ sets.1, exc := sets.2 })

/-- reply of a handler: copy of the request with replaced fields, routed -/
def replyCopy (g : GW) (m : Msg) (kw : Kw) : Res :=
  match m.copy kw with
  | .raised => fail g .valueError
  | .ok r => route g r

/-! ### OTA -/

/-- `_get_fw` store migration for a config request: requested → unstarted, unstarted stays -/
def pickConfig (o : OtaState) (node : Int) : Option ((Int × Int) × OtaState) :=
  match aget node o.requested with
  | some fid => some (fid, { o with requested := aerase node o.requested, unstarted := aset node fid o.unstarted })
  | none =>
    match aget node o.unstarted with
    | some fid => some (fid, { o with unstarted := aset node fid (aerase node o.unstarted) })
    | none => none

/-- `_get_fw` store migration for a block request: unstarted → started, started stays -/
def pickBlock (o : OtaState) (node : Int) : Option OtaState :=
  match aget node o.unstarted with
  | some fid => some { o with unstarted := aerase node o.unstarted, started := aset node fid o.started }
  | none =>
    match aget node o.started with
    | some fid => some { o with started := aset node fid (aerase node o.started) }
    | none => none

/-- result of a stream handler: new state, reply message (if any), exception (if any) -/
structure StreamRes where
  g : GW
  reply : Option Msg := none
  exc : Option Exc := none

def configReply (g : GW) (m : Msg) (fid : Int × Int) (fw : Fw) (sub : Int) : StreamRes :=
  match m.copy { sub := some sub } with
  | .raised => { g := g, exc := some .valueError }
  | .ok r =>
    match fwIntToHex [fid.1.toNat, fid.2.toNat, fw.blocks, fw.crc] with
    | some p => { g := g, reply := some { r with payload := p } }
    | none => { g := g, exc := some .structError }

def otaConfigResponse (g : GW) (m : Msg) : StreamRes :=
  match fwHexToInt m.payload 5 with
  | none => { g := g }
  | some _ =>
    match pickConfig g.ota m.node with
    | none => { g := g }
    | some (fid, o') =>
      match lookup fid o'.firmware, g.t.stConfigResponse with
      | some fw, some sub => configReply { g with ota := o' } m fid fw sub
      | _, _ => { g := { g with ota := o' } }

def blockReply (g : GW) (m : Msg) (rt rv blk : Nat) (fw : Fw) (sub : Int) : StreamRes :=
  match m.copy { sub := some sub } with
  | .raised => { g := g, exc := some .valueError }
  | .ok r =>
    match fwIntToHex [rt, rv, blk] with
    | some p => { g := g, reply := some { r with payload := p ++ hexBytes (fwBlock fw.data blk) } }
    | none => { g := g, exc := some .structError }

def otaBlockResponse (g : GW) (m : Msg) : StreamRes :=
  match fwHexToInt m.payload 3 with
  | some [rt, rv, blk] =>
    match pickBlock g.ota m.node with
    | none => { g := g }
    | some o' =>
      match lookup ((rt : Int), (rv : Int)) o'.firmware, g.t.stResponse with
      | some fw, some sub => blockReply { g with ota := o' } m rt rv blk fw sub
      | _, _ => { g := { g with ota := o' } }
  | _ => { g := g }

def storeFirmware (fws : List ((Int × Int) × Fw)) (key : Int × Int) (fw : Fw) : List ((Int × Int) × Fw) :=
  match lookup key fws with
  | some _ => fws.map fun kv => if kv.1 = key then (kv.1, fw) else kv
  | none => fws ++ [(key, fw)]

def scheduleNode (fwt fwv : Int) (g : GW) (nid : Int) : GW :=
  match aget nid g.sensors with
  | none => g
  | some n =>
    let o' : OtaState := { g.ota with unstarted := aerase nid g.ota.unstarted, started := aerase nid g.ota.started, requested := aset nid (fwt, fwv) g.ota.requested }
    setNode { g with ota := o' } nid { n with reboot := true }

/-- `OTAFirmware.make_update` with integer type/version -/
def makeUpdate (g : GW) (nids : List Int) (fwt fwv : Int) (image : Option (List Nat)) : GW :=
  if ¬ (0 ≤ fwt ∧ fwt ≤ 0xFFFF ∧ 0 ≤ fwv ∧ fwv ≤ 0xFFFF) then g else
  match image with
  | some img =>
    if (prepareFw img).blocks > 0xFFFF then g
    else nids.foldl (scheduleNode fwt fwv) { g with ota := { g.ota with firmware := storeFirmware g.ota.firmware (fwt, fwv) (prepareFw img) } }
  | none =>
    if (lookup (fwt, fwv) g.ota.firmware).isNone then g
    else nids.foldl (scheduleNode fwt fwv) g

/-! ### handlers -/

def clearDesired (n : Node) (child vt : Int) : Node :=
  match aget child n.desired with
  | none => n
  | some dv => { n with desired := aset child (aset vt none dv) n.desired }

def updateChildValue (n : Node) (child vt : Int) (v : Str) : Node :=
  match aget child n.children with
  | none => n
  | some ch => clearDesired { n with children := aset child { ch with values := aset vt v ch.values } n.children } child vt

def pendingValue (n : Node) (child vt : Int) : Option Str :=
  if n.sleeping then
    match aget child n.desired with
    | some dv => (aget vt dv).join
    | none => none
  else none

/-- desired-or-actual value of `get_desired_value` -/
def desiredValue (n : Node) (child vt : Int) : Option Str :=
  match aget child n.children with
  | none => none
  | some ch => (pendingValue n child vt).or (aget vt ch.values)

def defaultVersion : Str := ['1', '.', '4']

def presentNode (g : GW) (m : Msg) : Res :=
  withNode (addSensor g m.node) m.node fun n =>
    alert (setNode (addSensor g m.node) m.node { n with type := some m.sub, version := (safeVersion m.payload).getD defaultVersion, reboot := false }) m

def presentChild (g : GW) (m : Msg) : Res :=
  ifKnown g m.node none fun g1 =>
    withNode g1 m.node fun n =>
      match aget m.child n.children with
      | some _ => ret g1
      | none => alert (setNode g1 m.node { n with children := n.children ++ [(m.child, ⟨m.child, m.sub, m.payload, []⟩)] }) m

def handlePresentation (g : GW) (m : Msg) : Res :=
  if m.child = Tables.systemChildId then presentNode g m else presentChild g m

/-- MQTT: did this presentation add a child (whose topics are then subscribed)? -/
def addsChild (g : GW) (m : Msg) : Bool :=
  !(m.child = Tables.systemChildId) && isKnown g m.node none && !isKnown g m.node (some m.child)

def rebootReply (g : GW) (m : Msg) (reboot : Bool) : Res :=
  if reboot then
    withConst g g.t.iReboot fun sub =>
      replyCopy g m { child := some Tables.systemChildId, type := some g.t.mtInternal, ack := some 0, sub := some sub, payload := some [] }
  else ret g

def handleSet (g : GW) (m : Msg) : Res :=
  ifKnown g m.node (some m.child) fun g1 =>
    withNode g1 m.node fun n =>
      seq (alert (setNode g1 m.node (updateChildValue n m.child m.sub m.payload)) m) fun g3 =>
        rebootReply g3 m n.reboot

def handleReq (g : GW) (m : Msg) : Res :=
  ifKnown g m.node (some m.child) fun g1 =>
    withNode g1 m.node fun n =>
      match desiredValue n m.child m.sub with
      | none => ret g1
      | some v => replyCopy g1 m { type := some g1.t.mtSet, payload := some v }

def batteryOf (p : Str) : Int :=
  match pyInt p with
  | some v => if 0 ≤ v ∧ v ≤ 100 then v else 0
  | none => 0

def handleIdRequest (g : GW) (m : Msg) : Res :=
  match nextId g with
  | none => ret g
  | some id =>
    withConst (addSensor g id) (addSensor g id).t.iIdResponse fun sub =>
      replyCopy (addSensor g id) m { ack := some 0, sub := some sub, payload := some (renderInt id) }

def handleHeartbeat (g : GW) (m : Msg) : Res :=
  withNode g m.node fun n => alert (setNode g m.node { n with heartbeat := (pyInt m.payload).getD 0 }) m

def handleInternalBy (h : HandlerId) (g : GW) (m : Msg) : Res :=
  match h with
  | .handle_id_request => handleIdRequest g m
  | .handle_config => replyCopy g m { ack := some 0, payload := some (if g.metric then ['M'] else ['I']) }
  | .handle_time => replyCopy g m { ack := some 0, payload := some (renderInt g.clock) }
  | .handle_battery_level =>
    ifKnown g m.node none fun g1 => withNode g1 m.node fun n =>
      alert (setNode g1 m.node { n with battery := batteryOf m.payload }) m
  | .handle_sketch_name =>
    ifKnown g m.node none fun g1 => withNode g1 m.node fun n =>
      alert (setNode g1 m.node { n with sketchName := some m.payload }) m
  | .handle_sketch_version =>
    ifKnown g m.node none fun g1 => withNode g1 m.node fun n =>
      alert (setNode g1 m.node { n with sketchVersion := some m.payload }) m
  | .handle_log_message => ret { g with canLog := true }
  | .handle_gateway_ready => alert g m
  | .handle_gateway_ready_20 =>
    seq (alert g m) fun g1 =>
      withConst g1 g1.t.iDiscover fun sub =>
        replyCopy g1 m { node := some 255, ack := some 0, sub := some sub, payload := some [] }
  | .handle_heartbeat_response =>
    ifKnown g m.node none fun g1 => seq (smartSleep g1 m.node) fun g2 => handleHeartbeat g2 m
  | .handle_discover_response => ifKnown g m.node none ret
  | .handle_heartbeat_response_22 => ifKnown g m.node none fun g1 => handleHeartbeat g1 m
  | .handle_pre_sleep_notification => ifKnown g m.node none fun g1 => smartSleep g1 m.node
  | _ => fail g .typeError

def streamResBy (h : HandlerId) (g : GW) (m : Msg) : StreamRes :=
  match h with
  | .handle_firmware_config_request => otaConfigResponse g m
  | .handle_firmware_request => otaBlockResponse g m
  | _ => { g := g, exc := some .typeError }

def finishStream (r : StreamRes) (m : Msg) : Res :=
  match r.exc with
  | some e => fail r.g e
  | none =>
    seq (alert r.g m) fun g3 =>
      match r.reply with
      | none => ret g3
      | some rep => route g3 rep

def handleStream (g : GW) (m : Msg) : Res :=
  ifKnown g m.node none fun g1 =>
    match lookup m.sub g1.t.streamHandlers with
    | none => ret g1
    | some h => finishStream (streamResBy h g1 m) m

def handleInternal (g : GW) (m : Msg) : Res :=
  if g.kind = .tcp ∧ some m.sub = g.t.iVersion then ret g      -- TCP: watchdog answer, no reply
  else
    match lookup m.sub g.t.internalHandlers with
    | none => ret g
    | some h => handleInternalBy h g m

def dispatchBy (h : HandlerId) (g : GW) (m : Msg) : Res :=
  match h with
  | .handle_presentation =>
    -- MQTT: a newly presented child gets its topics subscribed
    if g.kind = .mqtt ∧ addsChild g m then ((handlePresentation g m).1, (handlePresentation g m).2 ++ { subs := [(m.node, m.child)] })
    else handlePresentation g m
  | .handle_set => handleSet g m
  | .handle_req => handleReq g m
  | .handle_internal => handleInternal g m
  | .handle_stream => handleStream g m
  | _ => fail g .typeError

/-- dispatch of a decoded and validated message -/
def dispatch (g : GW) (m : Msg) : Res :=
  match lookup m.type g.t.typeHandlers with
  | none => fail g .typeError
  | some h => dispatchBy h g m

/-- `Gateway.logic(line)` through the inline pump -/
def logic (g : GW) (line : Str) : Res :=
  match decode line with
  | none => ret g
  | some m => if validate g.const m then dispatch g m else ret g

/-! ### controller calls -/

inductive VT | int (n : Int) | str (s : Str)
  deriving DecidableEq

def VT.toInt : VT → Option Int
  | .int n => some n
  | .str s => pyInt s

def storeDesired (g : GW) (node child : Int) (n : Node) (vt : Option Int) (value : Str) : Res :=
  match aget child n.desired with
  | none => fail g .valueError
  | some dv =>
    match validateChildState n child vt value, vt with
    | .error e, _ => fail g e
    | .ok _, none => fail g .valueError
    | .ok _, some vti => ret (setNode g node { n with desired := aset child (aset vti (some value) dv) n.desired })

/-- `set_child_value` once node and child are known: build and validate the command for the
    gateway's version, then store it as desired state (sleeping node) or send it -/
def setKnown (g : GW) (node child : Int) (n : Node) (vt : Option Int) (value : Str) (ack : Int) : Res :=
  match createSetMessage g node child vt value ack with
  | .error e => fail g e
  | .ok msg => if n.sleeping then storeDesired g node child n vt value else emit g [encLine msg]

/-- `Gateway.set_child_value(node, child, value_type, value, ack=…)` -/
def setChildValue (g : GW) (node child : Int) (vt : VT) (value : Str) (ack : Option Int) : Res :=
  ifKnown g node (some child) fun g1 =>
    withNode g1 node fun n => setKnown g1 node child n vt.toInt value (ack.getD 0)

/-! ### persistence (abstract: the file holds the persisted projection) -/

def save (g : GW) : GW :=
  if g.persist ∧ g.needSave then { g with disk := some g.persisted, needSave := false } else g

/-- a fresh gateway of the same configuration loading the file -/
def restart (g : GW) : GW :=
  let loaded := if g.persist then (g.disk.getD []).map (fun (k, p) => (k, p.restore)) else []
  { const := g.const, kind := g.kind, persist := g.persist, disk := g.disk, clock := g.clock, sensors := loaded }

inductive Op
  | line (s : Str)
  | setValue (node child : Int) (vt : VT) (value : Str) (ack : Option Int)
  | update (nids : List Int) (fwt fwv : Int) (image : Option (List Nat))
  | clock (t : Int)
  | metric (b : Bool)
  | saveTick
  | stop
  | restart
  deriving DecidableEq

/-- `MQTTTransport.send` re-decodes every outgoing line to build the topic and drops (logs) a
    line that does not decode; the serial / TCP transports write the text as it is. -/
def transportFilter (g : GW) (r : Res) : Res :=
  if g.kind = .mqtt then (r.1, { r.2 with sent := r.2.sent.filter fun l => (decode l).isSome }) else r

def step (g : GW) : Op → Res
  | .line s => transportFilter g (logic g s)
  | .setValue n c vt v a => transportFilter g (setChildValue g n c vt v a)
  | .update nids t v img => (makeUpdate g nids t v img, {})
  | .clock t => ({ g with clock := t }, {})
  | .metric b => ({ g with metric := b }, {})
  | .saveTick => (save g, {})
  | .stop => (save g, {})
  | .restart => (restart g, {})

def run (g : GW) : List Op → GW
  | [] => g
  | op :: ops => run (step g op).1 ops

end MySensors
