/-
  C04 — an instrumented copy of the alerting handlers of Model/Gateway.lean.

  The gateway model's callback event (`alert g m`) records the message only.  What the Python
  callback can *see* when it runs is the gateway state at that moment, i.e. `alert`'s argument.
  Here every handler that alerts is repeated with `alert` replaced by `talert`, which also
  records the tree (persisted projection) of that argument; everything that does not alert is
  reused from the model unchanged (`tlift`).  `Lemmas/GatewayTraced.lean` proves that erasing the
  trace gives back the model exactly (`tstep_erase`), so this is the model plus an observation,
  not a second model.
-/
import MySensors.Model.Gateway

namespace MySensors

/-- a result and the trees seen by the callback invocations of the step, in order -/
abbrev TRes := Res × List (List (Int × PNode))

def tlift (r : Res) : TRes := (r, [])

def talert (g : GW) (m : Msg) : TRes := (alert g m, [g.persisted])

def tseq (r : TRes) (f : GW → TRes) : TRes :=
  match r.1.2.exc with
  | some _ => r
  | none => (((f r.1.1).1.1, r.1.2 ++ (f r.1.1).1.2), r.2 ++ (f r.1.1).2)

def tifKnown (g : GW) (node : Int) (child : Option Int) (f : GW → TRes) : TRes :=
  if isKnown g node child then f g else tlift (requestPresentation g node)

def twithNode (g : GW) (node : Int) (f : Node → TRes) : TRes :=
  match aget node g.sensors with
  | none => tlift (fail g .keyError)
  | some n => f n

def tpresentNode (g : GW) (m : Msg) : TRes :=
  twithNode (addSensor g m.node) m.node fun n =>
    talert (setNode (addSensor g m.node) m.node { n with type := some m.sub, version := (safeVersion m.payload).getD defaultVersion, reboot := false }) m

def tpresentChild (g : GW) (m : Msg) : TRes :=
  tifKnown g m.node none fun g1 =>
    twithNode g1 m.node fun n =>
      match aget m.child n.children with
      | some _ => tlift (ret g1)
      | none => talert (setNode g1 m.node { n with children := n.children ++ [(m.child, ⟨m.child, m.sub, m.payload, []⟩)] }) m

def thandlePresentation (g : GW) (m : Msg) : TRes :=
  if m.child = Tables.systemChildId then tpresentNode g m else tpresentChild g m

def thandleSet (g : GW) (m : Msg) : TRes :=
  tifKnown g m.node (some m.child) fun g1 =>
    twithNode g1 m.node fun n =>
      tseq (talert (setNode g1 m.node (updateChildValue n m.child m.sub m.payload)) m) fun g3 =>
        tlift (rebootReply g3 m n.reboot)

def thandleHeartbeat (g : GW) (m : Msg) : TRes :=
  twithNode g m.node fun n => talert (setNode g m.node { n with heartbeat := (pyInt m.payload).getD 0 }) m

def thandleInternalBy (h : HandlerId) (g : GW) (m : Msg) : TRes :=
  match h with
  | .handle_battery_level =>
    tifKnown g m.node none fun g1 => twithNode g1 m.node fun n =>
      talert (setNode g1 m.node { n with battery := batteryOf m.payload }) m
  | .handle_sketch_name =>
    tifKnown g m.node none fun g1 => twithNode g1 m.node fun n =>
      talert (setNode g1 m.node { n with sketchName := some m.payload }) m
  | .handle_sketch_version =>
    tifKnown g m.node none fun g1 => twithNode g1 m.node fun n =>
      talert (setNode g1 m.node { n with sketchVersion := some m.payload }) m
  | .handle_gateway_ready => talert g m
  | .handle_gateway_ready_20 =>
    tseq (talert g m) fun g1 =>
      tlift (withConst g1 g1.t.iDiscover fun sub =>
        replyCopy g1 m { node := some 255, ack := some 0, sub := some sub, payload := some [] })
  | .handle_heartbeat_response =>
    tifKnown g m.node none fun g1 => tseq (tlift (smartSleep g1 m.node)) fun g2 => thandleHeartbeat g2 m
  | .handle_heartbeat_response_22 => tifKnown g m.node none fun g1 => thandleHeartbeat g1 m
  | .handle_id_request => tlift (handleInternalBy .handle_id_request g m)
  | .handle_config => tlift (handleInternalBy .handle_config g m)
  | .handle_time => tlift (handleInternalBy .handle_time g m)
  | .handle_log_message => tlift (handleInternalBy .handle_log_message g m)
  | .handle_discover_response => tlift (handleInternalBy .handle_discover_response g m)
  | .handle_pre_sleep_notification => tlift (handleInternalBy .handle_pre_sleep_notification g m)
  | _ => tlift (fail g .typeError)

def tfinishStream (r : StreamRes) (m : Msg) : TRes :=
  match r.exc with
  | some e => tlift (fail r.g e)
  | none =>
    tseq (talert r.g m) fun g3 =>
      tlift (match r.reply with
        | none => ret g3
        | some rep => route g3 rep)

def thandleStream (g : GW) (m : Msg) : TRes :=
  tifKnown g m.node none fun g1 =>
    match lookup m.sub g1.t.streamHandlers with
    | none => tlift (ret g1)
    | some h => tfinishStream (streamResBy h g1 m) m

def thandleInternal (g : GW) (m : Msg) : TRes :=
  if g.kind = .tcp ∧ some m.sub = g.t.iVersion then tlift (ret g)
  else
    match lookup m.sub g.t.internalHandlers with
    | none => tlift (ret g)
    | some h => thandleInternalBy h g m

def tdispatchBy (h : HandlerId) (g : GW) (m : Msg) : TRes :=
  match h with
  | .handle_presentation =>
    if g.kind = .mqtt ∧ addsChild g m then (((thandlePresentation g m).1.1, (thandlePresentation g m).1.2 ++ { subs := [(m.node, m.child)] }), (thandlePresentation g m).2)
    else thandlePresentation g m
  | .handle_set => thandleSet g m
  | .handle_req => tlift (handleReq g m)
  | .handle_internal => thandleInternal g m
  | .handle_stream => thandleStream g m
  | _ => tlift (fail g .typeError)

def tdispatch (g : GW) (m : Msg) : TRes :=
  match lookup m.type g.t.typeHandlers with
  | none => tlift (fail g .typeError)
  | some h => tdispatchBy h g m

def tlogic (g : GW) (line : Str) : TRes :=
  match decode line with
  | none => tlift (ret g)
  | some m => if validate g.const m then tdispatch g m else tlift (ret g)

/-- the instrumented step: only inbound lines can call back -/
def tstep (g : GW) : Op → TRes
  | .line s => (transportFilter g (tlogic g s).1, (tlogic g s).2)
  | op => tlift (step g op)

end MySensors
