/-
  Model of the part of the third-party `intelhex` package that `mysensors.ota.load_fw` relies
  on: `IntelHex.fromfile(fh, format="hex")` followed by `tobinstr()`.

  Mirrors intelhex 2.3 `IntelHex._decode_record` / `loadhex` / `_tobinarray_really`:
  * the text file is read line by line in universal-newline mode; a line is stripped of
    trailing CR/LF and skipped when empty — so the records are exactly the non-empty pieces
    between CR / LF characters;
  * a record is ':' followed by an even number of hex digits (either case) giving at least
    five bytes `len, addrHi, addrLo, type, data…, checksum`; the byte count must match, the
    type must be 0..5, the byte sum must be 0 mod 256;
  * type 0 stores the data bytes at `addr + offset` (no wrap), raising on an address that is
    already occupied; type 1 (length 0) ends the load, later lines are ignored; type 2 / 4 set
    the offset to `value*16` / `value*65536`; type 3 / 5 only record a start address (a second
    one is an error) and do not touch the binary image;
  * a file without an EOF record is accepted;
  * `tobinstr()` = the bytes from the lowest to the highest occupied address, 0xFF where
    nothing was stored; the empty image gives the empty byte string.
  Every error (`IntelHexError` subclasses, `ValueError`) makes `load_fw` return `None`: here
  `none`.

  The memory image (a Python dict address ↦ byte) is kept as one chunk per data record; the
  occupied test and the lookup are per address, as in the library.
-/
import MySensors.Model.Ota

namespace MySensors

/-- upper-case hex digit, as Intel-HEX writers emit it (`unhexlify` accepts both cases) -/
def hexDigitCharU (d : Nat) : Char :=
  if d < 10 then Char.ofNat (48 + d) else Char.ofNat (55 + d)

def hexByteU (b : Nat) : Str := [hexDigitCharU (b / 16 % 16), hexDigitCharU (b % 16)]

def hexBytesU (bs : List Nat) : Str := bs.flatMap hexByteU

/-! ### memory image -/

/-- the bytes of one data record, stored from `start`; `len = data.length` -/
structure HexChunk where
  start : Nat
  len : Nat
  data : List Nat
  deriving DecidableEq, Repr

abbrev HexMem := List HexChunk

/-- `self._buf.get(a)` -/
def memGet (a : Nat) : HexMem → Option Nat
  | [] => none
  | c :: rest => if c.start ≤ a ∧ a < c.start + c.len then c.data[a - c.start]? else memGet a rest

/-- `(minaddr(), maxaddr())`, `none` for the empty image -/
def memBounds : HexMem → Option (Nat × Nat)
  | [] => none
  | c :: rest =>
    if c.len = 0 then memBounds rest
    else
      match memBounds rest with
      | none => some (c.start, c.start + c.len - 1)
      | some (lo, hi) => some (min lo c.start, max hi (c.start + c.len - 1))

/-- `tobinstr()`: lowest to highest occupied address, gaps filled with the padding byte 0xFF -/
def memToBin (m : HexMem) : List Nat :=
  match memBounds m with
  | none => []
  | some (lo, hi) => (List.range' lo (hi + 1 - lo)).map fun a => (memGet a m).getD 0xFF

/-! ### reader -/

structure HexSt where
  /-- `self._offset`, set by extended segment / linear address records -/
  offset : Nat := 0
  mem : HexMem := []
  /-- `self.start_addr` is set -/
  hasStart : Bool := false
  deriving DecidableEq, Repr

inductive HexRes
  | next (st : HexSt)
  | eof
  | err
  deriving DecidableEq, Repr

/-- no address of `[a, a+n)` is occupied (`AddressOverlapError` otherwise) -/
def memFree (a n : Nat) (m : HexMem) : Bool :=
  (List.range' a n).all fun x => (memGet x m).isNone

/-- data record -/
def hexData (st : HexSt) (addr : Nat) (data : List Nat) : HexRes :=
  if memFree (addr + st.offset) data.length st.mem then
    .next { st with mem := ⟨addr + st.offset, data.length, data⟩ :: st.mem }
  else .err

/-- `bin[4]*256 + bin[5]` -/
def word16 (data : List Nat) : Nat := data.getD 0 0 * 256 + data.getD 1 0

def hexTyped (st : HexSt) (typ len addr : Nat) (data : List Nat) : HexRes :=
  if typ = 0 then hexData st addr data
  else if typ = 1 then (if len = 0 then .eof else .err)
  else if typ = 2 then
    (if len = 2 ∧ addr = 0 then .next { st with offset := word16 data * 16 } else .err)
  else if typ = 4 then
    (if len = 2 ∧ addr = 0 then .next { st with offset := word16 data * 65536 } else .err)
  else if typ = 3 ∨ typ = 5 then
    (if len = 4 ∧ addr = 0 ∧ st.hasStart = false then .next { st with hasStart := true } else .err)
  else .err

/-- one decoded record: `len, addrHi, addrLo, type, data…, checksum` -/
def hexRecord (st : HexSt) : List Nat → HexRes
  | len :: ah :: al :: typ :: rest =>
    if rest.length = len + 1 ∧ typ ≤ 5 ∧ (len + ah + al + typ + rest.sum) % 256 = 0 then
      hexTyped st typ len (ah * 256 + al) (rest.take len)
    else .err
  | _ => .err

def hexParsed (st : HexSt) : Option (List Nat) → HexRes
  | some bin => hexRecord st bin
  | none => .err

/-- one non-empty line -/
def hexLine (st : HexSt) : Str → HexRes
  | ':' :: rest => hexParsed st (unhexlify rest)
  | _ => .err

def hexRun : HexSt → List Str → Option HexSt
  | st, [] => some st
  | st, l :: ls =>
    match hexLine st l with
    | .next st' => hexRun st' ls
    | .eof => some st
    | .err => none

def isBreak (c : Char) : Bool := c = '\n' || c = '\r'

/-- the non-empty pieces between CR / LF characters (`acc` = current piece, reversed) -/
def hexLinesAux : Str → Str → List Str
  | acc, [] => if acc.isEmpty then [] else [acc.reverse]
  | acc, c :: cs =>
    if isBreak c then
      (if acc.isEmpty then hexLinesAux [] cs else acc.reverse :: hexLinesAux [] cs)
    else hexLinesAux (c :: acc) cs

def hexLines (text : Str) : List Str := hexLinesAux [] text

/-- `load_fw` on a file with this text: `none` = the library raised, `load_fw` returns None -/
def hexLoad (text : Str) : Option (List Nat) :=
  (hexRun {} (hexLines text)).map fun st => memToBin st.mem

/-! ### writer (used by the round-trip theorem and compared with the harness's own writer) -/

def cksum (bs : List Nat) : Nat := (256 - bs.sum % 256) % 256

def recLine (bs : List Nat) : Str := ':' :: hexBytesU (bs ++ [cksum bs])

def dataRec (a : Nat) (data : List Nat) : List Nat :=
  data.length :: a / 256 % 256 :: a % 256 :: 0 :: data

def extRec (hi : Nat) : List Nat := [2, 0, 0, 4, hi / 256 % 256, hi % 256]

def eofRec : List Nat := [0, 0, 0, 1]

/-- extended linear address record when the upper 16 address bits change -/
def extLines (cur hi : Nat) : List Str := if cur = hi then [] else [recLine (extRec hi)]

/-- records for `img` stored from `addr`; `cur` = upper 16 address bits the reader currently
    assumes.  Data records hold at most `recLen` bytes and never cross a 64 KiB boundary. -/
def hexWriteAux (recLen : Nat) : Nat → Nat → Nat → List Nat → List Str
  | _, _, _, [] => [recLine eofRec]
  | 0, _, _, _ :: _ => [recLine eofRec]
  | fuel + 1, cur, addr, b :: bs =>
    let n := min (min recLen (65536 - addr % 65536)) (b :: bs).length
    extLines cur (addr / 65536) ++
      recLine (dataRec (addr % 65536) ((b :: bs).take n)) ::
        hexWriteAux recLen fuel (addr / 65536) (addr + n) ((b :: bs).drop n)

def hexWriteLines (base recLen : Nat) (img : List Nat) : List Str :=
  hexWriteAux recLen img.length 0 base img

/-- file text: every record on its own line, terminated by LF -/
def joinLines (ls : List Str) : Str := ls.flatMap (· ++ ['\n'])

def hexWrite (base recLen : Nat) (img : List Nat) : Str := joinLines (hexWriteLines base recLen img)

end MySensors
