/-
  Model of `mysensors/gateway_mqtt.py` (as it is now in /repo, i.e. with the `fix:` commits for
  the in-prefix comparison and for unpublishable commands):

    parse_mqtt_to_message   → `parseMqtt`
    parse_message_to_mqtt   → `messageToMqtt` / `topicOf`
    MQTTTransport.recv      → `mqttRecv`
    MQTTTransport.send      → `mqttSend`
    handle_subscription     → `subscribeAll`
    init_topics             → `initTopics`
    _handle_presentation    → `presentationTopics` (the (node, child) pairs are the gateway
                              model's `Out.subs`)

  Text is `List Char`; a QoS is `Option Int` (`none` = Python `None`).  Callbacks are modelled by
  *whether they raise* (`Bool`), the `try … except Exception` around them is explicit.
-/
import MySensors.Model.Gateway

namespace MySensors

/-! ### topic → command string -/

/-- `l[-n:]` -/
def lastN {α} (n : Nat) (l : List α) : List α := l.drop (l.length - n)

/-- `"1" if qos and qos > 0 else "0"` -/
def qosAck (qos : Option Int) : Str :=
  match qos with
  | none => ['0']
  | some q => if q > 0 then ['1'] else ['0']

/-- `parse_mqtt_to_message(topic, payload, qos)`: the command string handed to `logic`, or
    `none` (the topic is not ours).  Literally: take the last five '/'-levels, require that
    there are five and that the topic is `in_prefix + "/" + "/".join(levels)`, overwrite
    level 3 (ack) by the QoS flag, append the payload, join with ';'. -/
def parseMqtt (inPrefix topic payload : Str) (qos : Option Int) : Option Str :=
  let lv := lastN 5 (splitOn '/' topic)
  if lv.length = 5 ∧ topic = inPrefix ++ '/' :: joinWith '/' lv then
    some (joinWith ';' (lv.set 3 (qosAck qos) ++ [payload]))
  else none

/-- `MQTTTransport.recv`: the job argument handed to `tasks.add_job(gateway.logic, ·)` -/
def mqttRecv (inPrefix topic payload : Str) (qos : Option Int) : Option Str :=
  parseMqtt inPrefix topic payload qos

/-! ### command string → topic, payload, qos -/

/-- `f"/{msg.encode('/')}"[:-2]` with the payload blanked (`f"{None}"` is `"None"`) -/
def topicOf (m : Msg) : Str :=
  ('/' :: (encodeWith '/' { m with payload := [] }).getD noneStr).dropLast.dropLast

/-- `parse_message_to_mqtt(data)`: `none` = the ValueError of `Message(data)` -/
def messageToMqtt (data : Str) : Option (Str × Str × Int) :=
  match decode data with
  | none => none
  | some m => some (topicOf m, m.payload, m.ack)

/-- how a Python call ended -/
inductive Ended | returned | raised
  deriving DecidableEq, Repr

/-- a callback that raises or not -/
def callCb (raises : Bool) : Ended := if raises then .raised else .returned

/-- `try: body  except Exception: log` -/
def tryExcept (body : Ended) : Ended :=
  match body with
  | .raised => .returned
  | .returned => .returned

inductive Pub
  | skipped                      -- falsy message: nothing to do
  | dropped                      -- not a command (ValueError caught, logged)
  | published (topic payload : Str) (qos : Int) (retain : Bool)
  deriving DecidableEq, Repr

/-- `MQTTTransport.send(message)`: what is handed to `pub_callback`, and how `send` ended
    when the callback raises or not. -/
def mqttSend (outPrefix : Str) (retain : Bool) (pubRaises : Bool) (message : Option Str) :
    Pub × Ended :=
  match message with
  | none => (.skipped, .returned)
  | some [] => (.skipped, .returned)
  | some (c :: cs) =>
    match messageToMqtt (c :: cs) with
    | none => (.dropped, .returned)
    | some (topic, payload, qos) =>
      (.published (outPrefix ++ topic) payload qos retain, tryExcept (callCb pubRaises))

/-! ### subscriptions -/

/-- `l[-2]`; `none` = IndexError -/
def secondToLast {α} : List α → Option α
  | [] => none
  | [_] => none
  | [a, _] => some a
  | _ :: b :: c :: rest => secondToLast (b :: c :: rest)

/-- `int(topic_levels[-2])`, 0 on ValueError; `none` = the IndexError of a topic without '/' -/
def subQos (full : Str) : Option Int :=
  (secondToLast (splitOn '/' full)).map fun lv => (pyInt lv).getD 0

/-- `handle_subscription(topics)`: the `(topic, qos)` pairs handed to `sub_callback` in order,
    and how the call ended.  `subRaises topic` says whether the callback raises for it. -/
def subscribeAll (inPrefix : Str) (subRaises : Str → Bool) : List Str → List (Str × Int) × Ended
  | [] => ([], .returned)
  | t :: ts =>
    let full := inPrefix ++ t
    match subQos full with
    | none => ([], .raised)
    | some q =>
      match tryExcept (callCb (subRaises full)) with
      | .raised => ([(full, q)], .raised)
      | .returned =>
        let r := subscribeAll inPrefix subRaises ts
        ((full, q) :: r.1, r.2)

def slashJoin (levels : List Str) : Str := '/' :: joinWith '/' levels

def plus : Str := ['+']

/-- `"/+/+/0/+/+"`, `"/+/+/3/+/+"` -/
def fixedTopics : List Str :=
  [slashJoin [plus, plus, ['0'], plus, plus], slashJoin [plus, plus, ['3'], plus, plus]]

def setReqTopics (t : VTables) (n c : Int) : List Str :=
  [slashJoin [renderInt n, renderInt c, renderInt t.mtSet, plus, plus],
   slashJoin [renderInt n, renderInt c, renderInt t.mtReq, plus, plus]]

def streamTopic (t : VTables) (n : Int) : Str :=
  slashJoin [renderInt n, plus, renderInt t.mtStream, plus, plus]

/-- the topics `_handle_presentation` subscribes for a newly presented child -/
def presentationTopics (t : VTables) (n c : Int) : List Str :=
  setReqTopics t n c ++ [streamTopic t n]

/-- the second `handle_subscription` call of `init_topics` (persistence enabled): set/req
    topics of every child of every node (by the objects' own ids), then one stream topic per
    node -/
def restoredTopics (g : GW) : List Str :=
  (g.sensors.flatMap fun kn => kn.2.children.flatMap fun kc => setReqTopics g.t kn.2.id kc.2.id) ++
  g.sensors.map fun kn => streamTopic g.t kn.2.id

/-- `init_topics()`: the topic suffixes passed to `handle_subscription`, in call order -/
def initTopics (g : GW) : List Str :=
  fixedTopics ++ (if g.persist then restoredTopics g else [])

/-- the `(topic, qos)` pairs `sub_callback` sees at start -/
def startSubs (inPrefix : Str) (subRaises : Str → Bool) (g : GW) : List (Str × Int) × Ended :=
  let a := subscribeAll inPrefix subRaises fixedTopics
  if g.persist then
    match a.2 with
    | .raised => a
    | .returned =>
      let b := subscribeAll inPrefix subRaises (restoredTopics g)
      (a.1 ++ b.1, b.2)
  else a

/-- subscriptions made by one gateway step (MQTT kind): the model's `Out.subs` pairs expanded -/
def stepSubs (inPrefix : Str) (subRaises : Str → Bool) (g : GW) (o : Out) : List (Str × Int) :=
  o.subs.flatMap fun nc => (subscribeAll inPrefix subRaises (presentationTopics g.t nc.1 nc.2)).1

/-- the subscription history of one MQTT gateway process: run the operations through the
    gateway model and collect every `(topic, qos)` handed to `sub_callback` -/
def runSubs (inPrefix : Str) (subRaises : Str → Bool) :
    GW → List (Str × Int) → List Op → GW × List (Str × Int)
  | g, subs, [] => (g, subs)
  | g, subs, op :: ops =>
    runSubs inPrefix subRaises (step g op).1 (subs ++ stepSubs inPrefix subRaises g (step g op).2) ops

/-! ### specification side of the subscription coverage -/

/-- the three topic suffixes a child `(n, c)` needs: set, req, and its node's stream topic
    (message types 1, 2, 4 in every protocol version) -/
def childTopics (n c : Int) : List Str :=
  [slashJoin [renderInt n, renderInt c, ['1'], plus, plus],
   slashJoin [renderInt n, renderInt c, ['2'], plus, plus],
   slashJoin [renderInt n, plus, ['4'], plus, plus]]

/-- the subscription set `subs` covers the tree of `g` under prefix `p` -/
def Covers (p : Str) (subs : List Str) (g : GW) : Prop :=
  (p ++ slashJoin [plus, plus, ['0'], plus, plus] ∈ subs ∧
   p ++ slashJoin [plus, plus, ['3'], plus, plus] ∈ subs) ∧
  ∀ n c, isKnown g n (some c) = true → ∀ t ∈ childTopics n c, p ++ t ∈ subs

/-- node and child objects are stored under their own ids -/
def WellKeyed (g : GW) : Prop :=
  ∀ k nd, (k, nd) ∈ g.sensors → nd.id = k ∧ ∀ c ch, (c, ch) ∈ nd.children → ch.id = c

end MySensors
