/-
  Model of the cooperative `__init__` chains of the six gateway classes as keyword-set
  threading (gateway_serial.py:17-38,75-81; gateway_tcp.py:18-27,68-74,119-127;
  gateway_mqtt.py:11-17,102-152,158-180; __init__.py:24-38,205-217,239-255;
  transport.py:20-28,57-62,76-90).

  Every class of the MRO that defines `__init__` is a `Stage`: it binds its named parameters
  (removing them from the keyword set and storing the value in an attribute), may `pop` keys
  and discard them, and — when its signature has `**kwargs` — passes the remaining keys to
  the next `__init__` of the MRO.  A stage without `**kwargs` raises TypeError on any key it
  does not name; `Gateway.__init__` is such a stage.  The leaf class first builds its
  transport: the serial and TCP classes hand the transport constructor a *copy of all*
  keyword arguments (`Transport.__init__` binds `timeout` / `reconnect_timeout` and swallows
  the rest), the MQTT classes hand it exactly their five named parameters.

  The harness checks this description against the real classes (`__mro__`,
  `inspect.signature`, the `kwargs.pop` calls) and by constructing them.
-/
import MySensors.Py.Str

namespace MySensors

inductive GwClass | serial | asyncSerial | tcp | asyncTcp | mqtt | asyncMqtt
  deriving DecidableEq, Repr

inductive Key
  | event_callback | protocol_version | persistence | persistence_file
  | port | baud | host | timeout | reconnect_timeout
  | pub_callback | sub_callback | in_prefix | out_prefix | retain
  deriving DecidableEq, Repr

/-- the attribute a constructor argument ends up in -/
inductive Attr
  | gw_event_callback          -- gateway.event_callback
  | gw_protocol_version        -- gateway.protocol_version and gateway.const
  | tasks_persistence          -- gateway.tasks.persistence is / is not None
  | tasks_persistence_file     -- gateway.tasks.persistence.persistence_file
  | gw_port | gw_baud          -- gateway.port / gateway.baud (serial)
  | gw_host | gw_tcp_port      -- gateway.server_address[0] / [1] (TCP)
  | tr_timeout | tr_reconnect_timeout   -- gateway.tasks.transport.timeout / .reconnect_timeout
  | tr_pub_callback | tr_sub_callback | tr_in_prefix | tr_out_prefix | tr_retain
  deriving DecidableEq, Repr

structure Stage where
  name : String
  binds : List (Key × Attr)
  pops : List Key
  varKw : Bool
  deriving DecidableEq, Repr

inductive Outcome
  | ok (assigned : List (Key × Attr))
  | typeError (stage : String) (key : Key)
  deriving DecidableEq, Repr

/-- thread a keyword set through a chain of `__init__`s -/
def runChain : List Stage → List Key → Outcome
  | [], _ => .ok []
  | st :: rest, kw =>
    let bound := st.binds.filter fun b => kw.contains b.1
    let kw' := kw.filter fun k => !(st.binds.any fun b => b.1 == k) && !st.pops.contains k
    if st.varKw then
      match rest with
      | [] => .ok bound                       -- last stage: the remaining keys are swallowed
      | _ :: _ =>
        match runChain rest kw' with
        | .ok more => .ok (bound ++ more)
        | e => e
    else
      match kw' with
      | [] => .ok bound
      | k :: _ => .typeError st.name k

structure ClassDesc where
  name : String
  /-- classes of the MRO that define `__init__`, leaf first -/
  chain : List Stage
  /-- the transport's `__init__` chain -/
  transport : List Stage
  /-- `none`: the transport constructor receives a copy of all keyword arguments;
      `some ks`: it receives exactly the keys `ks` -/
  transportKeys : Option (List Key)
  /-- always given (positionally in the README) -/
  required : List Key
  /-- the documented optional keywords and the attribute each must take effect in -/
  documented : List (Key × Attr)
  /-- where the required arguments land -/
  requiredAttrs : List (Key × Attr)

def stGateway : Stage :=
  { name := "Gateway", binds := [(.event_callback, .gw_event_callback), (.protocol_version, .gw_protocol_version)], pops := [], varKw := false }

def stBaseGw (name : String) : Stage :=
  { name := name, binds := [(.persistence, .tasks_persistence), (.persistence_file, .tasks_persistence_file)], pops := [], varKw := true }

def stBaseSerial : Stage :=
  { name := "BaseSerialGateway", binds := [(.port, .gw_port), (.baud, .gw_baud)], pops := [.timeout, .reconnect_timeout], varKw := true }

def stBaseTcp : Stage :=
  { name := "BaseTCPGateway", binds := [(.host, .gw_host), (.port, .gw_tcp_port)], pops := [.timeout, .reconnect_timeout], varKw := true }

def stBaseMqtt : Stage := { name := "BaseMQTTGateway", binds := [], pops := [], varKw := true }

def stLeaf (name : String) : Stage := { name := name, binds := [], pops := [], varKw := true }

/-- the MQTT leaf classes name five parameters and hand them to the transport -/
def stMqttLeaf (name : String) : Stage :=
  { name := name, binds := [], pops := [.pub_callback, .sub_callback, .in_prefix, .out_prefix, .retain], varKw := true }

def stTransport : Stage :=
  { name := "Transport", binds := [(.timeout, .tr_timeout), (.reconnect_timeout, .tr_reconnect_timeout)], pops := [], varKw := true }

/-- `MQTTTransport.__init__` names its five parameters, has no `**kwargs`, and calls
    `super().__init__(gateway, None)` without keywords: nothing is forwarded to `Transport`. -/
def stMqttTransport : Stage :=
  { name := "MQTTTransport", binds := [(.pub_callback, .tr_pub_callback), (.sub_callback, .tr_sub_callback), (.in_prefix, .tr_in_prefix), (.out_prefix, .tr_out_prefix), (.retain, .tr_retain)], pops := [], varKw := false }

def commonDocumented : List (Key × Attr) :=
  [(.event_callback, .gw_event_callback), (.persistence, .tasks_persistence),
   (.persistence_file, .tasks_persistence_file), (.protocol_version, .gw_protocol_version)]

def mqttKeys : List Key := [.pub_callback, .sub_callback, .in_prefix, .out_prefix, .retain]

def classDesc : GwClass → ClassDesc
  | .serial =>
    { name := "SerialGateway", chain := [stLeaf "SerialGateway", stBaseGw "BaseSyncGateway", stBaseSerial, stGateway], transport := [stLeaf "SyncTransport", stTransport], transportKeys := none, required := [.port], requiredAttrs := [(.port, .gw_port)], documented := [(.baud, .gw_baud), (.timeout, .tr_timeout), (.reconnect_timeout, .tr_reconnect_timeout)] ++ commonDocumented }
  | .asyncSerial =>
    { name := "AsyncSerialGateway", chain := [stLeaf "AsyncSerialGateway", stBaseGw "BaseAsyncGateway", stBaseSerial, stGateway], transport := [stLeaf "AsyncTransport", stTransport], transportKeys := none, required := [.port], requiredAttrs := [(.port, .gw_port)], documented := [(.baud, .gw_baud), (.timeout, .tr_timeout), (.reconnect_timeout, .tr_reconnect_timeout)] ++ commonDocumented }
  | .tcp =>
    { name := "TCPGateway", chain := [stLeaf "TCPGateway", stBaseGw "BaseSyncGateway", stBaseTcp, stGateway], transport := [stLeaf "SyncTransport", stTransport], transportKeys := none, required := [.host], requiredAttrs := [(.host, .gw_host)], documented := [(.port, .gw_tcp_port), (.timeout, .tr_timeout), (.reconnect_timeout, .tr_reconnect_timeout)] ++ commonDocumented }
  | .asyncTcp =>
    { name := "AsyncTCPGateway", chain := [stLeaf "AsyncTCPGateway", stBaseGw "BaseAsyncGateway", stBaseTcp, stGateway], transport := [stLeaf "AsyncTransport", stTransport], transportKeys := none, required := [.host], requiredAttrs := [(.host, .gw_host)], documented := [(.port, .gw_tcp_port), (.timeout, .tr_timeout), (.reconnect_timeout, .tr_reconnect_timeout)] ++ commonDocumented }
  | .mqtt =>
    { name := "MQTTGateway", chain := [stMqttLeaf "MQTTGateway", stBaseGw "BaseSyncGateway", stBaseMqtt, stGateway], transport := [stMqttTransport, stTransport], transportKeys := some mqttKeys, required := [.pub_callback, .sub_callback], requiredAttrs := [(.pub_callback, .tr_pub_callback), (.sub_callback, .tr_sub_callback)], documented := [(.in_prefix, .tr_in_prefix), (.out_prefix, .tr_out_prefix), (.retain, .tr_retain)] ++ commonDocumented }
  | .asyncMqtt =>
    { name := "AsyncMQTTGateway", chain := [stMqttLeaf "AsyncMQTTGateway", stBaseGw "BaseAsyncGateway", stBaseMqtt, stGateway], transport := [stMqttTransport, stTransport], transportKeys := some mqttKeys, required := [.pub_callback, .sub_callback], requiredAttrs := [(.pub_callback, .tr_pub_callback), (.sub_callback, .tr_sub_callback)], documented := [(.in_prefix, .tr_in_prefix), (.out_prefix, .tr_out_prefix), (.retain, .tr_retain)] ++ commonDocumented }

/-- constructing class `c` with the keyword set `kw` -/
def construct (c : GwClass) (kw : List Key) : Outcome :=
  let d := classDesc c
  let tkw := match d.transportKeys with
    | none => kw
    | some ks => kw.filter ks.contains
  match runChain d.transport tkw with
  | .ok a1 =>
    match runChain d.chain kw with
    | .ok a2 => .ok (a1 ++ a2)
    | e => e
  | e => e

/-- the elements of `l` selected by the bits of `mask` -/
def pick {α} : Nat → List α → List α
  | _, [] => []
  | mask, x :: xs => if mask % 2 = 1 then x :: pick (mask / 2) xs else pick (mask / 2) xs

def alookup {κ ν} [DecidableEq κ] (k : κ) : List (κ × ν) → Option ν
  | [] => none
  | (k', v) :: rest => if k = k' then some v else alookup k rest

/-- the property for one keyword set: the constructor succeeds, every given key is assigned
    exactly once, and to the attribute the documentation promises -/
def honoured (c : GwClass) (given : List Key) : Bool :=
  let d := classDesc c
  match construct c given with
  | .ok asg =>
    given.all fun k =>
      (asg.filter fun a => a.1 == k).length == 1 &&
      alookup k asg == alookup k (d.requiredAttrs ++ d.documented) &&
      (alookup k asg).isSome
  | .typeError _ _ => false

end MySensors
