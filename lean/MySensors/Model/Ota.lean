/-
  Model of `mysensors/ota.py`: hex packing of 16-bit little-endian words, CRC-16/MODBUS
  (bitwise, table-free), firmware preparation and block slicing.  Bytes are `Nat < 256`.
-/
import MySensors.Py.Str

namespace MySensors

def hexDigitChar (d : Nat) : Char :=
  if d < 10 then Char.ofNat (48 + d) else Char.ofNat (87 + d)   -- lower case, as binascii.hexlify

def hexByte (b : Nat) : Str := [hexDigitChar (b / 16 % 16), hexDigitChar (b % 16)]

def hexBytes (bs : List Nat) : Str := bs.flatMap hexByte

/-- one unsigned 16-bit word, little endian -/
def wordBytes (w : Nat) : List Nat := [w % 256, w / 256 % 256]

/-- `fw_int_to_hex(*words)`: `none` = struct.error (a word outside 0..65535) -/
def fwIntToHex (ws : List Nat) : Option Str :=
  if ws.all (· < 65536) then some (hexBytes (ws.flatMap wordBytes)) else none

def hexVal (c : Char) : Option Nat :=
  let n := c.toNat
  if 48 ≤ n ∧ n ≤ 57 then some (n - 48)
  else if 97 ≤ n ∧ n ≤ 102 then some (n - 87)
  else if 65 ≤ n ∧ n ≤ 70 then some (n - 55)
  else none

/-- `binascii.unhexlify(str)`: ASCII hex digits, even length; `none` = binascii.Error / ValueError -/
def unhexlify : Str → Option (List Nat)
  | [] => some []
  | [_] => none
  | a :: b :: rest =>
    match hexVal a, hexVal b, unhexlify rest with
    | some x, some y, some bs => some ((16 * x + y) :: bs)
    | _, _, _ => none

def bytesToWords : List Nat → List Nat
  | lo :: hi :: rest => (lo + 256 * hi) :: bytesToWords rest
  | _ => []

/-- `fw_hex_to_int(payload, n)`: `none` = the payload is malformed (binascii.Error, struct.error) -/
def fwHexToInt (payload : Str) (n : Nat) : Option (List Nat) :=
  match unhexlify payload with
  | some bs => if bs.length = 2 * n then some (bytesToWords bs) else none
  | none => none

/-! ### CRC-16/MODBUS: reflected polynomial 0xA001, initial value 0xFFFF, no final xor -/

def crcBit (crc : Nat) : Nat := if crc % 2 = 1 then (crc / 2) ^^^ 0xA001 else crc / 2

def crcByte (crc b : Nat) : Nat :=
  crcBit (crcBit (crcBit (crcBit (crcBit (crcBit (crcBit (crcBit (crc ^^^ b))))))))

def crcModbus (data : List Nat) : Nat := data.foldl crcByte 0xFFFF

structure Fw where
  blocks : Nat
  crc : Nat
  data : List Nat
  deriving DecidableEq

/-- `prepare_fw`: pad with 0xFF up to the next multiple of 128 (a full page when already aligned) -/
def prepareFw (img : List Nat) : Fw :=
  let data := img ++ List.replicate (128 - img.length % 128) 0xFF
  { blocks := data.length / 16, crc := crcModbus data, data := data }

/-- bytes of block `i` (Python slice: short or empty past the end) -/
def fwBlock (data : List Nat) (i : Nat) : List Nat := (data.drop (i * 16)).take 16

end MySensors
