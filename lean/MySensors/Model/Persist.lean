/-
  Model of the persistence hooks of pymysensors:

    MySensorsJSONEncoder.default        (persistence.py)   → `jsonSensor`, `jsonChild`, `toJson`
    MySensorsJSONDecoder.dict_to_object (persistence.py)   → `dictToObject`, applied bottom-up by `hook`
    Sensor.__getstate__/__setstate__    (sensor.py)        → `getstate`, `setstateSensor`
    ChildSensor.__setstate__            (sensor.py)        → `setstateChild`
    the property setters run on load    (sensor.py, validation.py)
                                                           → `setattrSensor`, `isBatteryLevel`,
                                                             `isHeartbeat`, `safeIsVersion`

  over an abstract `Tree` of Python values.  The text layers are trusted: `json.dump`+`json.load`
  (without hooks) is assumed to return the tree it was given *with every dict key turned into
  its `str()`* (that conversion is part of the model: `Key.s (renderInt k)`), `pickle` is assumed
  to return the tree of `__getstate__` dictionaries it was given.

  A Python object is `inst cls attrs` with `attrs` its `__dict__` in insertion order.  Attribute
  names are an enumerated type (`Attr`); a key `Key.a x` stands for the Python string of that
  name, `Key.s k` for any other string key, `Key.i n` for an `int` key.  The encoder writes
  `Key.s` keys only as rendered integers, so the two kinds of string key never meet.
-/
import MySensors.Model.Gateway

namespace MySensors.Persist

open MySensors

inductive Attr where
  | sensor_id | children | type | sketch_name | sketch_version
  | battery_level | protocol_version | heartbeat
  | _battery_level | _protocol_version | _heartbeat
  | new_state | queue | reboot
  | id | description | values
  deriving DecidableEq, Repr

inductive Key where
  | i (n : Int)
  | s (k : Str)
  | a (x : Attr)
  deriving DecidableEq, Repr

inductive Cls where
  | sensor | child
  deriving DecidableEq, Repr

inductive Tree where
  | null
  | bool (b : Bool)
  | int (n : Int)
  | str (s : Str)
  | list (xs : List Tree)
  | dict (kvs : List (Key × Tree))
  | inst (c : Cls) (attrs : List (Key × Tree))

abbrev Dict := List (Key × Tree)

/-! ### dictionaries (insertion ordered) -/

def dget (k : Key) : Dict → Option Tree
  | [] => none
  | (k', v) :: rest => if k = k' then some v else dget k rest

/-- `d[k] = v` -/
def dset (k : Key) (v : Tree) : Dict → Dict
  | [] => [(k, v)]
  | (k', v') :: rest => if k = k' then (k', v) :: rest else (k', v') :: dset k v rest

/-- `d.pop(k, None)` (the dictionary part) -/
def dpop (k : Key) : Dict → Dict
  | [] => []
  | (k', v') :: rest => if k = k' then rest else (k', v') :: dpop k rest

def dhas (k : Key) (d : Dict) : Bool := (dget k d).isSome

/-! ### validators applied by the property setters (validation.py) -/

def clampBattery (n : Int) : Int := if 0 ≤ n ∧ n ≤ 100 then n else 0

/-- `is_battery_level`: `All(Coerce(int), Range(0, 100))`, falling back to 0 -/
def isBatteryLevel : Tree → Tree
  | .int n => .int (clampBattery n)
  | .str s => .int (match pyInt s with | some n => clampBattery n | none => 0)
  | .bool b => .int (if b then 1 else 0)
  | _ => .int 0

/-- `is_heartbeat`: `Coerce(int)`, falling back to 0 -/
def isHeartbeat : Tree → Tree
  | .int n => .int n
  | .str s => .int ((pyInt s).getD 0)
  | .bool b => .int (if b then 1 else 0)
  | _ => .int 0

def v14 : Str := ['1', '.', '4']

/-- `safe_is_version` on a string: the string itself or "1.4" (strings outside the modelled
    domain of `Model/Version.lean` count as rejected, as in the gateway model) -/
def loadVersion (s : Str) : Str := (safeVersion s).getD v14

/-- `safe_is_version(value)`; modelled on strings and integers (`str(value)` first) -/
def safeIsVersion : Tree → Tree
  | .str s => .str (loadVersion s)
  | .int n => .str (loadVersion (renderInt n))
  | _ => .str v14

/-! ### the Sensor object -/

/-- `Sensor.__init__(sensor_id)` -/
def newSensor (sid : Tree) : Dict :=
  [(.a .sensor_id, sid), (.a .children, .dict []), (.a .type, .null), (.a .sketch_name, .null),
   (.a .sketch_version, .null), (.a ._battery_level, .int 0), (.a ._protocol_version, .str v14),
   (.a ._heartbeat, .int 0), (.a .new_state, .dict []), (.a .queue, .list []), (.a .reboot, .bool false)]

/-- `setattr(sensor, key, val)`: the three properties go through their validating setters -/
def setattrSensor (attrs : Dict) (k : Key) (v : Tree) : Dict :=
  match k with
  | .a .battery_level => dset (.a ._battery_level) (isBatteryLevel v) attrs
  | .a .heartbeat => dset (.a ._heartbeat) (isHeartbeat v) attrs
  | .a .protocol_version => dset (.a ._protocol_version) (safeIsVersion v) attrs
  | k => dset k v attrs

def setattrs (attrs : Dict) : Dict → Dict
  | [] => attrs
  | (k, v) :: rest => setattrs (setattrSensor attrs k v) rest

/-! ### JSON -/

/-- `str.isdigit()` on the characters that can occur in keys written by the encoder (decimal
    digits of any Nd block; CPython's `isdigit` also accepts superscripts and the like, which
    `int()` then rejects — no key written by the encoder contains them) -/
def pyIsDigit (s : Str) : Bool := !s.isEmpty && s.all fun c => (digitVal c).isSome

def keyIsDigit : Key → Bool
  | .s k => pyIsDigit k
  | _ => false

/-- `int(k)` of the dict comprehension (a failing `int` would raise ValueError; kept as is) -/
def intKey : Key → Key
  | .s k => match pyInt k with
    | some n => .i n
    | none => .s k
  | k => k

/-- `MySensorsJSONDecoder.dict_to_object` on a JSON object whose members were already decoded -/
def dictToObject (kvs : Dict) : Tree :=
  match dget (.a .sensor_id) kvs with
  | some sid => .inst .sensor (setattrs (newSensor sid) kvs)
  | none =>
    match dget (.a .id) kvs, dget (.a .type) kvs, dget (.a .values) kvs with
    | some i, some t, some vs =>
      .inst .child [(.a .id, i), (.a .type, t),
                    (.a .description, (dget (.a .description) kvs).getD (.str [])), (.a .values, vs)]
    | _, _, _ =>
      if kvs.all (fun kv => keyIsDigit kv.1) then .dict (kvs.map fun kv => (intKey kv.1, kv.2))
      else .dict kvs

mutual
/-- `json.load(..., object_hook=dict_to_object)`: the hook is applied to every object, innermost first -/
def hook : Tree → Tree
  | .dict kvs => dictToObject (hookKvs kvs)
  | .list xs => .list (hookList xs)
  | .inst c attrs => .inst c (hookKvs attrs)
  | .null => .null
  | .bool b => .bool b
  | .int n => .int n
  | .str s => .str s
def hookKvs : List (Key × Tree) → List (Key × Tree)
  | [] => []
  | (k, v) :: rest => (k, hook v) :: hookKvs rest
def hookList : List Tree → List Tree
  | [] => []
  | x :: xs => hook x :: hookList xs
end

def optInt : Option Int → Tree
  | none => .null
  | some n => .int n

def optStr : Option Str → Tree
  | none => .null
  | some s => .str s

/-- json turns the `int` keys of a dict into their `str()` -/
def jsonKey (k : Int) : Key := .s (renderInt k)

def jsonValues (vs : List (Int × Str)) : Tree := .dict (vs.map fun p => (jsonKey p.1, .str p.2))

/-- `MySensorsJSONEncoder.default(ChildSensor)` -/
def jsonChild (c : Child) : Tree :=
  .dict [(.a .id, .int c.id), (.a .type, .int c.type), (.a .description, .str c.desc),
         (.a .values, jsonValues c.values)]

def jsonChildren (cs : List (Int × Child)) : Tree := .dict (cs.map fun p => (jsonKey p.1, jsonChild p.2))

/-- `MySensorsJSONEncoder.default(Sensor)` -/
def jsonSensor (n : Node) : Tree :=
  .dict [(.a .sensor_id, .int n.id), (.a .children, jsonChildren n.children), (.a .type, optInt n.type),
         (.a .sketch_name, optStr n.sketchName), (.a .sketch_version, optStr n.sketchVersion),
         (.a .battery_level, .int n.battery), (.a .protocol_version, .str n.version),
         (.a .heartbeat, .int n.heartbeat)]

/-- the tree `json.load` sees (before hooks) for the file `json.dump(sensors, cls=MySensorsJSONEncoder)` wrote -/
def toJson (s : List (Int × Node)) : Tree := .dict (s.map fun p => (jsonKey p.1, jsonSensor p.2))

/-! ### pickle -/

def valuesObj (vs : List (Int × Str)) : Tree := .dict (vs.map fun p => (.i p.1, .str p.2))

/-- a `ChildSensor` object (its `__dict__` is its pickled state: no `__getstate__`) -/
def childObj (c : Child) : Tree :=
  .inst .child [(.a .id, .int c.id), (.a .type, .int c.type), (.a .description, .str c.desc),
                (.a .values, valuesObj c.values)]

def childrenObj (cs : List (Int × Child)) : Tree := .dict (cs.map fun p => (.i p.1, childObj p.2))

/-- a `ChildSensor` of `new_state`: type and description copied from the child at the time smart
    sleep was initialised (dropped on load whatever they are); values may be `None` -/
def desiredObj (n : Node) (p : Int × List (Int × Option Str)) : Tree :=
  let ch := (aget p.1 n.children).getD ⟨p.1, 0, [], []⟩
  .inst .child [(.a .id, .int p.1), (.a .type, .int ch.type), (.a .description, .str ch.desc),
                (.a .values, .dict (p.2.map fun q => (.i q.1, optStr q.2)))]

/-- `sensor.__dict__` -/
def sensorDict (n : Node) : Dict :=
  [(.a .sensor_id, .int n.id), (.a .children, childrenObj n.children), (.a .type, optInt n.type),
   (.a .sketch_name, optStr n.sketchName), (.a .sketch_version, optStr n.sketchVersion),
   (.a ._battery_level, .int n.battery), (.a ._protocol_version, .str n.version),
   (.a ._heartbeat, .int n.heartbeat),
   (.a .new_state, .dict (n.desired.map fun p => (.i p.1, desiredObj n p))),
   (.a .queue, .list (n.queue.map .str)), (.a .reboot, .bool n.reboot)]

/-- one round of the loop in `Sensor.__getstate__`: `value = state.pop(attr, None)`;
    `if value is not None: state[prop] = value` -/
def getstateMove (priv pub : Attr) (st : Dict) : Dict :=
  match dget (.a priv) st with
  | none => st
  | some .null => dpop (.a priv) st
  | some v => dset (.a pub) v (dpop (.a priv) st)

/-- `Sensor.__getstate__` -/
def getstate (d : Dict) : Dict :=
  getstateMove ._protocol_version .protocol_version
    (getstateMove ._heartbeat .heartbeat (getstateMove ._battery_level .battery_level d))

/-- `Sensor.__setstate__` (the object starts with an empty `__dict__`) -/
def setstateSensor (state : Dict) : Dict :=
  let a := setattrs [] state
  let a := dset (.a .reboot) (.bool false) (dset (.a .queue) (.list []) (dset (.a .new_state) (.dict []) a))
  if dhas (.a ._heartbeat) a then a else dset (.a ._heartbeat) (isHeartbeat (.int 0)) a

/-- `ChildSensor.__setstate__` -/
def setstateChild (state : Dict) : Dict :=
  if dhas (.a .description) state then state else dset (.a .description) (.str []) state

def setstate : Cls → Dict → Dict
  | .sensor => setstateSensor
  | .child => setstateChild

mutual
/-- `pickle.load`: objects are rebuilt innermost first through their `__setstate__` -/
def unpickle : Tree → Tree
  | .dict kvs => .dict (unpickleKvs kvs)
  | .list xs => .list (unpickleList xs)
  | .inst c st => .inst c (setstate c (unpickleKvs st))
  | .null => .null
  | .bool b => .bool b
  | .int n => .int n
  | .str s => .str s
def unpickleKvs : List (Key × Tree) → List (Key × Tree)
  | [] => []
  | (k, v) :: rest => (k, unpickle v) :: unpickleKvs rest
def unpickleList : List Tree → List Tree
  | [] => []
  | x :: xs => unpickle x :: unpickleList xs
end

/-- the tree `pickle.dump(sensors)` stores: every Sensor replaced by its `__getstate__()` -/
def toPickle (s : List (Int × Node)) : Tree :=
  .dict (s.map fun p => (.i p.1, .inst .sensor (getstate (sensorDict p.2))))

/-! ### reading a Python object graph back as a typed state -/

def asInt : Tree → Option Int
  | .int n => some n
  | _ => none

def asStr : Tree → Option Str
  | .str s => some s
  | _ => none

def asBool : Tree → Option Bool
  | .bool b => some b
  | _ => none

def asOptInt : Tree → Option (Option Int)
  | .null => some none
  | .int n => some (some n)
  | _ => none

def asOptStr : Tree → Option (Option Str)
  | .null => some none
  | .str s => some (some s)
  | _ => none

def asDict : Tree → Option Dict
  | .dict kvs => some kvs
  | _ => none

def asValues : Dict → Option (List (Int × Str))
  | [] => some []
  | (.i k, .str v) :: r => (asValues r).map ((k, v) :: ·)
  | _ :: _ => none

def asOptValues : Dict → Option (List (Int × Option Str))
  | [] => some []
  | (.i k, .str v) :: r => (asOptValues r).map ((k, some v) :: ·)
  | (.i k, .null) :: r => (asOptValues r).map ((k, none) :: ·)
  | _ :: _ => none

def attr (x : Attr) (a : Dict) : Option Tree := dget (.a x) a

def asChild : Tree → Option Child
  | .inst .child a => do
    let id ← (attr .id a).bind asInt
    let ty ← (attr .type a).bind asInt
    let desc ← (attr .description a).bind asStr
    let vs ← ((attr .values a).bind asDict).bind asValues
    some ⟨id, ty, desc, vs⟩
  | _ => none

def asChildren : Dict → Option (List (Int × Child))
  | [] => some []
  | (.i k, t) :: r => do
    let c ← asChild t
    let r' ← asChildren r
    some ((k, c) :: r')
  | _ :: _ => none

def asDesiredChild : Tree → Option (List (Int × Option Str))
  | .inst .child a => ((attr .values a).bind asDict).bind asOptValues
  | _ => none

def asDesired : Dict → Option (List (Int × List (Int × Option Str)))
  | [] => some []
  | (.i k, t) :: r => do
    let c ← asDesiredChild t
    let r' ← asDesired r
    some ((k, c) :: r')
  | _ :: _ => none

def asQueue : List Tree → Option (List Str)
  | [] => some []
  | .str s :: r => (asQueue r).map (s :: ·)
  | _ :: _ => none

def asList : Tree → Option (List Tree)
  | .list xs => some xs
  | _ => none

/-- a live `Sensor` object as a model `Node` (every attribute, the transient ones included) -/
def asNode : Tree → Option Node
  | .inst .sensor a => do
    let id ← (attr .sensor_id a).bind asInt
    let children ← ((attr .children a).bind asDict).bind asChildren
    let type ← (attr .type a).bind asOptInt
    let sn ← (attr .sketch_name a).bind asOptStr
    let sv ← (attr .sketch_version a).bind asOptStr
    let battery ← (attr ._battery_level a).bind asInt
    let version ← (attr ._protocol_version a).bind asStr
    let heartbeat ← (attr ._heartbeat a).bind asInt
    let desired ← ((attr .new_state a).bind asDict).bind asDesired
    let queue ← ((attr .queue a).bind asList).bind asQueue
    let reboot ← (attr .reboot a).bind asBool
    some { id := id, children := children, type := type, sketchName := sn, sketchVersion := sv, battery := battery, version := version, heartbeat := heartbeat, desired := desired, queue := queue, reboot := reboot }
  | _ => none

def asSensors : Dict → Option (List (Int × Node))
  | [] => some []
  | (.i k, t) :: r => do
    let n ← asNode t
    let r' ← asSensors r
    some ((k, n) :: r')
  | _ :: _ => none

/-- `gateway.sensors` of a fresh gateway after loading the JSON file; `none`: the loaded object
    graph is not a well-typed network (e.g. a key stayed a string) -/
def fromJson (t : Tree) : Option (List (Int × Node)) := (asDict (hook t)).bind asSensors

/-- the same for the pickle file -/
def fromPickle (t : Tree) : Option (List (Int × Node)) := (asDict (unpickle t)).bind asSensors

/-- what a load is meant to give: the persisted projection, transient fields at their defaults -/
def restored (s : List (Int × Node)) : List (Int × Node) := s.map fun p => (p.1, p.2.persisted.restore)

end MySensors.Persist
