/-
  Model of the two message pumps (mysensors/task.py).

  asyncio flavour — `AsyncTasks.add_job`: the job runs at once and its reply is sent at once;
  a job added *by* a job (smart-sleep flush, set commands of a wake-up, presentation request of
  `is_sensor`) therefore is sent before the outer job's own reply.  This is the inline pump
  the gateway model's `step`/`logic` already is.

  threaded flavour — `SyncTasks.add_job` appends `(func, args)` to `tasks.queue`;
  `_poll_queue` pops ONE job, runs it and hands its return value to `transport.send`.  A job
  added by a job goes to the tail of the same FIFO, behind every line that was already waiting.

  The pump is generic in the state `σ` and in the handler `f : σ → Str → σ × Split`, where a
  `Split` separates what the handler *queued through `add_job`* (`nested`) from what it
  *returned* (`reply`).  `gwSplit` instantiates it with the gateway model.
-/
import MySensors.Model.Gateway

namespace MySensors

structure Split where
  /-- texts of the jobs the handler added with `tasks.add_job`, in order -/
  nested : List Str := []
  /-- the handler's return value as the transport sees it (at most one line) -/
  reply : List Str := []
  deriving DecidableEq, Repr

/-- a queued job: `(gateway.logic, line)` or a job that only yields a fixed text
    (`(str, text)` / `(msg.encode,)`) -/
inductive Job
  | line (s : Str)
  | text (t : Str)
  deriving DecidableEq, Repr

structure PS (σ : Type) where
  st : σ
  queue : List Job := []
  emitted : List Str := []

/-- schedule events of the threaded flavour -/
inductive Ev
  | arrive (s : Str)      -- reader thread: `handle_line` → `add_job(logic, s)`
  | pump                  -- poll thread: one iteration of `_poll_queue`
  deriving DecidableEq, Repr

section generic
variable {σ : Type} (f : σ → Str → σ × Split)

/-- one iteration of `_poll_queue`: `reply = run_job(); transport.send(reply)` -/
def pumpOne (ps : PS σ) : PS σ :=
  match ps.queue with
  | [] => ps
  | .text t :: q => { ps with queue := q, emitted := ps.emitted ++ [t] }
  | .line s :: q =>
    let r := f ps.st s
    { st := r.1, queue := q ++ r.2.nested.map Job.text, emitted := ps.emitted ++ r.2.reply }

def evStep (ps : PS σ) : Ev → PS σ
  | .arrive s => { ps with queue := ps.queue ++ [Job.line s] }
  | .pump => pumpOne f ps

/-- the threaded gateway under a schedule -/
def runSched (ps : PS σ) : List Ev → PS σ
  | [] => ps
  | e :: es => runSched (evStep f ps e) es

/-- the lines that arrive in a schedule, in order -/
def arrivals : List Ev → List Str
  | [] => []
  | .arrive s :: es => s :: arrivals es
  | .pump :: es => arrivals es

/-- the asyncio gateway on a list of lines: state and everything sent, in order -/
def runInline (st : σ) (emitted : List Str) : List Str → σ × List Str
  | [] => (st, emitted)
  | s :: ss =>
    let r := f st s
    runInline r.1 (emitted ++ r.2.nested ++ r.2.reply) ss

/-- the full property: whatever the arrival schedule, once everything has been pumped the
    threaded gateway is in the same state and has sent the same sequence as the asyncio one -/
def FlavoursAgree : Prop :=
  ∀ (st : σ) (sched : List Ev),
    (runSched f { st := st } sched).queue = [] →
    ((runSched f { st := st } sched).st, (runSched f { st := st } sched).emitted)
      = runInline f st [] (arrivals sched)

/-- hypothesis of the ordering theorem: a line job that adds jobs never runs while something
    else is waiting behind it -/
def Quiet (ps : PS σ) : List Ev → Prop
  | [] => True
  | .arrive s :: es => Quiet (evStep f ps (.arrive s)) es
  | .pump :: es =>
    (match ps.queue with
     | .line s :: rest => (f ps.st s).2.nested = [] ∨ rest = []
     | _ => True) ∧ Quiet (pumpOne f ps) es

/-- the pump is drained between lines: a line only ever arrives at an empty queue -/
def Drained (ps : PS σ) : List Ev → Prop
  | [] => True
  | .arrive s :: es => ps.queue = [] ∧ Drained (evStep f ps (.arrive s)) es
  | .pump :: es => Drained (pumpOne f ps) es

end generic

/-! ### the gateway instance -/

/-- does `logic(line)` *return* its output (true) or `add_job` it (false)?  The handlers that
    answer a request return the answer (`id request`, `config`, `time`, `gateway ready` ≥ 2.0,
    `set` with pending reboot, `req`, firmware requests); everything else that is sent comes
    from `is_sensor` (presentation request) or from the smart-sleep flush, i.e. from
    `add_job`.  A handler never does both: the returning handlers only return after
    `is_sensor` succeeded. -/
def returnsReply (g : GW) (line : Str) : Bool :=
  match decode line with
  | none => false
  | some m =>
    if !validate g.const m then false
    else
      match lookup m.type g.t.typeHandlers with
      | some .handle_set => isKnown g m.node (some m.child)
      | some .handle_req => isKnown g m.node (some m.child)
      | some .handle_stream => isKnown g m.node none
      | some .handle_internal =>
        if g.kind = .tcp ∧ some m.sub = g.t.iVersion then false
        else
          match lookup m.sub g.t.internalHandlers with
          | some .handle_id_request => true
          | some .handle_config => true
          | some .handle_time => true
          | some .handle_gateway_ready_20 => true
          | _ => false
      | _ => false

/-- the gateway model as a pump handler: `step g (.line s)` (which includes the MQTT
    transport's drop of undecodable lines), its output classified by `returnsReply` -/
def gwSplit (g : GW) (line : Str) : GW × Split :=
  let r := step g (.line line)
  if returnsReply g line then (r.1, { reply := r.2.sent }) else (r.1, { nested := r.2.sent })

/-- a controller call (`set_child_value`, `update_fw`, …) made on the threaded gateway: it
    runs at once in the caller's thread and what it sends is `add_job`ed -/
def ctlStep (ps : PS GW) (op : Op) : PS GW :=
  let r := step ps.st op
  { ps with st := r.1, queue := ps.queue ++ r.2.sent.map Job.text }

end MySensors
