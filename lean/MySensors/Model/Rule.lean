/-
  Types shared by the generated tables and the hand-written model.
  `Rule` is the two-level "Any of All of atoms" form every voluptuous validator of the
  five const modules flattens to (a nested validator type would lose `DecidableEq`).
-/
import MySensors.Py.Str

namespace MySensors

inductive ConstId | v14 | v15 | v20 | v21 | v22
  deriving DecidableEq, Repr, Inhabited

inductive FnId | isVersion | hex | rgb | rgbw | gps
  deriving DecidableEq, Repr

inductive HandlerId
  | handle_presentation | handle_set | handle_req | handle_internal | handle_stream
  | handle_firmware_config_request | handle_firmware_request | handle_id_request
  | handle_config | handle_time | handle_battery_level | handle_sketch_name
  | handle_sketch_version | handle_log_message | handle_gateway_ready
  | handle_gateway_ready_20 | handle_heartbeat_response | handle_discover_response
  | handle_heartbeat_response_22 | handle_pre_sleep_notification
  | opaque
  deriving DecidableEq, Repr

inductive Atom
  | str                                   -- `str` (payloads are always text)
  | lit (s : Str)                         -- a literal such as "" or "M"
  | inn (xs : List Str)                   -- vol.In
  | coerceInt | coerceFloat | coerceStr   -- vol.Coerce
  | range (lo hi : Int)                   -- vol.Range on an int value
  /-- vol.Range with float bounds: the exact rational acceptance interval of the decimal
      value (computed by the translator from the bounds' neighbours, round-half-even)
      plus the nominal bounds. -/
  | frange (loThr : Rat) (loIncl : Bool) (hiThr : Rat) (hiIncl : Bool) (lo hi : Rat)
  | fn (f : FnId)
  | opaque (repr : Str)
  deriving DecidableEq

abbrev Rule := List (List Atom)

structure VTables where
  maxNodeId : Int
  messageTypes : List Int
  mtPresentation : Int
  mtSet : Int
  mtReq : Int
  mtInternal : Int
  mtStream : Int
  iIdRequest : Option Int
  iIdResponse : Option Int
  iReboot : Option Int
  iVersion : Option Int
  iPresentation : Option Int
  iDiscover : Option Int
  stConfigRequest : Option Int
  stConfigResponse : Option Int
  stRequest : Option Int
  stResponse : Option Int
  sCustom : Option Int
  subTypes : List (Int × List Int)
  payloads : List ((Int × Int) × Rule)
  validTypes : List (Int × List Int)
  setreq : List (Int × Rule)
  typeHandlers : List (Int × HandlerId)
  internalHandlers : List (Int × HandlerId)
  streamHandlers : List (Int × HandlerId)

end MySensors
