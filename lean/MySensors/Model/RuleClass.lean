/-
  The small vocabulary of payload rule classes used by the frozen reference serial API
  (`/verif/spec/serial_api.json`, rendered into `Generated/SerialApi.lean` by
  `tools/gen_spec.py`) and the flattened voluptuous rule each class is expected to be
  translated to from the const modules (`ruleOfClass`).

  Hand-written; the generated file only contains tables of `RuleClass` values.
-/
import MySensors.Model.Rule

namespace MySensors

inductive RuleClass
  | text                      -- any string
  | textOr (ws : List Str)    -- `Any(str, In(ws))`: any string, the words are documentation
  | empty                     -- ""
  | binary                    -- "0" | "1"
  | enum (ws : List Str)      -- exactly one of the words
  | percentInt                -- int 0..100
  | percentFloat              -- float 0.0..100.0
  | unitFloat                 -- float -1.0..1.0
  | int                       -- any int
  | nodeId1                   -- int 1..254
  | nodeId0                   -- int 0..254
  | config                    -- int 0..254 | "M" | "I"
  | time                      -- "" | int
  | rgb | rgbw | gps | version
  deriving DecidableEq

/-- The exact set of decimal values `q` whose nearest double (round-half-even) lies in
    `[0.0, 100.0]`:  `-2^-1075 ≤ q ≤ 100 + 2^-47`, both ends included (the ties round to the
    even neighbours `-0.0` and `100.0`). -/
def percentLo : Rat := (-1 : Rat) / ((2 ^ 1075 : Nat) : Rat)
def percentHi : Rat := (100 : Rat) + (1 : Rat) / ((2 ^ 47 : Nat) : Rat)
/-- likewise for `[-1.0, 1.0]`:  `-1 - 2^-53 ≤ q ≤ 1 + 2^-53` -/
def unitLo : Rat := (-1 : Rat) - (1 : Rat) / ((2 ^ 53 : Nat) : Rat)
def unitHi : Rat := (1 : Rat) + (1 : Rat) / ((2 ^ 53 : Nat) : Rat)

def percentFrange : Atom := .frange percentLo true percentHi true 0 100
def unitFrange : Atom := .frange unitLo true unitHi true (-1) 1

/-- the flattened `Any of All of atoms` rule the translator must produce for the class -/
def ruleOfClass : RuleClass → Rule
  | .text => [[.str]]
  | .textOr ws => [[.str], [.inn ws]]
  | .empty => [[.lit []]]
  | .binary => [[.inn [['0'], ['1']]]]
  | .enum ws => [[.inn ws]]
  | .percentInt => [[.coerceInt, .range 0 100, .coerceStr]]
  | .percentFloat => [[.coerceFloat, percentFrange, .coerceStr]]
  | .unitFloat => [[.coerceFloat, unitFrange, .coerceStr]]
  | .int => [[.coerceInt, .coerceStr]]
  | .nodeId1 => [[.coerceInt, .range 1 254, .coerceStr]]
  | .nodeId0 => [[.coerceInt, .range 0 254, .coerceStr]]
  | .config => [[.coerceInt, .range 0 254], [.lit ['M']], [.lit ['I']]]
  | .time => [[.lit []], [.coerceInt, .coerceStr]]
  | .rgb => [[.str, .fn .rgb]]
  | .rgbw => [[.str, .fn .rgbw]]
  | .gps => [[.str, .fn .gps]]
  | .version => [[.fn .isVersion]]

/-- the reference tables of one protocol version -/
structure SpecTables where
  /-- command ↦ defined sub-type numbers -/
  subTypes : List (Int × List Int)
  /-- (command, sub-type) ↦ rule class -/
  rules : List ((Int × Int) × RuleClass)
  /-- presentation type ↦ value types a child of that type may carry -/
  validTypes : List (Int × List Int)

end MySensors
