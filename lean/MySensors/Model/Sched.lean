/-
  Save scheduler (mysensors/task.py) and the `need_save` protocol of
  `Persistence.save_sensors` (mysensors/persistence.py), as the code is now:

    save_sensors:  if not need_save: return
                   (permission check)           -- returns without touching anything
                   need_save = False            -- cleared BEFORE the dump
                   try:   write temp, renames   -- `Fs.saveOps`
                   except Exception: need_save = True; raise

    SyncTasks._schedule_factory.schedule_save:
                   try: save_sensors()  except Exception: log
                   Timer(10.0, schedule_save).start(); _cancel_save = timer.cancel
    AsyncTasks._schedule_factory.save_on_schedule:
                   while True:
                     try: await run_in_executor(save_sensors)
                     except CancelledError: break     except Exception: log
                     try: await sleep(10.0)           except CancelledError: break

  Messages are handled by another thread (sync: the poll thread; async: the loop thread while
  the save runs in an executor thread), so a message can be handled *during* a dump: `alert`
  then sets `need_save = True` and changes the network (`cur`).  If that changes the size of a
  dictionary being iterated the dump raises RuntimeError (`mutatedErr`), otherwise the dump
  succeeds with some snapshot (`mutatedOk`).
-/
import MySensors.Model.Fs

namespace MySensors.Sched

open MySensors.Fs

inductive Flavour where
  | sync | async
  deriving DecidableEq, Repr

structure Sys (σ : Type) where
  /-- the network state in memory -/
  cur : σ
  needSave : Bool := true
  disk : Store σ := {}
  /-- sync: an un-cancelled Timer is pending; async: the save task is alive -/
  armed : Bool := false
  /-- number of Timers started (sync) / loop iterations begun (async) -/
  rounds : Nat := 0
  deriving DecidableEq

/-- what happens during one scheduled `save_sensors` call -/
inductive Outcome (σ : Type) where
  /-- every file operation succeeds, nothing else happens meanwhile -/
  | ok
  /-- the given file operation raises OSError (when the save performs it at all) -/
  | ioError (op : FsOp)
  /-- the permission check fails: logged, returns normally, nothing written -/
  | denied
  /-- a message handled during the dump changes the network to `s'` and the dump raises -/
  | mutatedErr (s' : σ)
  /-- a message handled during the dump changes the network to `s'`; the dump completes and
      writes some snapshot `snap` -/
  | mutatedOk (snap s' : σ)
  deriving DecidableEq

/-- the operations completed before `op` fails -/
def before (op : FsOp) : List FsOp → List FsOp
  | [] => []
  | o :: os => if o = op then [] else o :: before op os

/-- `Gateway.alert` (and `add_sensor`) with persistence on -/
def handleMessage {σ} (s' : σ) (s : Sys σ) : Sys σ := { s with cur := s', needSave := true }

/-- `Persistence.save_sensors()`: new state and "an exception propagated" -/
def saveSensors {σ} (o : Outcome σ) (s : Sys σ) : Sys σ × Bool :=
  if !s.needSave then (s, false) else
  match o with
  | .denied => (s, false)
  | .ok =>
    let s1 := { s with needSave := false }
    ({ s1 with disk := save s1.cur s1.disk }, false)
  | .ioError op =>
    let s1 := { s with needSave := false }
    let ops := saveOps (fileExists s1.disk)
    if op ∈ ops then
      ({ s1 with disk := run s1.cur (before op ops) s1.disk, needSave := true }, true)
    else ({ s1 with disk := save s1.cur s1.disk }, false)
  | .mutatedErr s' =>
    let s1 := { s with needSave := false }
    let s2 := handleMessage s' { s1 with disk := run s1.cur [.openTmp, .write] s1.disk }
    ({ s2 with needSave := true }, true)
  | .mutatedOk snap s' =>
    let s1 := { s with needSave := false }
    let s2 := handleMessage s' s1
    ({ s2 with disk := save snap s2.disk }, false)

/-- one firing of the schedule: the save's exception (class Exception) is caught and logged,
    then the next Timer is started / the loop goes to sleep and comes round again -/
def tick {σ} (_fl : Flavour) (o : Outcome σ) (s : Sys σ) : Sys σ :=
  let r := saveSensors o s
  { r.1 with armed := true, rounds := r.1.rounds + 1 }

/-- the scheduler of the tree before the `fix:` commit (for contrast only): the exception
    propagates out of `schedule_save` / the task, nothing re-arms -/
def tickUnfixed {σ} (_fl : Flavour) (o : Outcome σ) (s : Sys σ) : Sys σ :=
  let r := saveSensors o s
  if r.2 then { r.1 with armed := false } else { r.1 with armed := true, rounds := r.1.rounds + 1 }

inductive Event (σ : Type) where
  /-- a scheduled save with the given outcome -/
  | tick (o : Outcome σ)
  /-- a message handled between two saves -/
  | msg (s' : σ)
  deriving DecidableEq

def stepEv {σ} (fl : Flavour) (s : Sys σ) : Event σ → Sys σ
  | .tick o => tick fl o s
  | .msg s' => handleMessage s' s

def runEv {σ} (fl : Flavour) (s : Sys σ) : List (Event σ) → Sys σ
  | [] => s
  | e :: es => runEv fl (stepEv fl s e) es

/-- `start_persistence()` of a fresh gateway on the files `disk`: load, then the first
    scheduled save happens at once (`schedule_save_sensors()` is called directly) -/
def start {σ} (empty : σ) (disk : Store σ) : Sys σ :=
  let l := safeLoad disk
  let cur := match l.2 with
    | .state s => s
    | _ => empty
  { cur := cur, needSave := true, disk := l.1, armed := false, rounds := 0 }

/-- `stop()`: cancel the pending timer / the task, then one last save -/
def stop {σ} (o : Outcome σ) (s : Sys σ) : Sys σ :=
  { (saveSensors o { s with armed := false }).1 with armed := false }

/-- the main file is absent or a complete state (no crash happens in this model, so a
    half-written main file cannot arise) -/
def MainOk {σ} (st : Store σ) : Prop := st.main = none ∨ ∃ s b, st.main = some ⟨.whole s, b⟩

/-- a state not marked unsaved is on disk -/
def Clean {σ} (s : Sys σ) : Prop := s.needSave = false → loadable s.disk = .state s.cur

def Outcome.fails {σ} (o : Outcome σ) (st : Store σ) : Bool :=
  match o with
  | .ioError op => decide (op ∈ saveOps (fileExists st))
  | .mutatedErr _ => true
  | _ => false

end MySensors.Sched
