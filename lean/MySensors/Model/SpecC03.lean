/-
  The statement side of property C03: what the property's prose says a line must satisfy,
  written against the frozen reference serial API (`Generated/SerialApi.lean`), without
  mentioning the voluptuous rule interpreter or the tables translated from /repo.
-/
import MySensors.Model.Validate
import MySensors.Generated.SerialApi

namespace MySensors

/-- what each rule class of the reference means, for an arbitrary payload string -/
def classSem : RuleClass → Str → Prop
  | .text, _ => True
  | .textOr _, _ => True
  | .empty, p => p = []
  | .binary, p => p = ['0'] ∨ p = ['1']
  | .enum ws, p => p ∈ ws
  | .percentInt, p => ∃ n, pyInt p = some n ∧ 0 ≤ n ∧ n ≤ 100
  | .percentFloat, p => ∃ q, pyFloat p = some (.fin q) ∧ percentLo ≤ q ∧ q ≤ percentHi
  | .unitFloat, p => ∃ q, pyFloat p = some (.fin q) ∧ unitLo ≤ q ∧ q ≤ unitHi
  | .int, p => (pyInt p).isSome = true
  | .nodeId1, p => ∃ n, pyInt p = some n ∧ 1 ≤ n ∧ n ≤ 254
  | .nodeId0, p => ∃ n, pyInt p = some n ∧ 0 ≤ n ∧ n ≤ 254
  | .config, p => (∃ n, pyInt p = some n ∧ 0 ≤ n ∧ n ≤ 254) ∨ p = ['M'] ∨ p = ['I']
  | .time, p => p = [] ∨ (pyInt p).isSome = true
  | .rgb, p => p.length = 6 ∧ ∀ c ∈ p, isHexDigit c = true
  | .rgbw, p => p.length = 8 ∧ ∀ c ∈ p, isHexDigit c = true
  | .gps, p => ∃ a b c, splitOn ',' p = [a, b, c] ∧
      (pyFloat a).isSome = true ∧ (pyFloat b).isSome = true ∧ (pyFloat c).isSome = true
  | .version, p => isVersion p = some true

/-- sub-type `s` of command `t` is defined in the reference of version `c` -/
def specDefined (c : ConstId) (t s : Int) : Prop :=
  ∃ subs, lookup t (SerialApi.spec c).subTypes = some subs ∧ s ∈ subs

/-- The header clause of the property, transcribed:
    node id 0..255; ack flag 0 or 1; command one of 0..4; sub-type defined in that version;
    child id: any integer for an id request / id response (internal 3 / 4), exactly 255 for
    every other internal and every stream message, 0..255 for a presentation and 0..254 for
    set / req (child 255 only for presentation / internal / stream). -/
def SpecHeader (c : ConstId) (m : Msg) : Prop :=
  (0 ≤ m.node ∧ m.node ≤ 255) ∧
  (m.ack = 0 ∨ m.ack = 1) ∧
  (m.type = 0 ∨ m.type = 1 ∨ m.type = 2 ∨ m.type = 3 ∨ m.type = 4) ∧
  specDefined c m.type m.sub ∧
  ((m.type = 3 ∧ (m.sub = 3 ∨ m.sub = 4)) ∨
   ((m.type = 3 ∨ m.type = 4) ∧ m.child = 255) ∨
   (m.type = 0 ∧ 0 ≤ m.child ∧ m.child ≤ 255) ∨
   ((m.type = 1 ∨ m.type = 2) ∧ 0 ≤ m.child ∧ m.child ≤ 254))

/-- the payload satisfies the rule class the reference gives for (command, sub-type) -/
def SpecRule (c : ConstId) (m : Msg) : Prop :=
  ∃ rc, lookup (m.type, m.sub) (SerialApi.spec c).rules = some rc ∧ classSem rc m.payload

/-- order of the protocol versions -/
def ConstId.rank : ConstId → Nat
  | .v14 => 0 | .v15 => 1 | .v20 => 2 | .v21 => 3 | .v22 => 4

/-- sub-type `s` of command `t` is defined in the tables translated from /repo -/
def definedIn (c : ConstId) (t s : Int) : Prop := (subTypesOf (Tables.tables c) t).contains s = true

/-- two association lists agree as finite maps (checked pairwise in both directions) -/
def tableEquiv {κ ν} [DecidableEq κ] [DecidableEq ν] (a b : List (κ × ν)) : Bool :=
  (a.all fun kv => lookup kv.1 b == some kv.2) && (b.all fun kv => lookup kv.1 a == some kv.2)

/-- the payload table the reference prescribes, as flattened rules -/
def specPayloads (c : ConstId) : List ((Int × Int) × Rule) :=
  (SerialApi.spec c).rules.map fun kr => (kr.1, ruleOfClass kr.2)

/-- the set/req rule table the reference prescribes (command 1 = set) -/
def specSetreq (c : ConstId) : List (Int × Rule) :=
  ((SerialApi.spec c).rules.filter fun kr => kr.1.1 == 1).map fun kr => (kr.1.2, ruleOfClass kr.2)

def ruleHasOpaque (r : Rule) : Bool :=
  r.any fun atoms => atoms.any fun a => match a with | .opaque _ => true | _ => false

end MySensors
