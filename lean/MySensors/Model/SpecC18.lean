/-
  The statement side of property C18: the documented floor rule for protocol versions,
  written with plain numeric (lexicographic) comparison of (major, minor, patch) — no
  reference to awesomeversion's section comparison.
-/
import MySensors.Model.Version
import MySensors.Model.Options

namespace MySensors

abbrev Triple := Nat × Nat × Nat

/-- numeric order of (major, minor, patch) -/
def verLt (a b : Triple) : Prop :=
  a.1 < b.1 ∨ (a.1 = b.1 ∧ (a.2.1 < b.2.1 ∨ (a.2.1 = b.2.1 ∧ a.2.2 < b.2.2)))

def verLe (a b : Triple) : Prop := ¬ verLt b a

/-- the five supported protocol versions -/
def constTriple : ConstId → Triple
  | .v14 => (1, 4, 0) | .v15 => (1, 5, 0) | .v20 => (2, 0, 0) | .v21 => (2, 1, 0) | .v22 => (2, 2, 0)

/-- `c` is the highest supported version not above `v`; 1.4 when every supported version is above -/
def IsFloor (v : Triple) (c : ConstId) : Prop :=
  (verLe (constTriple c) v ∧ ∀ c', verLe (constTriple c') v → verLe (constTriple c') (constTriple c)) ∨
  ((∀ c', ¬ verLe (constTriple c') v) ∧ c = .v14)

/-- the sections of `major.minor` / `major.minor.patch` -/
def versionSections (major minor : Nat) (patch : Option Nat) : List Nat :=
  match patch with
  | none => [major, minor]
  | some p => [major, minor, p]

/-- the optional documented keywords of a class -/
def documentedKeys (c : GwClass) : List Key := (classDesc c).documented.map (·.1)

end MySensors
