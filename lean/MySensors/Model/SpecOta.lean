/-
  C10 reference: the four-state firmware-update session automaton per node, the abstraction
  from the three session stores of `OTAFirmware` (`requested`, `unstarted`, `started`) to it,
  the messages the automaton prescribes, and the well-formedness invariants of the stores.

      idle --update--> requested --config req--> offered --block req--> fetching
                          ^   (config response)     |  ^ (config response again)    | (block response)
                          |                         +--+                            |
                          +------------------ update (from any state) -------------+

  Everything else (malformed payload, idle node, unknown node, config request while fetching,
  block request while only requested) changes nothing and is answered with nothing.
-/
import MySensors.Model.Gateway

namespace MySensors

inductive Session
  | idle
  | requested (fid : Int × Int)
  | offered (fid : Int × Int)
  | fetching (fid : Int × Int)
  deriving DecidableEq, Repr

def Session.isIdle : Session → Bool
  | .idle => true
  | _ => false

/-- a started store entry, if any -/
def absStarted (o : OtaState) (n : Int) : Session :=
  match aget n o.started with
  | some fid => .fetching fid
  | none => .idle

def absUnstarted (o : OtaState) (n : Int) : Session :=
  match aget n o.unstarted with
  | some fid => .offered fid
  | none => absStarted o n

/-- the session of node `n` held by the three stores -/
def absSession (o : OtaState) (n : Int) : Session :=
  match aget n o.requested with
  | some fid => .requested fid
  | none => absUnstarted o n

/-- `fw_int_to_hex` as a total function (16-bit little-endian words, lower-case hex) -/
def hexWords (ws : List Nat) : Str := hexBytes (ws.flatMap wordBytes)

/-- the firmware config response: the request with the response sub-type and
    type, version, block count, CRC as payload -/
def configResponseMsg (m : Msg) (sub : Int) (fid : Int × Int) (fw : Fw) : Msg :=
  { m with sub := sub, payload := hexWords [fid.1.toNat, fid.2.toNat, fw.blocks, fw.crc] }

/-- the firmware block response: the request with the response sub-type and the requested
    type, version, block index followed by the (up to) 16 bytes of that block -/
def blockResponseMsg (m : Msg) (sub : Int) (rt rv blk : Nat) (fw : Fw) : Msg :=
  { m with sub := sub, payload := hexWords [rt, rv, blk] ++ hexBytes (fwBlock fw.data blk) }

abbrev FwTable := List ((Int × Int) × Fw)

/-- well-formed config request of message `m` in session `s`: next session and prescribed reply -/
def specConfig (fws : FwTable) (sub : Int) (m : Msg) : Session → Session × Option Msg
  | .requested fid => (.offered fid, (lookup fid fws).map (configResponseMsg m sub fid))
  | .offered fid => (.offered fid, (lookup fid fws).map (configResponseMsg m sub fid))
  | .fetching fid => (.fetching fid, none)
  | .idle => (.idle, none)

/-- well-formed block request for `(rt, rv, blk)` -/
def specBlock (fws : FwTable) (sub : Int) (m : Msg) (rt rv blk : Nat) : Session → Session × Option Msg
  | .offered fid => (.fetching fid, (lookup ((rt : Int), (rv : Int)) fws).map (blockResponseMsg m sub rt rv blk))
  | .fetching fid => (.fetching fid, (lookup ((rt : Int), (rv : Int)) fws).map (blockResponseMsg m sub rt rv blk))
  | .requested fid => (.requested fid, none)
  | .idle => (.idle, none)

def imageAccepted (fws : FwTable) (key : Int × Int) : Option (List Nat) → Bool
  | some img => decide ((prepareFw img).blocks ≤ 0xFFFF)
  | none => (lookup key fws).isSome

/-- does the update call get past its argument checks (type/version in range, image not too
    large, firmware for (t, v) present after the call)? -/
def updateAccepted (g : GW) (t v : Int) (image : Option (List Nat)) : Bool :=
  decide (0 ≤ t ∧ t ≤ 0xFFFF ∧ 0 ≤ v ∧ v ≤ 0xFFFF) && imageAccepted g.ota.firmware (t, v) image

/-- the update call: an accepted call naming a known node restarts its session -/
def specUpdate (accepted named known : Bool) (t v : Int) (s : Session) : Session :=
  if accepted && named && known then .requested (t, v) else s

/-! ### invariants of the stores -/

/-- each store has every node at most once and a node is in at most one store -/
structure StoresOk (o : OtaState) : Prop where
  ndReq : (akeys o.requested).Nodup
  ndUnst : (akeys o.unstarted).Nodup
  ndSt : (akeys o.started).Nodup
  reqUnst : ∀ n, (aget n o.requested).isSome → aget n o.unstarted = none
  reqSt : ∀ n, (aget n o.requested).isSome → aget n o.started = none
  unstSt : ∀ n, (aget n o.unstarted).isSome → aget n o.started = none

def fidInRange (fid : Int × Int) : Prop := 0 ≤ fid.1 ∧ fid.1 ≤ 0xFFFF ∧ 0 ≤ fid.2 ∧ fid.2 ≤ 0xFFFF

/-- everything that goes into a response header fits 16 bits (so `struct.pack` cannot raise) -/
structure RangesOk (o : OtaState) : Prop where
  fids : ∀ p, p ∈ o.requested ∨ p ∈ o.unstarted ∨ p ∈ o.started → fidInRange p.2
  fws : ∀ kv ∈ o.firmware, kv.2.blocks < 65536 ∧ kv.2.crc < 65536

/-- firmware images are byte strings -/
def imageIsBytes : Option (List Nat) → Prop
  | some img => ∀ b ∈ img, b < 256
  | none => True

end MySensors
