/-
  C04 — the protocol meaning of an accepted message for the node / child / value tree.

  This is the specification side of C04: the *simplest possible* reading of one accepted
  (decoded and validated) message, written as a direct case analysis over the meaning of
  (type, sub-type) in the version's tables.  It knows nothing about the handlers'
  control flow (`is_sensor` guards, routing, hold queues, desired values, OTA sessions,
  smart sleep, gateway kind): only what a message says about the tree.

  The tree is the persisted projection `List (Int × PNode)` (insertion ordered: nodes in order
  of first appearance, children in order of first presentation, value types in order of first
  report).
-/
import MySensors.Model.Gateway

namespace MySensors

abbrev Tree := List (Int × PNode)

/-- a node nobody has said anything about yet: no type, no sketch, battery 0, protocol "1.4",
    heartbeat 0 -/
def freshPNode (id : Int) : PNode := ⟨id, [], none, none, none, 0, ['1', '.', '4'], 0⟩

/-- what a message is about -/
inductive Meaning
  | presentNode | presentChild | setValue | battery | sketchName | sketchVersion | heartbeat
  | idRequest | gatewayReady | firmware | other
  deriving DecidableEq, Repr

/-- internal sub-types are identified by the name they are registered under -/
def internalMeaning : HandlerId → Meaning
  | .handle_battery_level => .battery
  | .handle_sketch_name => .sketchName
  | .handle_sketch_version => .sketchVersion
  | .handle_heartbeat_response => .heartbeat
  | .handle_heartbeat_response_22 => .heartbeat
  | .handle_id_request => .idRequest
  | .handle_gateway_ready => .gatewayReady
  | .handle_gateway_ready_20 => .gatewayReady
  | _ => .other

def internalMeaningOf (o : Option HandlerId) : Meaning :=
  match o with
  | some h => internalMeaning h
  | none => .other

def meaning (c : ConstId) (m : Msg) : Meaning :=
  if m.type = (Tables.tables c).mtPresentation then
    (if m.child = Tables.systemChildId then .presentNode else .presentChild)
  else if m.type = (Tables.tables c).mtSet then .setValue
  else if m.type = (Tables.tables c).mtReq then .other
  else if m.type = (Tables.tables c).mtInternal then
    internalMeaningOf (lookup m.sub (Tables.tables c).internalHandlers)
  else if m.type = (Tables.tables c).mtStream then
    (if (lookup m.sub (Tables.tables c).streamHandlers).isSome then .firmware else .other)
  else .other

/-- change a known node in place; nothing happens for an unknown one -/
def updNode (t : Tree) (k : Int) (f : PNode → PNode) : Tree :=
  match aget k t with
  | none => t
  | some p => aset k (f p) t

/-- a node becomes known (at the end of the order) unless it already is -/
def addNode (t : Tree) (id : Int) : Tree :=
  match aget id t with
  | some _ => t
  | none => t ++ [(id, freshPNode id)]

/-- the version a node presentation reports, "1.4" when it is not a usable version -/
def reportedVersion (p : Str) : Str := (safeVersion p).getD ['1', '.', '4']

/-- node presentation: the node is known from now on; type and protocol version are the
    reported ones -/
def specPresentNode (t : Tree) (m : Msg) : Tree :=
  updNode (addNode t m.node) m.node fun p => { p with type := some m.sub, version := reportedVersion m.payload }

/-- the first presentation of a child id wins -/
def addChild (p : PNode) (m : Msg) : PNode :=
  match aget m.child p.children with
  | some _ => p
  | none => { p with children := p.children ++ [(m.child, ⟨m.child, m.sub, m.payload, []⟩)] }

/-- the last reported value per value type; the first report fixes the position -/
def storeValue (p : PNode) (m : Msg) : PNode :=
  match aget m.child p.children with
  | none => p
  | some ch => { p with children := aset m.child { ch with values := aset m.sub m.payload ch.values } p.children }

/-- next id: one above the largest known id (1 for an empty network) -/
def specNextId (t : Tree) : Int :=
  match akeys t with
  | [] => 1
  | k :: ks => ks.foldl max k + 1

/-- an id request makes node max+1 known while that is at most 254 -/
def specIdRequest (t : Tree) : Tree :=
  if specNextId t ≤ 254 then t ++ [(specNextId t, freshPNode (specNextId t))] else t

def specBattery (p : Str) : Int :=
  match pyInt p with
  | some v => if 0 ≤ v ∧ v ≤ 100 then v else 0
  | none => 0

def specHeartbeat (p : Str) : Int := (pyInt p).getD 0

/-- what a message with a given meaning says about the tree -/
def specBy (mg : Meaning) (t : Tree) (m : Msg) : Tree :=
  match mg with
  | .presentNode => specPresentNode t m
  | .presentChild => updNode t m.node fun p => addChild p m
  | .setValue => updNode t m.node fun p => storeValue p m
  | .battery => updNode t m.node fun p => { p with battery := specBattery m.payload }
  | .sketchName => updNode t m.node fun p => { p with sketchName := some m.payload }
  | .sketchVersion => updNode t m.node fun p => { p with sketchVersion := some m.payload }
  | .heartbeat => updNode t m.node fun p => { p with heartbeat := specHeartbeat m.payload }
  | .idRequest => specIdRequest t
  | .gatewayReady => t
  | .firmware => t
  | .other => t

/-- **the meaning of one accepted message for the tree** -/
def specStep (c : ConstId) (t : Tree) (m : Msg) : Tree := specBy (meaning c m) t m

def knownNode (t : Tree) (node : Int) : Bool := (aget node t).isSome

def knownChild (t : Tree) (node child : Int) : Bool :=
  match aget node t with
  | none => false
  | some p => (aget child p.children).isSome

/-- does a message with a given meaning fire the event callback -/
def notifiesBy (mg : Meaning) (t : Tree) (m : Msg) : Bool :=
  match mg with
  | .presentNode => true
  | .presentChild => knownNode t m.node && !knownChild t m.node m.child
  | .setValue => knownChild t m.node m.child
  | .battery => knownNode t m.node
  | .sketchName => knownNode t m.node
  | .sketchVersion => knownNode t m.node
  | .heartbeat => knownNode t m.node
  | .firmware => knownNode t m.node
  | .gatewayReady => true
  | .idRequest => false
  | .other => false

/-- **does this accepted message fire the event callback** (once, with the message itself) -/
def specNotifies (c : ConstId) (t : Tree) (m : Msg) : Bool := notifiesBy (meaning c m) t m

/-- handlers that run fallible work *before* their state change / callback: the smart-sleep
    burst of the 2.0 / 2.1 heartbeat response, and the reply construction of the firmware
    requests.  If that work raises (C01 shows it does not), the message has no effect. -/
def fallibleFirst (c : ConstId) (m : Msg) : Bool :=
  (decide (m.type = (Tables.tables c).mtInternal) &&
    decide (lookup m.sub (Tables.tables c).internalHandlers = some HandlerId.handle_heartbeat_response)) ||
  (decide (m.type = (Tables.tables c).mtStream))

/-! ### histories -/

structure SpecState where
  tree : Tree
  /-- content of the persistence file, `none` = no file yet -/
  disk : Option Tree
  deriving DecidableEq

def acceptedMsg (c : ConstId) (l : Str) : Option Msg :=
  match decode l with
  | none => none
  | some m => if validate c m then some m else none

def specLine (c : ConstId) (s : SpecState) (o : Option Msg) : SpecState :=
  match o with
  | none => s
  | some m => { s with tree := specStep c s.tree m }

/-- one op of a history: accepted lines act through `specStep`, a save (tick or stop) writes
    the tree when persistence is on, a restart starts from the file, controller calls and
    rejected lines change nothing -/
def specOp (c : ConstId) (persist : Bool) (s : SpecState) : Op → SpecState
  | .line l => specLine c s (acceptedMsg c l)
  | .saveTick => if persist then { s with disk := some s.tree } else s
  | .stop => if persist then { s with disk := some s.tree } else s
  | .restart => { s with tree := if persist then s.disk.getD [] else [] }
  | .setValue _ _ _ _ _ => s
  | .update _ _ _ _ => s
  | .clock _ => s
  | .metric _ => s

def specRun (c : ConstId) (persist : Bool) (s : SpecState) : List Op → SpecState
  | [] => s
  | op :: ops => specRun c persist (specOp c persist s op) ops

def specNotifyLine (c : ConstId) (t : Tree) (o : Option Msg) : List Msg :=
  match o with
  | none => []
  | some m => if specNotifies c t m then [m] else []

/-- callbacks an op must produce -/
def specNotifyOp (c : ConstId) (s : SpecState) : Op → List Msg
  | .line l => specNotifyLine c s.tree (acceptedMsg c l)
  | _ => []

def specCallbacks (c : ConstId) (persist : Bool) (s : SpecState) : List Op → List Msg
  | [] => []
  | op :: ops => specNotifyOp c s op ++ specCallbacks c persist (specOp c persist s op) ops

end MySensors
