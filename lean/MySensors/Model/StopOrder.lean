/-
  The shutdown window of `Tasks.stop()` (task.py), both flavours, together with the dirty-flag protocol
  of `Persistence.save_sensors` (persistence.py):

      stop():                                   save_sensors():
        self.transport.disconnect()               if not self.need_save: return
        ... stop the pump / cancel timers ...     self.need_save = False        # before the write
        self.persistence.save_sensors()           write a snapshot of the network, swap it in
                                                  (on failure: need_save = True, re-raise)

  While a periodic save or stop() runs, the message pump may still be handling lines (the threaded pump
  and the save timer are separate threads; the asyncio flavour saves in an executor thread and awaits
  inside stop()).  A line handled at any moment changes the network in memory, marks it unsaved
  (`alert` / `add_sensor` set need_save), and — only while the connection is still up — puts a reply on
  the wire.  The model keeps exactly that: a change is an opaque number, `handed` are the changes whose
  reply went out (an id response, for C06), `file` what the last completed save wrote, `snap` the
  snapshot a running save is writing.
-/
namespace MySensors.StopOrder

inductive Ev
  | proc (change : Nat)   -- the pump handles one more line: state changes, reply sent iff connected
  | disconnect
  | saveStart             -- save_sensors up to and including the serialisation of the network
  | saveEnd               -- the serialised snapshot has replaced the file
  deriving DecidableEq, Repr

structure St where
  connected : Bool := true
  known : List Nat := []
  file : List Nat := []
  handed : List Nat := []
  /-- `need_save` (a fresh Persistence object starts with it set) -/
  dirty : Bool := true
  snap : Option (List Nat) := none
  deriving DecidableEq, Repr

def step (s : St) : Ev → St
  | .proc c => { s with known := c :: s.known, dirty := true, handed := if s.connected then c :: s.handed else s.handed }
  | .disconnect => { s with connected := false }
  | .saveStart =>
    match s.snap with
    | some _ => s                                   -- one save at a time
    | none => if s.dirty then { s with dirty := false, snap := some s.known } else s
  | .saveEnd =>
    match s.snap with
    | some k => { s with file := k, snap := none }
    | none => s

def run (s : St) : List Ev → St
  | [] => s
  | e :: es => run (step s e) es

/-- only pump work -/
def OnlyProc (evs : List Ev) : Prop := ∀ e ∈ evs, ∃ c, e = .proc c

/-- stop()'s own actions, in the order of the code: disconnect, then the final save -/
def script : List Ev := [.disconnect, .saveStart, .saveEnd]

/-- the variant in which `need_save` is cleared only after the file has been swapped in -/
def stepLate (s : St) : Ev → St
  | .saveStart =>
    match s.snap with
    | some _ => s
    | none => if s.dirty then { s with snap := some s.known } else s
  | .saveEnd =>
    match s.snap with
    | some k => { s with file := k, snap := none, dirty := false }
    | none => s
  | e => step s e

def runLate (s : St) : List Ev → St
  | [] => s
  | e :: es => runLate (stepLate s e) es

/-- The thread-based MQTT gateway.  Its transport has no connection to close (`MQTTTransport.disconnect`
    does nothing), so a reply is published whenever a job runs.  What protects the file is the poll
    loop itself: `while not self._stop_event.is_set()` — once stop() has set the event (`disconnect`
    stands for that moment here) no queued job is run any more; it stays in the queue. -/
def stepMqtt (s : St) : Ev → St
  | .proc c => if s.connected then { s with known := c :: s.known, dirty := true, handed := c :: s.handed } else s
  | e => step s e

def runMqtt (s : St) : List Ev → St
  | [] => s
  | e :: es => runMqtt (stepMqtt s e) es

/-- a poll loop that keeps draining its queue after the stop event is set (it looks at the event only
    when the queue is empty): every job runs and is published -/
def stepMqttDrain (s : St) : Ev → St
  | .proc c => { s with known := c :: s.known, dirty := true, handed := c :: s.handed }
  | e => step s e

def runMqttDrain (s : St) : List Ev → St
  | [] => s
  | e :: es => runMqttDrain (stepMqttDrain s e) es

end MySensors.StopOrder
