/-
  The shutdown window of `Tasks.stop()` (task.py), both flavours:

      self.transport.disconnect()          -- from here on `Transport.send` drops every reply
      ... (stop the pump / cancel the connect task, cancel the save timer) ...
      self.persistence.save_sensors()      -- the final save

  While stop() runs the message pump may still be handling lines (the threaded pump is a separate
  thread; the asyncio flavour awaits inside stop()).  A line handled in the window changes the
  network in memory and, only while the connection is still up, puts a reply on the wire.
  The model keeps exactly that: a change is an opaque number, "handed" are the changes whose
  reply went out (an id response, for C06), "file" what the last save wrote.
-/
namespace MySensors.StopOrder

inductive Ev
  | proc (change : Nat)   -- the pump handles one more line: state changes, reply sent iff connected
  | disconnect
  | save
  deriving DecidableEq, Repr

structure St where
  connected : Bool := true
  known : List Nat := []
  file : List Nat := []
  handed : List Nat := []
  deriving DecidableEq, Repr

def step (s : St) : Ev → St
  | .proc c => { s with known := c :: s.known, handed := if s.connected then c :: s.handed else s.handed }
  | .disconnect => { s with connected := false }
  | .save => { s with file := s.known }

def run (s : St) : List Ev → St
  | [] => s
  | e :: es => run (step s e) es

/-- stop()'s own actions inside a schedule, in the order they happen -/
def stopActions : List Ev → List Ev
  | [] => []
  | .proc _ :: es => stopActions es
  | e :: es => e :: stopActions es

/-- the order of the code as it is: disconnect first, final save last -/
def script : List Ev := [.disconnect, .save]

end MySensors.StopOrder
