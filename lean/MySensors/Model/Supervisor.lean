/-
  C20 — connection supervision: an event automaton per gateway class and the TCP watchdog
  arithmetic.  Mirrors (as they are now in /repo)

    mysensors/gateway_serial.py   sync_connect, async_connect
    mysensors/gateway_tcp.py      sync_connect, async_connect, TCPTransport.run,
                                  BaseTCPGateway.check_connection, AsyncTCPGateway.check_connection,
                                  AsyncTCPMySensorsProtocol.connection_lost
    mysensors/transport.py        Transport.send / disconnect, SyncTransport.connect,
                                  AsyncTransport (conn_lost → connect_task),
                                  BaseMySensorsProtocol.connection_made / connection_lost /
                                  _connection_made / _connection_lost, AsyncMySensorsProtocol
    mysensors/task.py             SyncTasks.stop, AsyncTasks.start / stop

  Events are atomic: an event is applied when every thread / task is blocked in a device call
  (connect attempt in flight, reader waiting for data) — interleavings *inside* an event are the
  subject of C16.  Time is `Nat` milliseconds.  Core Lean only.
-/
namespace MySensors.Sup

inductive Flavour | serialSync | serialAsync | tcpSync | tcpAsync
  deriving DecidableEq, Repr

def Flavour.isAsync : Flavour → Bool
  | .serialAsync | .tcpAsync => true
  | _ => false

def Flavour.isTcp : Flavour → Bool
  | .tcpSync | .tcpAsync => true
  | _ => false

/-- what the devices and the user can do -/
inductive Ev
  | connectOk          -- the connect attempt in flight succeeds
  | connectFail        -- it fails (SerialException / OSError); the loop sleeps `rt` and dials again
  | connectTimeout     -- TCP: it times out after `rt` (socket.timeout / asyncio.TimeoutError), then as above
  | readError          -- the reader gets an exception from the device
  | writeError         -- a `send` whose `write` fails with OSError
  | send               -- a `send` whose `write` succeeds
  | peerCloseOrderly   -- TCP: the peer closes (EOF: `recv` returns b"");  serial: the device goes away
  | peerCloseAbrupt    -- TCP: reset;  serial: the device goes away
  | probeTimeout       -- TCP: the link stays silent until the watchdog gives up
  | userDisconnect     -- transport.disconnect()
  | stop               -- gateway.stop()
  deriving DecidableEq, Repr

inductive Out
  | connMade                -- gateway.on_conn_made(gateway)
  | connLost (exc : Bool)   -- gateway.on_conn_lost(gateway, exc): exc is an exception / None
  | connectAttempt          -- serial_for_url / create_connection / create_serial_connection called
  | write                   -- bytes handed to an open connection
  | crash                   -- a background thread / task dies with an unhandled AttributeError
  deriving DecidableEq, Repr

inductive Link
  | idle                          -- no connection and no connect loop
  | attempting (tracked : Bool)   -- a connect loop is alive with an attempt in flight;
                                  -- tracked: it is `transport.connect_task` (asyncio reconnects)
  | up                            -- connection established
  | upEof                         -- tcpSync only: the peer has closed, the reader has not noticed
  deriving DecidableEq, Repr

structure L where
  proto : Bool      -- transport.protocol is not None
  link : Link
  deriving DecidableEq, Repr

def isUp : Link → Bool
  | .up | .upEof => true
  | _ => false

def userEv : Ev → Bool
  | .userDisconnect | .stop => true
  | _ => false

/-- how an event shows itself to the given gateway class (`none`: cannot happen there).
    Serial ports have no orderly close: a vanished device is a `SerialException` from `read`
    (pyserial, also for `socket://` URLs); a TCP reset is an exception from `recv` in both
    flavours. -/
def norm (f : Flavour) : Ev → Option Ev
  | .peerCloseOrderly => if f.isTcp then some .peerCloseOrderly else some .readError
  | .peerCloseAbrupt => some .readError
  | .connectTimeout => if f.isTcp then some .connectTimeout else none
  | .probeTimeout => if f.isTcp then some .probeTimeout else none
  | e => some e

/-- the connection is gone: `on_conn_lost(exc)`; `reconnect` says whether
    `conn_lost_callback()` is called.  The new connect thread / task dials only `while
    transport.protocol`.  (`fx = false`: the tree before the two C20 repairs, where the asyncio
    `async_connect` loops were `while True`.) -/
def lose (fx : Bool) (f : Flavour) (s : L) (exc reconnect : Bool) : L × List Out :=
  if reconnect && ((!fx && f.isAsync) || s.proto) then
    ({ s with link := .attempting f.isAsync }, [.connLost exc, .connectAttempt])
  else ({ s with link := .idle }, [.connLost exc])

/-- after a failed attempt and the sleep: the loop condition `while transport.protocol` -/
def retry (fx : Bool) (f : Flavour) (s : L) : L × List Out :=
  if (!fx && f.isAsync) || s.proto then (s, [.connectAttempt]) else ({ s with link := .idle }, [])

def stepAttempting (fx : Bool) (f : Flavour) (s : L) (tr : Bool) : Ev → L × List Out
  | .connectOk =>
    -- protocol_factory() returns transport.protocol; None after a disconnect → AttributeError
    if s.proto then ({ s with link := .up }, [.connMade]) else ({ s with link := .idle }, [.crash])
  | .connectFail => retry fx f s
  | .connectTimeout => retry fx f s
  | .userDisconnect => ({ s with proto := false }, [])
  | .stop =>
    -- AsyncTasks.stop cancels transport.connect_task; the connect of `await gateway.start()`
    -- is not that task: it ends at its next loop test because the protocol is gone
    if f.isAsync && tr then ({ proto := false, link := .idle }, []) else ({ s with proto := false }, [])
  | _ => (s, [])

/-- asyncio TCP, orderly close by the peer.  Repaired code: `eof_received` calls
    `conn_lost_callback()` (the connect task starts dialling), then the transport closes and
    `connection_lost(None)` fires `on_conn_lost`.  Before the repair: `connection_lost(None)`
    only, no reconnect. -/
def asyncEof (fx : Bool) (f : Flavour) (s : L) : L × List Out :=
  if fx then
    if s.proto then ({ s with link := .attempting true }, [.connectAttempt, .connLost false])
    else ({ s with link := .idle }, [.connLost false])
  else lose fx f s false false

def stepUp (fx : Bool) (f : Flavour) (s : L) (eof : Bool) : Ev → L × List Out
  | .send => (s, [.write])
  | .writeError =>
    -- sync: send catches OSError, transport.close() makes the reader leave with error None,
    --       then conn_lost_callback();   asyncio: the transport reports connection_lost(exc)
    if f.isAsync then lose fx f s true true else lose fx f s false true
  | .readError => lose fx f s true true
  | .peerCloseOrderly =>
    if eof then (s, [])
    else if f.isAsync then asyncEof fx f s
    else ({ s with link := .upEof }, [])            -- TCPTransport.run ignores `recv() == b""`
  | .probeTimeout =>
    -- one I_VERSION probe is written, then: sync raises OSError in the reader
    -- (connection_lost(exc)); asyncio closes the transport (connection_lost(None)) and calls
    -- conn_lost_callback() itself
    let r := if f.isAsync then lose fx f s false true else lose fx f s true true
    (r.1, .write :: r.2)
  | .userDisconnect => ({ proto := false, link := .idle }, [.connLost false])
  | .stop => ({ proto := false, link := .idle }, [.connLost false])
  | _ => (s, [])

def stepIdle (s : L) : Ev → L × List Out
  | .userDisconnect => ({ s with proto := false }, [])
  | .stop => ({ s with proto := false }, [])
  | _ => (s, [])

def stepNorm (fx : Bool) (f : Flavour) (s : L) (e : Ev) : L × List Out :=
  match s.link with
  | .idle => stepIdle s e
  | .attempting tr => stepAttempting fx f s tr e
  | .up => stepUp fx f s false e
  | .upEof => stepUp fx f s true e

/-- one event; `fx = true` is the code as it is now, `fx = false` the code before the repairs
    of `async_connect` (loop condition) and `AsyncTCPMySensorsProtocol.eof_received` -/
def lstepG (fx : Bool) (f : Flavour) (s : L) (e : Ev) : L × List Out :=
  match norm f e with
  | none => (s, [])
  | some e' => stepNorm fx f s e'

/-- the current code -/
def lstep (f : Flavour) (s : L) (e : Ev) : L × List Out := lstepG true f s e

/-- state after `start()`: the first attempt is in flight (not tracked) -/
def linit : L := { proto := true, link := .attempting false }

def finalG (fx : Bool) (f : Flavour) (s : L) : List Ev → L
  | [] => s
  | e :: es => finalG fx f (lstepG fx f s e).1 es

def outsOfG (fx : Bool) (f : Flavour) (s : L) : List Ev → List Out
  | [] => []
  | e :: es => (lstepG fx f s e).2 ++ outsOfG fx f (lstepG fx f s e).1 es

def final (f : Flavour) (s : L) : List Ev → L
  | [] => s
  | e :: es => final f (lstep f s e).1 es

def outsOf (f : Flavour) (s : L) : List Ev → List Out
  | [] => []
  | e :: es => (lstep f s e).2 ++ outsOf f (lstep f s e).1 es

/-- number of connections established / lost along an event sequence (edges of `isUp`) -/
def rises (f : Flavour) (s : L) : List Ev → Nat
  | [] => 0
  | e :: es => (if !isUp s.link && isUp (lstep f s e).1.link then 1 else 0) + rises f (lstep f s e).1 es

def falls (f : Flavour) (s : L) : List Ev → Nat
  | [] => 0
  | e :: es => (if isUp s.link && !isUp (lstep f s e).1.link then 1 else 0) + falls f (lstep f s e).1 es

def isMade : Out → Bool
  | .connMade => true
  | _ => false

def isLost : Out → Bool
  | .connLost _ => true
  | _ => false

/-- the made/lost callbacks alternate, starting from link state `up`; result: final state -/
def alt : Bool → List Out → Option Bool
  | up, [] => some up
  | up, .connMade :: os => if up then none else alt true os
  | up, .connLost _ :: os => if up then alt false os else none
  | up, _ :: os => alt up os

/-- forbidden after stop(): callbacks, writes, connect attempts -/
def loud : Out → Bool
  | .crash => false
  | _ => true

/-! ### Time -/

/-- polling period of `TCPTransport.run` (`time.sleep(0.02)`) and the extra delay of the asyncio
    timer (`reconnect_timeout + 0.1`) -/
def pollMs : Nat := 20
def asyncExtraMs : Nat := 100

/-- time consumed by an event -/
def advance (f : Flavour) (rt : Nat) (s : L) (e : Ev) : Nat :=
  match norm f e, s.link with
  | some .connectFail, .attempting _ => rt
  | some .connectTimeout, .attempting _ => 2 * rt
  | some .probeTimeout, .up | some .probeTimeout, .upEof =>
    if f.isAsync then 2 * (rt + asyncExtraMs) else (2 * rt / pollMs + 1) * pollMs
  | _, _ => 0

/-- offset of the probe written during a `probeTimeout` -/
def probeAt (f : Flavour) (rt : Nat) : Nat :=
  if f.isAsync then rt + asyncExtraMs else (rt / pollMs + 1) * pollMs

structure T where
  l : L
  now : Nat
  deriving DecidableEq, Repr

def tstepG (fx : Bool) (f : Flavour) (rt : Nat) (t : T) (e : Ev) : T × List (Nat × Out) :=
  let r := lstepG fx f t.l e
  let dt := advance f rt t.l e
  let isProbe := norm f e == some .probeTimeout
  ({ l := r.1, now := t.now + dt },
   r.2.map fun o => (if isProbe && o == .write then t.now + probeAt f rt else t.now + dt, o))

def tstep (f : Flavour) (rt : Nat) (t : T) (e : Ev) : T × List (Nat × Out) := tstepG true f rt t e

def tinit : T := { l := linit, now := 0 }

def trunG (fx : Bool) (f : Flavour) (rt : Nat) (t : T) : List Ev → T × List (List (Nat × Out))
  | [] => (t, [])
  | e :: es =>
    let r := tstepG fx f rt t e
    let rest := trunG fx f rt r.1 es
    (rest.1, r.2 :: rest.2)

def trun (f : Flavour) (rt : Nat) (t : T) : List Ev → T × List (List (Nat × Out))
  | [] => (t, [])
  | e :: es =>
    let r := tstep f rt t e
    let rest := trun f rt r.1 es
    (rest.1, r.2 :: rest.2)

/-! ### Watchdog: `BaseTCPGateway.check_connection` over a millisecond clock -/

structure W where
  tCheck : Nat      -- tcp_check_timer
  tDisc : Nat       -- tcp_disconnect_timer
  deriving DecidableEq, Repr

inductive WOut | idle | probe | drop
  deriving DecidableEq, Repr

/-- if tcp_disconnect_timer + 2*rt < now: reset it, raise OSError
    elif tcp_check_timer + rt >= now: return
    else: queue I_VERSION, tcp_check_timer = now -/
def check (rt : Nat) (w : W) (now : Nat) : W × WOut :=
  if w.tDisc + 2 * rt < now then ({ w with tDisc := now }, .drop)
  else if w.tCheck + rt ≥ now then (w, .idle)
  else ({ w with tCheck := now }, .probe)

/-- `_handle_i_version` -/
def answer (w : W) (now : Nat) : W := { w with tDisc := now }

/-- both timers are set when the connection is made -/
def wconnect (t0 : Nat) : W := { tCheck := t0, tDisc := t0 }

inductive WEv
  | check (now : Nat)
  | answer (now : Nat)
  deriving DecidableEq, Repr

def WEv.time : WEv → Nat
  | .check t => t
  | .answer t => t

/-- watchdog with the ghost state the theorems talk about -/
structure WS where
  w : W
  last : Nat             -- time of the last event
  lastCheck : Nat        -- time of the last check (or of the connect)
  pend : Option Nat      -- a probe is outstanding, sent at this time
  dropped : Bool
  deriving DecidableEq, Repr

def wsInit (t0 : Nat) : WS :=
  { w := wconnect t0, last := t0, lastCheck := t0, pend := none, dropped := false }

def wstep (rt : Nat) (s : WS) : WEv → WS
  | .check now =>
    match (check rt s.w now).2 with
    | .drop => { s with w := (check rt s.w now).1, last := now, lastCheck := now, dropped := true }
    | .idle => { s with last := now, lastCheck := now }
    | .probe => { s with w := (check rt s.w now).1, last := now, lastCheck := now, pend := some now }
  | .answer now => { s with w := answer s.w now, last := now, pend := none }

def wrun (rt : Nat) (s : WS) : List WEv → WS
  | [] => s
  | e :: es => wrun rt (wstep rt s e) es

/-- dense checking (threaded reader): consecutive checks at most `G` apart; the refresh of
    `tcp_disconnect_timer` caused by a probe happens at most `d` after the probing check, and
    before any later event -/
def pendOk (d : Nat) (p : Option Nat) (t : Nat) : Prop :=
  match p with
  | none => True
  | some c => t ≤ c + d

def admDense (G d : Nat) (s : WS) (e : WEv) : Prop :=
  s.last ≤ e.time ∧
  pendOk d s.pend e.time ∧
  match e with
  | .check now => now ≤ s.lastCheck + G
  | .answer _ => True

instance (d : Nat) (p : Option Nat) (t : Nat) : Decidable (pendOk d p t) := by
  unfold pendOk; cases p <;> exact inferInstance

instance (G d : Nat) (s : WS) (e : WEv) : Decidable (admDense G d s e) := by
  unfold admDense; cases e <;> exact inferInstance

def AdmDense (rt G d : Nat) : WS → List WEv → Prop
  | _, [] => True
  | s, e :: es => admDense G d s e ∧ AdmDense rt G d (wstep rt s e) es

def AdmDense.dec (rt G d : Nat) : (s : WS) → (evs : List WEv) → Decidable (AdmDense rt G d s evs)
  | _, [] => isTrue trivial
  | s, e :: es =>
    match (inferInstance : Decidable (admDense G d s e)), AdmDense.dec rt G d (wstep rt s e) es with
    | isTrue a, isTrue b => isTrue ⟨a, b⟩
    | isFalse a, _ => isFalse fun h => a h.1
    | _, isFalse b => isFalse fun h => b h.2

instance (rt G d : Nat) (s : WS) (evs : List WEv) : Decidable (AdmDense rt G d s evs) :=
  AdmDense.dec rt G d s evs

/-- sparse checking (asyncio timer): every check comes more than `rt` and at most `2·rt` after
    the previous one, and the probe of the previous check has been answered by then -/
def admSparse (rt : Nat) (s : WS) (e : WEv) : Prop :=
  s.last ≤ e.time ∧
  match e with
  | .check now => s.lastCheck + rt < now ∧ now ≤ s.lastCheck + 2 * rt ∧ s.pend = none
  | .answer _ => s.pend.isSome = true

instance (rt : Nat) (s : WS) (e : WEv) : Decidable (admSparse rt s e) := by
  unfold admSparse; cases e <;> exact inferInstance

def AdmSparse (rt : Nat) : WS → List WEv → Prop
  | _, [] => True
  | s, e :: es => admSparse rt s e ∧ AdmSparse rt (wstep rt s e) es

def AdmSparse.dec (rt : Nat) : (s : WS) → (evs : List WEv) → Decidable (AdmSparse rt s evs)
  | _, [] => isTrue trivial
  | s, e :: es =>
    match (inferInstance : Decidable (admSparse rt s e)), AdmSparse.dec rt (wstep rt s e) es with
    | isTrue a, isTrue b => isTrue ⟨a, b⟩
    | isFalse a, _ => isFalse fun h => a h.1
    | _, isFalse b => isFalse fun h => b h.2

instance (rt : Nat) (s : WS) (evs : List WEv) : Decidable (AdmSparse rt s evs) :=
  AdmSparse.dec rt s evs

/-- a silent link: only checks; the time of the first one that drops -/
def firstDrop (rt : Nat) (w : W) : List Nat → Option Nat
  | [] => none
  | t :: ts =>
    match (check rt w t).2 with
    | .drop => some t
    | _ => firstDrop rt (check rt w t).1 ts

/-- consecutive times at most `G` apart, starting after `l` -/
def Gaps (G : Nat) : Nat → List Nat → Prop
  | _, [] => True
  | l, t :: ts => l ≤ t ∧ t ≤ l + G ∧ Gaps G t ts

/-! ### Deterministic simulations compared with the real code (harness/c20.py) -/

inductive Job | probe | logic
  deriving DecidableEq, Repr

inductive SimOut | write | handled | drop
  deriving DecidableEq, Repr

structure SyncSim where
  w : W
  tr : Nat                 -- next reader tick
  tp : Nat                 -- next pump tick
  queue : List Job
  inflight : List Nat      -- arrival times of answers not yet received
  nProbe : Nat
  log : List (Nat × SimOut)
  done : Bool
  deriving Repr

def latAt (lats : List (Option Nat)) (i : Nat) : Option Nat :=
  match lats[i]? with
  | some l => l
  | none => none

/-- the reader's loop body at time `t`: recv what has arrived, check_connection, sleep -/
def readerTick (rt poll : Nat) (s : SyncSim) : SyncSim :=
  let t := s.tr
  let arrived := s.inflight.filter (· ≤ t)
  let rest := s.inflight.filter (fun a => !(a ≤ t))
  let q := s.queue ++ arrived.map (fun _ => Job.logic)
  let r := check rt s.w t
  match r.2 with
  | .drop => { s with w := r.1, queue := q, inflight := rest, log := s.log ++ [(t, .drop)], done := true }
  | .probe => { s with w := r.1, queue := q ++ [.probe], inflight := rest, tr := t + poll }
  | .idle => { s with w := r.1, queue := q, inflight := rest, tr := t + poll }

def runJob (lats : List (Option Nat)) (t : Nat) (s : SyncSim) : Job → SyncSim
  | .probe =>
    let infl := match latAt lats s.nProbe with
      | some l => s.inflight ++ [t + l]
      | none => s.inflight
    { s with inflight := infl, nProbe := s.nProbe + 1, log := s.log ++ [(t, .write)] }
  | .logic => { s with w := answer s.w t, log := s.log ++ [(t, .handled)] }

/-- the pump drains the queue at time `t`, then sleeps -/
def pumpTick (poll : Nat) (lats : List (Option Nat)) (s : SyncSim) : SyncSim :=
  let t := s.tp
  let s' := s.queue.foldl (runJob lats t) { s with queue := [] }
  { s' with tp := t + poll }

def syncSimLoop (rt poll : Nat) (pumpFirst : Bool) (lats : List (Option Nat)) (horizon : Nat) :
    Nat → SyncSim → SyncSim
  | 0, s => s
  | n + 1, s =>
    if s.done then s else
    let readerNext := if pumpFirst then s.tr < s.tp else s.tr ≤ s.tp
    if min s.tr s.tp > horizon then s
    else if readerNext then syncSimLoop rt poll pumpFirst lats horizon n (readerTick rt poll s)
    else syncSimLoop rt poll pumpFirst lats horizon n (pumpTick poll lats s)

def syncSim (rt poll phase : Nat) (pumpFirst : Bool) (lats : List (Option Nat)) (horizon : Nat) :
    List (Nat × SimOut) :=
  (syncSimLoop rt poll pumpFirst lats horizon (2 * (horizon / poll + 2))
    { w := wconnect 0, tr := 0, tp := phase, queue := [], inflight := [], nProbe := 0, log := [], done := false }).log

structure AsyncSim where
  w : W
  nextCheck : Nat
  inflight : List Nat
  nProbe : Nat
  log : List (Nat × SimOut)
  done : Bool
  deriving Repr

/-- asyncio flavour: the timer fires every `rt + 100`; probes are written and answers handled
    inline; answers that arrive at or before a check are handled first -/
def asyncSimLoop (rt : Nat) (lats : List (Option Nat)) (horizon : Nat) : Nat → AsyncSim → AsyncSim
  | 0, s => s
  | n + 1, s =>
    if s.done || s.nextCheck > horizon then s else
    let t := s.nextCheck
    let arrived := s.inflight.filter (· ≤ t)
    let rest := s.inflight.filter (fun a => !(a ≤ t))
    let w1 := arrived.foldl (fun w a => if w.tDisc ≤ a then answer w a else w) s.w
    let log1 := s.log ++ arrived.map (fun a => (a, SimOut.handled))
    let r := check rt w1 t
    match r.2 with
    | .drop => { s with w := r.1, inflight := rest, log := log1 ++ [(t, .drop)], done := true }
    | .idle =>
      asyncSimLoop rt lats horizon n { s with w := r.1, inflight := rest, log := log1, nextCheck := t + rt + asyncExtraMs }
    | .probe =>
      let infl := match latAt lats s.nProbe with
        | some l => rest ++ [t + l]
        | none => rest
      asyncSimLoop rt lats horizon n
        { s with w := r.1, inflight := infl, nProbe := s.nProbe + 1, log := log1 ++ [(t, .write)], nextCheck := t + rt + asyncExtraMs }

def asyncSim (rt : Nat) (lats : List (Option Nat)) (horizon : Nat) : List (Nat × SimOut) :=
  (asyncSimLoop rt lats horizon (horizon / (rt + asyncExtraMs) + 2)
    { w := wconnect 0, nextCheck := 0, inflight := [], nProbe := 0, log := [], done := false }).log

end MySensors.Sup
