/-
  C16 — small-step interleaving model of `Transport.send`, `Transport.disconnect`,
  `BaseMySensorsProtocol._connection_lost / connection_lost / connection_made`
  (mysensors/transport.py) and of the `SyncTasks` job queue (mysensors/task.py).

  Granularity: one step = one access to a shared object — a read or write of
  `Transport.protocol` (`tp`), of `protocol.transport` (`pt`), a `write()` / `close()` call on a
  connection object, or a call of one of the callbacks.  Everything between two such accesses is
  thread-local.  The harness (harness/c16.py) instruments exactly these accesses on the real,
  unmodified methods and compares (a) the solo access sequence of every thread with
  `soloLabels`, (b) every interleaving with `run`.

  Core Lean only.
-/
namespace MySensors.Tr

/-- the two fake connection objects: `c0` the connection that exists at the start,
    `c1` the one a reconnect installs -/
inductive Conn | c0 | c1
  deriving DecidableEq, Repr, Inhabited

inductive Status | running | returned | raisedAttr | raisedIndex
  deriving DecidableEq, Repr, Inhabited

/-- shared cells and the observable effects -/
structure Sh where
  tp : Bool                       -- `Transport.protocol is not None`
  pt : Option Conn                -- `protocol.transport`
  open0 : Bool
  open1 : Bool
  attempts : List (Conn × Bool)   -- every `write()` call: connection, was it open (= did it succeed)
  onLost : Nat                    -- calls of gateway.on_conn_lost
  onMade : Nat                    -- calls of gateway.on_conn_made
  reconn : Nat                    -- calls of protocol.conn_lost_callback (= reconnect requests)
  deriving DecidableEq, Repr, Inhabited

def Sh.isOpen (s : Sh) : Conn → Bool
  | .c0 => s.open0
  | .c1 => s.open1

def Sh.closeConn (s : Sh) : Conn → Sh
  | .c0 => { s with open0 := false }
  | .c1 => { s with open1 := false }

/-- the write log of the fake connections: the successful `write()` calls -/
def Sh.writeLog (s : Sh) : List Conn := (s.attempts.filter (·.2)).map (·.1)

/-- thread programs -/
inductive Kind
  | send                      -- Transport.send as in the current tree
  | sendPinned                -- Transport.send at the pinned commit 4d311f5 (regression witness only)
  | lossHook (exc : Bool)     -- BaseMySensorsProtocol._connection_lost(exc)
  | lossFull (exc : Bool)     -- BaseMySensorsProtocol.connection_lost(exc)  (threaded reader)
  | disconnect                -- Transport.disconnect
  | connMade (guarded : Bool) -- BaseMySensorsProtocol.connection_made(c1); guarded: only after a
                              -- reconnect was requested (conn_lost_callback has been called)
  deriving DecidableEq, Repr, Inhabited

structure Th where
  kind : Kind
  pc : Nat := 0
  lt : Option Conn := none       -- the thread's local `transport`
  st : Status := .running
  deriving DecidableEq, Repr, Inhabited

/-- labels of shared accesses, as logged by the instrumented real code -/
inductive Label
  | rTp | wTp | rPt | wPt | write (c : Conn) | close (c : Conn) | closeSerial (c : Conn)
  | cb | onLost | onMade
  deriving DecidableEq, Repr

def Th.fin (t : Th) (st : Status) : Th := { t with st := st }
def Th.goto (t : Th) (pc : Nat) : Th := { t with pc := pc }

/-- the three steps of `_connection_lost(exc)` starting at program counter `b` -/
def hookStep (exc : Bool) (b : Nat) (t : Th) (s : Sh) : Option (Label × Th × Sh) :=
  if t.pc = b then
    some (.onLost, t.goto (if exc then b + 1 else b + 2), { s with onLost := s.onLost + 1 })
  else if t.pc = b + 1 then
    some (.cb, t.goto (b + 2), { s with reconn := s.reconn + 1 })
  else if t.pc = b + 2 then
    some (.wPt, t.fin .returned, { s with pt := none })
  else none

/-- current `Transport.send` (message non-empty):
      protocol = self.protocol                                  0: R tp
      transport = protocol.transport if protocol else None      1: R pt
      if not transport: return
      try: transport.write(...)                                 2: write
      except OSError: transport.close()                         3: close
                      protocol.conn_lost_callback()             4: cb            -/
def sendStep (t : Th) (s : Sh) : Option (Label × Th × Sh) :=
  match t.pc, t.lt with
  | 0, _ => some (.rTp, if s.tp then t.goto 1 else t.fin .returned, s)
  | 1, _ =>
    match s.pt with
    | none => some (.rPt, t.fin .returned, s)
    | some c => some (.rPt, { t with pc := 2, lt := some c }, s)
  | 2, some c =>
    if s.isOpen c then some (.write c, t.fin .returned, { s with attempts := s.attempts ++ [(c, true)] })
    else some (.write c, t.goto 3, { s with attempts := s.attempts ++ [(c, false)] })
  | 3, some c => some (.close c, t.goto 4, s.closeConn c)
  | 4, _ => some (.cb, t.fin .returned, { s with reconn := s.reconn + 1 })
  | _, _ => none

/-- `Transport.send` at the pinned commit: every use re-reads `self.protocol` and
    `self.protocol.transport`:
      if not self.protocol or not self.protocol.transport: return        0: R tp  1: R tp  2: R pt
      try: self.protocol.transport.write(...)                            3: R tp  4: R pt  5: write
      except OSError:
        _LOGGER.error(..., self.protocol.transport, exc)                 6: R tp  7: R pt
        self.protocol.transport.close()                                  8: R tp  9: R pt  10: close
        self.protocol.conn_lost_callback()                               11: R tp 12: cb   -/
def sendPinnedStep (t : Th) (s : Sh) : Option (Label × Th × Sh) :=
  match t.pc, t.lt with
  | 0, _ => some (.rTp, if s.tp then t.goto 1 else t.fin .returned, s)
  | 1, _ => some (.rTp, if s.tp then t.goto 2 else t.fin .raisedAttr, s)
  | 2, _ => some (.rPt, if s.pt.isSome then t.goto 3 else t.fin .returned, s)
  | 3, _ => some (.rTp, if s.tp then t.goto 4 else t.fin .raisedAttr, s)
  | 4, _ =>
    match s.pt with
    | none => some (.rPt, t.fin .raisedAttr, s)
    | some c => some (.rPt, { t with pc := 5, lt := some c }, s)
  | 5, some c =>
    if s.isOpen c then some (.write c, t.fin .returned, { s with attempts := s.attempts ++ [(c, true)] })
    else some (.write c, t.goto 6, { s with attempts := s.attempts ++ [(c, false)] })
  | 6, _ => some (.rTp, if s.tp then t.goto 7 else t.fin .raisedAttr, s)
  | 7, _ => some (.rPt, t.goto 8, s)
  | 8, _ => some (.rTp, if s.tp then t.goto 9 else t.fin .raisedAttr, s)
  | 9, _ =>
    match s.pt with
    | none => some (.rPt, t.fin .raisedAttr, s)
    | some c => some (.rPt, { t with pc := 10, lt := some c }, s)
  | 10, some c => some (.close c, t.goto 11, s.closeConn c)
  | 11, _ => some (.rTp, if s.tp then t.goto 12 else t.fin .raisedAttr, s)
  | 12, _ => some (.cb, t.fin .returned, { s with reconn := s.reconn + 1 })
  | _, _ => none

/-- `BaseMySensorsProtocol.connection_lost(exc)`:
      _LOGGER.debug(..., self.transport.serial)        0: R pt
      if exc: self.transport.serial.close()            1: R pt   2: closeSerial
      self._connection_lost(exc)                       3,4,5                          -/
def lossFullStep (exc : Bool) (t : Th) (s : Sh) : Option (Label × Th × Sh) :=
  match t.pc, t.lt with
  | 0, _ =>
    match s.pt with
    | none => some (.rPt, t.fin .raisedAttr, s)
    | some _ => some (.rPt, t.goto (if exc then 1 else 3), s)
  | 1, _ =>
    match s.pt with
    | none => some (.rPt, t.fin .raisedAttr, s)
    | some c => some (.rPt, { t with pc := 2, lt := some c }, s)
  | 2, some c => some (.closeSerial c, t.goto 3, s.closeConn c)
  | _, _ => hookStep exc 3 t s

/-- `Transport.disconnect`:
      if not self.protocol or not self.protocol.transport:     0: R tp   1: R tp  2: R pt
          self.protocol = None; return                         6: W tp
      self.protocol.transport.close()                          3: R tp   4: R pt  5: close
      self.protocol = None                                     6: W tp                     -/
def disconnectStep (t : Th) (s : Sh) : Option (Label × Th × Sh) :=
  match t.pc, t.lt with
  | 0, _ => some (.rTp, t.goto (if s.tp then 1 else 6), s)
  | 1, _ => some (.rTp, if s.tp then t.goto 2 else t.fin .raisedAttr, s)
  | 2, _ => some (.rPt, t.goto (if s.pt.isSome then 3 else 6), s)
  | 3, _ => some (.rTp, if s.tp then t.goto 4 else t.fin .raisedAttr, s)
  | 4, _ =>
    match s.pt with
    | none => some (.rPt, t.fin .raisedAttr, s)
    | some c => some (.rPt, { t with pc := 5, lt := some c }, s)
  | 5, some c => some (.close c, t.goto 6, s.closeConn c)
  | 6, _ => some (.wTp, t.fin .returned, { s with tp := false })
  | _, _ => none

/-- `BaseMySensorsProtocol.connection_made(c1)`:
      super().connection_made(transport)  → self.transport = transport      0: W pt
      if hasattr(self.transport, "serial"):                                 1: R pt
          _LOGGER.info(..., self.transport.serial)                          2: R pt (None → AttributeError)
      else: _LOGGER.info(..., self.transport)                               2: R pt
      self._connection_made()                                               3: onMade    -/
def connMadeStep (guarded : Bool) (t : Th) (s : Sh) : Option (Label × Th × Sh) :=
  match t.pc with
  | 0 => if guarded && s.reconn == 0 then none else some (.wPt, t.goto 1, { s with pt := some .c1 })
  | 1 => some (.rPt, { t with pc := 2, lt := s.pt }, s)          -- hasattr(None, "serial") is False
  | 2 =>                                                          -- both branches read it again
    some (.rPt, if t.lt.isSome && s.pt.isNone then t.fin .raisedAttr else t.goto 3, s)
  | 3 => some (.onMade, t.fin .returned, { s with onMade := s.onMade + 1 })
  | _ => none

/-- one step of a thread; `none` when it has finished or is blocked -/
def stepTh (t : Th) (s : Sh) : Option (Label × Th × Sh) :=
  if t.st ≠ .running then none else
  match t.kind with
  | .send => sendStep t s
  | .sendPinned => sendPinnedStep t s
  | .lossHook exc => hookStep exc 0 t s
  | .lossFull exc => lossFullStep exc t s
  | .disconnect => disconnectStep t s
  | .connMade g => connMadeStep g t s

structure Cfg where
  sh : Sh
  ths : List Th
  deriving DecidableEq, Repr, Inhabited

/-- schedule the `i`-th thread for one step -/
def stepAt (i : Nat) (c : Cfg) : Option Cfg :=
  match c.ths[i]? with
  | none => none
  | some t =>
    match stepTh t c.sh with
    | none => none
    | some (_, t', s') => some { sh := s', ths := c.ths.set i t' }

/-- run a schedule: a list of thread indices; picking a finished or blocked thread is a no-op,
    so *every* `List Nat` is a schedule -/
def run (c : Cfg) : List Nat → Cfg
  | [] => c
  | i :: s =>
    match stepAt i c with
    | none => run c s
    | some c' => run c' s

/-- no thread can move -/
def quiescent (c : Cfg) : Bool :=
  (List.range c.ths.length).all fun i => (stepAt i c).isNone

/-- exhaustive exploration: `P` holds on `c` and on everything reachable from it, and every
    branch ends within `n` steps -/
def check (P : Cfg → Bool) : Nat → Cfg → Bool
  | 0, _ => false
  | n + 1, c =>
    P c && (List.range c.ths.length).all fun i =>
      match stepAt i c with
      | none => true
      | some c' => check P n c'

/-- all maximal schedules (as index lists) with their final configuration -/
def allRuns : Nat → Cfg → List (List Nat × Cfg)
  | 0, c => [([], c)]
  | n + 1, c =>
    let succ := (List.range c.ths.length).filterMap fun i => (stepAt i c).map fun c' => (i, c')
    if succ.isEmpty then [([], c)]
    else succ.flatMap fun (i, c') => (allRuns n c').map fun (s, f) => (i :: s, f)

/-- the access labels of thread `i` running alone from `c` -/
def soloLabels : Nat → Nat → Cfg → List Label
  | 0, _, _ => []
  | n + 1, i, c =>
    match c.ths[i]? with
    | none => []
    | some t =>
      match stepTh t c.sh with
      | none => []
      | some (l, t', s') => l :: soloLabels n i { sh := s', ths := c.ths.set i t' }

/-! ### Scenarios -/

/-- state of the world when the sender starts -/
inductive Start
  | connected      -- protocol and open connection c0
  | broken         -- protocol and connection c0 whose device already fails (writes raise OSError)
  | notConnected   -- protocol without transport (before the first connection / after a loss)
  | noProtocol     -- after disconnect()
  deriving DecidableEq, Repr

/-- what runs against the sender -/
inductive Other
  | nothing
  | lossHook (exc : Bool)
  | lossFull (exc : Bool)
  | disconnect
  | lossHookReconnect (exc : Bool)     -- loss, and the reconnect it requests installs c1
  | lossFullReconnect (exc : Bool)
  | connMade                            -- a first / new connection is being installed
  | lossHookDisconnect (exc : Bool)     -- three threads: sender, loss, user disconnect
  deriving DecidableEq, Repr

def startSh : Start → Sh
  | .connected => { tp := true, pt := some .c0, open0 := true, open1 := true, attempts := [], onLost := 0, onMade := 0, reconn := 0 }
  | .broken => { tp := true, pt := some .c0, open0 := false, open1 := true, attempts := [], onLost := 0, onMade := 0, reconn := 0 }
  | .notConnected => { tp := true, pt := none, open0 := false, open1 := true, attempts := [], onLost := 0, onMade := 0, reconn := 0 }
  | .noProtocol => { tp := false, pt := none, open0 := false, open1 := true, attempts := [], onLost := 0, onMade := 0, reconn := 0 }

def otherThreads : Other → List Th
  | .nothing => []
  | .lossHook e => [{ kind := .lossHook e }]
  | .lossFull e => [{ kind := .lossFull e }]
  | .disconnect => [{ kind := .disconnect }]
  | .lossHookReconnect e => [{ kind := .lossHook e }, { kind := .connMade true }]
  | .lossFullReconnect e => [{ kind := .lossFull e }, { kind := .connMade true }]
  | .connMade => [{ kind := .connMade false }]
  | .lossHookDisconnect e => [{ kind := .lossHook e }, { kind := .disconnect }]

structure Scenario where
  start : Start
  other : Other
  deriving DecidableEq, Repr

/-- thread 0 is always the sender -/
def initWith (sender : Kind) (sc : Scenario) : Cfg :=
  { sh := startSh sc.start, ths := { kind := sender } :: otherThreads sc.other }

def init (sc : Scenario) : Cfg := initWith .send sc

def allStarts : List Start := [.connected, .broken, .notConnected, .noProtocol]
def allOthers : List Other :=
  [.nothing, .lossHook false, .lossHook true, .lossFull false, .lossFull true, .disconnect,
   .lossHookReconnect false, .lossHookReconnect true, .lossFullReconnect false,
   .lossFullReconnect true, .connMade, .lossHookDisconnect false, .lossHookDisconnect true]

def allScenarios : List Scenario :=
  allStarts.flatMap fun s => allOthers.map fun o => { start := s, other := o }

def sender (c : Cfg) : Th := c.ths.headD default

/-- bound on the total number of steps of any scenario (5 + 6 + 7) -/
def fuel : Nat := 20

/-! ### The job queue of `SyncTasks` -/

/-- a job: (producer that appends it, payload) -/
abbrev Job := Nat × Nat

/-- program counter of the pump thread (`SyncTasks._poll_queue` with `Tasks.run_job` inlined):
      while not stop: reply = self.run_job()      c1 : `if not self.queue`   pop : `popleft()`
                      self.transport.send(reply)
                      if self.queue: continue     c2
                      time.sleep(0.02)            slp                                       -/
inductive PumpPc | c1 | pop | c2 | slp
  deriving DecidableEq, Repr

structure QS where
  prod : List (List Job)    -- what each producer still has to append (thread-local)
  queue : List Job          -- the deque
  sent : List Job           -- jobs run by the pump, in order (their replies are sent in this order)
  appended : List Job       -- ghost: the linearisation order of the `append` calls
  pc : PumpPc
  raised : Bool             -- the pump raised IndexError (popleft on an empty deque)
  deriving DecidableEq, Repr

inductive QAct
  | produce (i : Nat)       -- producer i performs its next `queue.append(job)`
  | pump                    -- the pump performs its next queue access
  deriving DecidableEq, Repr

def listSet {α} : List α → Nat → α → List α
  | [], _, _ => []
  | _ :: xs, 0, a => a :: xs
  | x :: xs, n + 1, a => x :: listSet xs n a

def produceStep (q : QS) (i : Nat) : QS :=
  match q.prod.getD i [] with
  | [] => q
  | j :: rest => { q with prod := listSet q.prod i rest, queue := q.queue ++ [j], appended := q.appended ++ [j] }

def popStep (q : QS) : QS :=
  match q.queue with
  | [] => { q with raised := true }
  | j :: rest => { q with queue := rest, sent := q.sent ++ [j], pc := .c2 }

def pumpStep (q : QS) : QS :=
  if q.raised then q else
  match q.pc with
  | .c1 => { q with pc := if q.queue.isEmpty then .c2 else .pop }
  | .pop => popStep q
  | .c2 => { q with pc := if q.queue.isEmpty then .slp else .c1 }
  | .slp => { q with pc := .c1 }

def qstep (q : QS) : QAct → QS
  | .produce i => produceStep q i
  | .pump => pumpStep q

def qrun (q : QS) : List QAct → QS
  | [] => q
  | a :: as => qrun (qstep q a) as

def qinit (prod : List (List Job)) : QS :=
  { prod := prod, queue := [], sent := [], appended := [], pc := .c1, raised := false }

/-- producer `i`'s jobs carry the tag `i` -/
def tagged (prod : List (List Job)) : Prop :=
  ∀ i, ∀ j ∈ prod.getD i [], j.1 = i

end MySensors.Tr
