/-
  `Gateway.update_fw(nids, fw_type, fw_ver, fw_path=None)` → `Tasks.update_fw` (task.py), both flavours:

      fw_bin = None
      if fw_path:
          fw_bin = load_fw(fw_path)      # ota.py: None when the path is unreadable or intelhex rejects it
          if not fw_bin:                 # None, or a file without data (b"")
              return
      self.ota.make_update(nids, fw_type, fw_ver, fw_bin)

  The firmware reaches the gateway as the *text of an Intel HEX file*; `hexLoad` (Model/IntelHex.lean)
  is the model of `load_fw` on a readable file.
-/
import MySensors.Model.Gateway
import MySensors.Model.IntelHex

namespace MySensors

/-- what `fw_path` designates -/
inductive FwFile
  | noPath                 -- fw_path omitted / falsy: reuse firmware loaded earlier
  | unreadable             -- no such file / not readable: load_fw logs and returns None
  | text (content : Str)   -- a readable file with this content

/-- the image `Tasks.update_fw` hands to `make_update`; `none` = it returns without calling it -/
def fwFromFile : FwFile → Option (Option (List Nat))
  | .noPath => some none
  | .unreadable => none
  | .text t =>
    match hexLoad t with
    | none => none
    | some [] => none
    | some (b :: img) => some (some (b :: img))

/-- `Gateway.update_fw` -/
def updateFw (g : GW) (nids : List Int) (fwt fwv : Int) (file : FwFile) : GW :=
  match fwFromFile file with
  | none => g
  | some image => makeUpdate g nids fwt fwv image

/-- the same call as an operation of the history model: a call that returns early is an update that
    names no node and brings no image -/
def updateFwOp (nids : List Int) (fwt fwv : Int) (file : FwFile) : Op :=
  match fwFromFile file with
  | none => .update [] fwt fwv none
  | some image => .update nids fwt fwv image

end MySensors
