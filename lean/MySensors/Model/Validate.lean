/-
  Model of `Message.validate` (message.py:86-162), the voluptuous rule interpreter and the
  shared validators (validation.py, const_15.py, const_20.py), and `ChildSensor.validate`.
-/
import MySensors.Model.Codec
import MySensors.Model.Version
import MySensors.Py.Float
import MySensors.Generated.Tables

namespace MySensors

/-- value flowing through a `vol.All` chain -/
inductive Val
  | str (s : Str)
  | int (n : Int)
  | flt (f : FVal)

def isHexDigit (c : Char) : Bool :=
  ('0'.toNat ≤ c.toNat && c.toNat ≤ '9'.toNat) ||
  ('a'.toNat ≤ c.toNat && c.toNat ≤ 'f'.toNat) ||
  ('A'.toNat ≤ c.toNat && c.toNat ≤ 'F'.toNat)

/-- `binascii.unhexlify(str)` succeeds: ASCII hex digits only, even length -/
def isHexStr (s : Str) : Bool := s.all isHexDigit && s.length % 2 == 0

/-- validate_gps: exactly three comma separated fields, each accepted by `float()` -/
def isGps (s : Str) : Bool :=
  match splitOn ',' s with
  | [a, b, c] => (pyFloat a).isSome && (pyFloat b).isSome && (pyFloat c).isSome
  | _ => false

/-- the shared validator functions; out-of-domain version strings are rejected (see Version) -/
def evalFn (f : FnId) (s : Str) : Bool :=
  match f with
  | .isVersion => (isVersion s).getD false
  | .hex => isHexStr s
  | .rgb => s.length == 6 && isHexStr s
  | .rgbw => s.length == 8 && isHexStr s
  | .gps => isGps s

def ratLe (a b : Rat) (incl : Bool) : Bool := if incl then a ≤ b else a < b

/-- one atom: the new value, or `none` = vol.Invalid -/
def evalAtom (a : Atom) (v : Val) : Option Val :=
  match a, v with
  | .str, .str s => some (.str s)
  | .str, _ => none
  | .lit l, .str s => if s = l then some v else none
  | .lit _, _ => none
  | .inn xs, .str s => if xs.contains s then some v else none
  | .inn _, _ => none
  | .coerceInt, .str s => (pyInt s).map .int
  | .coerceInt, .int n => some (.int n)
  | .coerceInt, .flt _ => none
  | .coerceFloat, .str s => (pyFloat s).map .flt
  | .coerceFloat, .int n => some (.flt (.fin n))
  | .coerceFloat, .flt f => some (.flt f)
  | .coerceStr, v => some v
  | .range lo hi, .int n => if lo ≤ n ∧ n ≤ hi then some v else none
  | .range _ _, _ => none
  | .frange loT loI hiT hiI _ _, .flt f =>
    match f with
    | .nan => none
    | .inf _ => none
    | .fin q => if ratLe loT q loI && ratLe q hiT hiI then some v else none
  | .frange _ _ _ _ lo hi, .int n => if lo ≤ (n : Rat) ∧ (n : Rat) ≤ hi then some v else none
  | .frange _ _ _ _ _ _, _ => none
  | .fn f, .str s => if evalFn f s then some v else none
  | .fn _, _ => none
  | .opaque _, _ => none

def evalAll (atoms : List Atom) (v : Val) : Option Val :=
  atoms.foldlM (fun v a => evalAtom a v) v

/-- `vol.Any` of `vol.All` chains on a text payload -/
def evalV (r : Rule) (p : Str) : Bool := r.any fun atoms => (evalAll atoms (.str p)).isSome

def lookup {κ ν} [DecidableEq κ] (k : κ) : List (κ × ν) → Option ν
  | [] => none
  | (k', v) :: rest => if k = k' then some v else lookup k rest

/-- the default payload rule `""` -/
def emptyRule : Rule := [[.lit []]]

def payloadRule (t : VTables) (type sub : Int) : Rule := (lookup (type, sub) t.payloads).getD emptyRule

def subTypesOf (t : VTables) (type : Int) : List Int := (lookup type t.subTypes).getD []

def childOk (t : VTables) (m : Msg) : Bool :=
  if m.type = t.mtInternal ∧ (some m.sub = t.iIdRequest ∨ some m.sub = t.iIdResponse) then true
  else if m.type = t.mtInternal ∨ m.type = t.mtStream then m.child = Tables.systemChildId
  else 0 ≤ m.child ∧ m.child ≤ Tables.systemChildId

def typeOk (t : VTables) (m : Msg) : Bool :=
  if m.child = Tables.systemChildId then
    m.type = t.mtPresentation ∨ m.type = t.mtInternal ∨ m.type = t.mtStream
  else t.messageTypes.contains m.type

def headerOk (t : VTables) (m : Msg) : Bool :=
  (0 ≤ m.node ∧ m.node ≤ Tables.broadcastId) && childOk t m && typeOk t m &&
  (m.ack = 0 ∨ m.ack = 1) && (subTypesOf t m.type).contains m.sub

/-- `Message.validate(version)` does not raise -/
def validate (c : ConstId) (m : Msg) : Bool :=
  let t := Tables.tables c
  headerOk t m && evalV (payloadRule t m.type m.sub) m.payload

/-- `ChildSensor(id, type).validate(version, values)`: every key must be a value type of the
    presentation type (or of S_CUSTOM) and satisfy its set/req rule.  `none` = internal error
    (KeyError: a presentation type without VALID_TYPES entry, or a member without rule). -/
def childSchema (t : VTables) (ptype : Int) : Option (List (Int × Rule)) := do
  let custom ← t.sCustom
  let cs ← lookup custom t.validTypes
  let ps ← lookup ptype t.validTypes
  (cs ++ ps).mapM fun vt => (lookup vt t.setreq).map fun r => (vt, r)

def childValidate (c : ConstId) (ptype : Int) (values : List (Int × Str)) : Option Bool := do
  let schema ← childSchema (Tables.tables c) ptype
  some (values.all fun (vt, p) => match lookup vt schema with
    | some r => evalV r p
    | none => false)

end MySensors
