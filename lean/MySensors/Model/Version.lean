/-
  Model of awesomeversion 24.6.0 comparison as pymysensors uses it, on the domain of
  dotted-numeric version strings  [vV]? d+ (. d+)*  (any Unicode decimal digits), after
  AwesomeVersion's own normalisation (strip white space, drop one trailing '.', drop the
  prefix "v" / "V").  Sections compare numerically, missing sections are 0.
  Strings without any digit are rejected (no strategy of the library matches them).
  Everything else outside the domain is `none` ("unknown": the library has many more strategies).

  Mirrors (after the `fix:` commits 2fb09b6, 1a86373, 51ee1bd):
    validation.is_version      accept  iff  not (value < "1.4")  and every section converts
                               (the value is the LEFT operand, exactly as in get_const, so the
                               library normalises it the same way in both places: "1.4.." keeps
                               one trailing dot, is recognised by no strategy, and is rejected)
    const.get_const            first const c (descending) with  not (value < c)
-/
import MySensors.Model.Rule
import MySensors.Py.Int

namespace MySensors

def asciiDigit (c : Char) : Option Nat :=
  if '0'.toNat ≤ c.toNat ∧ c.toNat ≤ '9'.toNat then some (c.toNat - '0'.toNat) else none

/-- one section: a non-empty run of decimal digits (regex `\d`: any Unicode Nd digit, like `int()`).
    A section of more than `intMaxDigits` digits makes `int()` raise ValueError; `is_version`
    converts every section once inside its `try` (fix 1a86373), so such a string is rejected.
    The model classifies it as outside the domain (`none`), which `evalFn` and the callers of
    `safeVersion` treat as rejected. -/
def parseSection (s : Str) : Option Nat :=
  if s.isEmpty || PyTables.intMaxDigits < s.length then none else (s.mapM digitVal).map ofDigits

def dropTrailingDot (s : Str) : Str :=
  match popLast s with
  | some (i, '.') => i
  | _ => s

/-- `AwesomeVersion.prefix` tries "v", "V", "v.", "V." in that order and returns the first
    that matches, so only one character is ever dropped ("v.1.4" becomes ".1.4", which no
    strategy recognises). -/
def dropPrefix (s : Str) : Str :=
  match s with
  | 'v' :: r => r
  | 'V' :: r => r
  | r => r

/-- AwesomeVersion(...).string -/
def versionString (s : Str) : Str := dropPrefix (dropTrailingDot (strip s))

/-- the numeric sections of a version string of the modelled domain -/
def parseVersion (s : Str) : Option (List Nat) :=
  (splitOn '.' (versionString s)).mapM parseSection

/-- `a < b` section-wise, missing sections count as 0 (structural recursion on the first list,
    so that it reduces in the kernel) -/
def sectionsLt : List Nat → List Nat → Bool
  | [], bs => bs.any (0 < ·)
  | _ :: _, [] => false
  | a :: as, b :: bs => if a < b then true else if b < a then false else sectionsLt as bs

/-- awesomeversion's "special container" words: they compare greater than every number -/
def isContainerWord (s : Str) : Bool :=
  s = "latest".toList || s = "dev".toList || s = "stable".toList || s = "beta".toList

/-- some decimal digit (of any Unicode block, regex `\d`) occurs in the string -/
def hasDigit (s : Str) : Bool := s.any fun c => (digitVal c).isSome

/-- `is_version(value)`: `some true` accepted, `some false` rejected, `none` outside the domain.
    Every awesomeversion strategy pattern needs at least one digit (or is one of the four
    container words), so a digit-free string has strategy "unknown", the comparison raises and
    `is_version` rejects it. -/
def isVersion (s : Str) : Option Bool :=
  if versionString s = ['1', '.', '4'] then some true
  else if isContainerWord (versionString s) then some true else
  match parseVersion s with
  | some v => some (!(sectionsLt v [1, 4]))
  | none => if hasDigit (versionString s) then none else some false

/-- `safe_is_version` as used for node and gateway versions: the string itself or "1.4" -/
def safeVersion (s : Str) : Option Str :=
  (isVersion s).map fun ok => if ok then s else ['1', '.', '4']

def constSections : ConstId → List Nat
  | .v14 => [1, 4] | .v15 => [1, 5] | .v20 => [2, 0] | .v21 => [2, 1] | .v22 => [2, 2]

/-- `get_const(version)` on parsed sections -/
def selectConstSections (v : List Nat) : ConstId :=
  if !(sectionsLt v [2, 2]) then .v22
  else if !(sectionsLt v [2, 1]) then .v21
  else if !(sectionsLt v [2, 0]) then .v20
  else if !(sectionsLt v [1, 5]) then .v15
  else .v14

/-- `get_const(safe_is_version(s))`; `none` outside the domain -/
def selectConst (s : Str) : Option ConstId :=
  match safeVersion s with
  | none => none
  | some s' =>
    if isContainerWord (versionString s') then some .v22
    else (parseVersion s').map selectConstSections

def ConstId.ge20 : ConstId → Bool
  | .v14 | .v15 => false
  | _ => true

end MySensors
