/-
  C01 — the message pump cannot be crashed or tricked by input.

  `Safe g` is the invariant every reachable gateway state satisfies; under it processing ANY
  line (arbitrary text) raises nothing, and a rejected line has no effect at all.  Controller
  calls may raise to their caller (`Out.exc`), they never break the invariant.
  Exceptions of the model are explicit (`Out.exc`): every place where the Python code could raise
  (dict lookups after `is_sensor`, enum / handler lookups, `copy`, struct packing, the wake-up
  flush building its set commands) is a `fail` in Model/Gateway.lean.
-/
import MySensors.Lemmas.GwTotal
import MySensors.Properties.C07

namespace MySensors.C01

open MySensors

/-- the invariant of reachable states -/
structure Safe (g : GW) : Prop where
  keys : KeyInv g
  nodes : NodeInv g
  disk : C07.DiskInv g
  desired : DesiredOk g
  ota : OtaOk g

theorem do_step (g : GW) (op : Op) (hk : KeyRange g) (hw : Op.wf op) (hp : op.plain = true) : DO g (step g op) := by
  cases op with
  | line s =>
    simp only [step]
    have h := relo_logic (doStepRelO (C07.wakeOf g (.line s))) do_ignoresSubs g s hk
      (by intro m hd hv hwk; simp [C07.wakeOf, hd, hv, hwk])
    unfold transportFilter; split
    · exact ⟨h.const, h.desired, h.ota⟩
    · exact h
  | setValue n c vt v a =>
    simp only [step]
    have h := relo_setChildValue (doStepRelO none) g n c vt v a
      (fun nd msg hn _ hm => do_storeDesired g n c nd _ v msg _ hn hm) (fun _ _ _ _ _ => do_id g _)
    unfold transportFilter; split
    · exact ⟨h.const, h.desired, h.ota⟩
    · exact h
  | update nids t v img =>
    exact relo_makeUpdate (doStepRelO none) g nids t v img (by intro im e; subst e; exact hw)
  | clock t => exact ⟨rfl, id, id⟩
  | metric b => exact ⟨rfl, id, id⟩
  | saveTick => simp [Op.plain] at hp
  | stop => simp [Op.plain] at hp
  | restart => simp [Op.plain] at hp

/-- **the invariant is preserved by every op** (inbound lines, controller calls whether they
    raise or not, firmware updates, saves, restarts) -/
theorem safe_step (g : GW) (op : Op) (hw : Op.wf op) (hs : Safe g) : Safe (step g op).1 := by
  have hinv := C07.inv_step g op hw hs.keys hs.nodes hs.disk
  refine ⟨keyInv_step g op hs.keys, hinv.1, hinv.2, ?_, ?_⟩
  · by_cases hp : op.plain = true
    · exact (do_step g op hs.keys.1 hw hp).desired hs.desired
    · cases op with
      | saveTick | stop =>
        intro k n hn c dv vt v h1 h2
        simp only [step] at hn ⊢
        rw [(save_spec g).1] at hn
        obtain ⟨m, hm⟩ := hs.desired k n hn c dv vt v h1 h2
        refine ⟨m, ?_⟩
        rw [createSetMessage_const g _ (by simp only [save]; split <;> rfl)]
        exact hm
      | restart =>
        intro k n hn c dv vt v h1 _
        simp only [step, restart] at hn
        split at hn
        · rw [C07.aget_map] at hn
          cases hx : aget k (g.disk.getD []) with
          | none => rw [hx] at hn; cases hn
          | some p => rw [hx] at hn; simp at hn; subst hn; simp [PNode.restore, aget] at h1
        · simp [aget] at hn
      | _ => simp [Op.plain] at hp
  · by_cases hp : op.plain = true
    · exact (do_step g op hs.keys.1 hw hp).ota hs.ota
    · cases op with
      | saveTick | stop =>
        intro key fw hl
        have : (step g Op.saveTick).1.ota = g.ota := by simp only [step, save]; split <;> rfl
        first
          | (rw [this] at hl; exact hs.ota key fw hl)
          | (have h2 : (step g Op.stop).1.ota = g.ota := by simp only [step, save]; split <;> rfl
             rw [h2] at hl; exact hs.ota key fw hl)
      | restart => intro key fw hl; simp [step, restart, lookup] at hl
      | _ => simp [Op.plain] at hp

/-- **C01 (totality)**: in every safe state, processing any text as an inbound line raises
    nothing — decode errors and validation failures are absorbed, accepted frames are handled
    by total handlers. -/
theorem pump_total (g : GW) (hs : Safe g) (line : Str) : (step g (.line line)).2.exc = none := by
  simp only [step]
  have := logic_noexc g line hs.nodes hs.desired hs.ota
  unfold transportFilter; split
  · exact this
  · exact this

/-- **C01 (rejected lines)**: a line that is malformed, or not valid for the configured protocol
    version, has no effect at all: same state, no reply, no callback, no exception. -/
theorem rejected_noop (g : GW) (line : Str)
    (h : decode line = none ∨ ∃ m, decode line = some m ∧ validate g.const m = false) :
    step g (.line line) = (g, {}) := by
  have hl : logic g line = ret g := by
    unfold logic
    rcases h with h | ⟨m, hd, hv⟩
    · rw [h]
    · rw [hd]; simp [hv]
  simp only [step, hl, transportFilter, ret]
  split <;> rfl

/-- on the MQTT transport every line that reaches the publish callback decodes, so building the
    topic cannot raise (`MQTTTransport.send` drops and logs the others) -/
theorem mqtt_publish_total (g : GW) (op : Op) (hk : g.kind = .mqtt) :
    ∀ l ∈ (step g op).2.sent, (decode l).isSome = true := by
  intro l hl
  cases op with
  | line s => simp only [step, transportFilter, hk, ↓reduceIte, List.mem_filter] at hl; exact hl.2
  | setValue n c vt v a =>
    simp only [step, transportFilter, hk, ↓reduceIte, List.mem_filter] at hl; exact hl.2
  | _ => simp [step] at hl

theorem safe_fresh (c : ConstId) (kd : Kind) (pers : Bool) : Safe { const := c, kind := kd, persist := pers } :=
  ⟨⟨fun k hk => by simp [akeys] at hk, fun d hd => by simp at hd⟩, fun k n hn => by simp [aget] at hn,
   fun d hd => by simp at hd, fun k n hn => by simp [aget] at hn, fun key fw hl => by simp [lookup] at hl⟩

theorem safe_run (g : GW) (ops : List Op) (hw : ∀ o ∈ ops, Op.wf o) (hs : Safe g) : Safe (run g ops) := by
  induction ops generalizing g with
  | nil => exact hs
  | cons op ops ih => exact ih _ (fun o ho => hw o (by simp [ho])) (safe_step g op (hw op (by simp)) hs)

/-- **C01 over histories**: whatever traffic and controller calls preceded it (any protocol
    version, any gateway kind, with or without persistence, including smart-sleep and OTA
    sessions, saves and restarts), the next inbound line — arbitrary text — does not raise, and
    the gateway keeps processing afterwards (the invariant still holds). -/
theorem pump_total_run (c : ConstId) (kd : Kind) (pers : Bool) (ops : List Op) (hw : ∀ o ∈ ops, Op.wf o)
    (line : Str) :
    (step (run { const := c, kind := kd, persist := pers } ops) (.line line)).2.exc = none ∧
    Safe (step (run { const := c, kind := kd, persist := pers } ops) (.line line)).1 := by
  have hs := safe_run _ ops hw (safe_fresh c kd pers)
  exact ⟨pump_total _ hs line, safe_step _ _ trivial hs⟩

/-! Non-vacuity: the replays that crashed the pump before the `fix:` commits are inside the
    quantifier and are now absorbed. -/

def otaHistory : List Op :=
  [.line "1;255;0;0;17;2.0
".toList, .update [1] 1 1 (some [1, 2, 3])]

example : Op.wf (.update [1] 1 1 (some [1, 2, 3])) := by intro b hb; simp at hb; omega
example : (step (run { const := .v20 } otaHistory) (.line "1;255;4;0;0;zz
".toList)) =
    ((step (run { const := .v20 } otaHistory) (.line "1;255;4;0;0;zz
".toList)).1,
     { cbs := [⟨1, 255, 4, 0, 0, "zz".toList⟩] }) := by decide +kernel
example : (step (run { const := .v20 } otaHistory) (.line "1;255;4;0;0;0100010000000000ffff
".toList)).2.sent.length = 1 := by
  decide +kernel

end MySensors.C01
