/-
  C02 — the wire codec is a faithful, canonical round trip.

  All theorems range over every `Int` header field and every payload `List Char`
  (Lean `Char` = Unicode scalar values).  `decode` accepts every spelling `int()` accepts
  (white space, sign, any Unicode Nd digit block, single underscores, digit limit) — the
  quantifier over spellings is part of the model, not sampled.

  The hypothesis `carryable p` is `';' ∉ p` and "p is empty or ends in a non-blank"; it is
  *weaker* than the property's "no ';', no line break, no trailing blanks", so these
  theorems imply the stated property.
-/
import MySensors.Lemmas.Codec

namespace MySensors.C02

open MySensors

/-- encode then decode yields the same six fields; the encoded line is the canonical one -/
theorem decode_encode (m : Msg) (hp : carryable m.payload) (hl : intsWithinLimit m) :
    ∃ l, encode m = some l ∧ l = canon m ∧ decode l = some m :=
  ⟨canon m, encode_eq_canon m hl, rfl, decode_canon m hp hl⟩

/-- integers beyond CPython's digit limit are the only reason `encode` fails -/
theorem encode_none_iff (m : Msg) : encode m = none ↔ ¬ intsWithinLimit m := by
  constructor
  · intro h hl; rw [encode_eq_canon m hl] at h; cases h
  · intro h
    cases he : encode m with
    | none => rfl
    | some l => exact absurd (encode_some m l he).2 h

/-- decoding any accepted line and re-encoding it yields the canonical line — five rendered
    integers, the payload, exactly one newline — which decodes to the same message again,
    and re-encodes to itself (a fixed point). -/
theorem encode_decode_canonical (l : Str) (m : Msg) (h : decode l = some m) :
    encode m = some (canon m) ∧ decode (canon m) = some m ∧
    (∀ m', decode (canon m) = some m' → encode m' = some (canon m)) := by
  obtain ⟨hp, hl⟩ := decode_some l m h
  refine ⟨encode_eq_canon m hl, decode_canon m hp hl, ?_⟩
  intro m' hm'
  rw [decode_canon m hp hl] at hm'
  cases hm'
  exact encode_eq_canon m hl

/-- the canonical line: five integer fields, the payload, exactly one trailing newline -/
theorem canon_shape (m : Msg) :
    canon m = renderInt m.node ++ ';' :: (renderInt m.child ++ ';' :: (renderInt m.type ++ ';' ::
      (renderInt m.ack ++ ';' :: (renderInt m.sub ++ ';' :: m.payload)))) ++ ['\n'] := by
  simp [canon, joinWith]

/-- a decoded payload never contains the delimiter and never ends in white space, so the
    canonical line has exactly one newline at its end that `rstrip` removes again -/
theorem decoded_payload_carryable (l : Str) (m : Msg) (h : decode l = some m) :
    carryable m.payload := (decode_some l m h).1

/-- two lines that decode to the same message have the same canonical form -/
theorem canonical_unique (l₁ l₂ : Str) (m : Msg) (h₁ : decode l₁ = some m) (h₂ : decode l₂ = some m) :
    ∃ c, (∀ m₁, decode l₁ = some m₁ → encode m₁ = some c) ∧
         (∀ m₂, decode l₂ = some m₂ → encode m₂ = some c) := by
  refine ⟨canon m, ?_, ?_⟩
  · intro m₁ e; rw [h₁] at e; cases e; exact (encode_decode_canonical l₁ m h₁).1
  · intro m₂ e; rw [h₂] at e; cases e; exact (encode_decode_canonical l₂ m h₂).1

/-- `copy(**kw)` equals the original except for the fields explicitly replaced, for every
    subset of replaced fields (each `Kw` field is an `Option`). -/
theorem copy_spec (m : Msg) (kw : Kw) (hp : carryable m.payload) (hl : intsWithinLimit m) :
    m.copy kw = .ok (m.modify kw) := by
  simp [Msg.copy, encode_eq_canon m hl, decode_canon m hp hl]

/-- what `modify` (and hence `copy`) does field by field -/
theorem modify_fields (m : Msg) (kw : Kw) :
    (m.modify kw).node = kw.node.getD m.node ∧ (m.modify kw).child = kw.child.getD m.child ∧
    (m.modify kw).type = kw.type.getD m.type ∧ (m.modify kw).ack = kw.ack.getD m.ack ∧
    (m.modify kw).sub = kw.sub.getD m.sub ∧ (m.modify kw).payload = kw.payload.getD m.payload :=
  ⟨rfl, rfl, rfl, rfl, rfl, rfl⟩

/-- a copy with no replaced field is the original -/
theorem copy_id (m : Msg) (hp : carryable m.payload) (hl : intsWithinLimit m) :
    m.copy {} = .ok m := by
  rw [copy_spec m {} hp hl]; rfl

/-- a message that was decoded from the wire can always be copied -/
theorem copy_decoded (l : Str) (m : Msg) (kw : Kw) (h : decode l = some m) :
    m.copy kw = .ok (m.modify kw) :=
  copy_spec m kw (decode_some l m h).1 (decode_some l m h).2

/-! Non-vacuity: concrete messages meet the hypotheses, and a non-canonical spelling
    (blank, sign, Arabic-Indic digit, underscore, CRLF) decodes and canonicalises. -/

example : carryable "a b".toList ∧ carryable [] ∧ ¬ carryable "a;b".toList ∧ ¬ carryable "a ".toList := by
  refine ⟨⟨by decide, ?_⟩, ⟨by decide, ?_⟩, ?_, ?_⟩
  · intro c hc; simp at hc; subst hc; decide
  · intro c hc; simp at hc
  · intro h; exact h.1 (by decide)
  · intro h; exact absurd (h.2 ' ' (by decide)) (by decide)

example : decode " +1;٢;1_0;0;-0;hi \r\n".toList = some ⟨1, 2, 10, 0, 0, "hi".toList⟩ := by decide

example : canon ⟨1, 2, 10, 0, 0, "hi".toList⟩ = "1;2;10;0;0;hi\n".toList := by
  have h1 : renderInt 1 = ['1'] := by
    show renderNat 1 = _; rw [renderNat, natDigits]; decide
  have h2 : renderInt 2 = ['2'] := by
    show renderNat 2 = _; rw [renderNat, natDigits]; decide
  have h0 : renderInt 0 = ['0'] := by
    show renderNat 0 = _; rw [renderNat, natDigits]; decide
  have h10 : renderInt 10 = ['1', '0'] := by
    show renderNat 10 = _; rw [renderNat, natDigits]; simp; rw [natDigits]; decide
  simp only [canon, h1, h2, h0, h10]; decide

end MySensors.C02
