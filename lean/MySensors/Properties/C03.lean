/-
  C03 — inbound validation conforms to the per-version serial API.

  `validate c m` is the model of `Message(line).validate(version)` (Model/Validate.lean) over the
  tables translated from /repo on every run (Generated/Tables.lean).  The reference is the
  frozen serial API of /verif/spec/serial_api.json (Generated/SerialApi.lean) together with the
  prose of the property transcribed in Model/SpecC03.lean (`SpecHeader`, `classSem`).

  All theorems range over every `Int` header field and every payload `List Char`; the
  finite facts about the tables are kernel-checked with `decide +kernel` and lifted to all
  integers by the soundness lemmas of Lemmas/Validate.lean.
-/
import MySensors.Lemmas.Validate
import MySensors.Lemmas.Version

namespace MySensors.C03

open MySensors

/-! ### the translated tables are the reference tables -/

/-- For each protocol version the tables translated from the const modules — payload rules,
    defined sub-types, child value types, set/req rules — are, as finite maps, exactly the
    tables the reference prescribes (each rule class flattened by `ruleOfClass`). -/
theorem tables_eq_spec (c : ConstId) :
    tableEquiv (Tables.tables c).payloads (specPayloads c) = true ∧
    tableEquiv (Tables.tables c).subTypes (SerialApi.spec c).subTypes = true ∧
    tableEquiv (Tables.tables c).validTypes (SerialApi.spec c).validTypes = true ∧
    tableEquiv (Tables.tables c).setreq (specSetreq c) = true := by
  cases c
  · exact ⟨by decide +kernel, by decide +kernel, by decide +kernel, by decide +kernel⟩
  · exact ⟨by decide +kernel, by decide +kernel, by decide +kernel, by decide +kernel⟩
  · exact ⟨by decide +kernel, by decide +kernel, by decide +kernel, by decide +kernel⟩
  · exact ⟨by decide +kernel, by decide +kernel, by decide +kernel, by decide +kernel⟩
  · exact ⟨by decide +kernel, by decide +kernel, by decide +kernel, by decide +kernel⟩

/-- the rule the code looks up for any (command, sub-type) pair of integers is the flattened
    rule class of the reference -/
theorem payload_lookup_eq_spec (c : ConstId) (t s : Int) :
    lookup (t, s) (Tables.tables c).payloads =
      (lookup (t, s) (SerialApi.spec c).rules).map ruleOfClass := by
  rw [tableEquiv_lookup _ _ (tables_eq_spec c).1 (t, s), specPayloads]
  exact lookup_map_snd ruleOfClass (t, s) _

/-- "defined in that version" means the same in the code's tables and in the reference -/
theorem defined_iff_spec (c : ConstId) (t s : Int) : definedIn c t s ↔ specDefined c t s := by
  unfold definedIn subTypesOf specDefined
  rw [tableEquiv_lookup _ _ (tables_eq_spec c).2.1 t]
  exact getD_contains_iff t s _

/-! ### header -/

/-- The header test of `Message.validate` is exactly the header clause of the property, for
    every version and ALL integer node id / child id / command / ack / sub-type. -/
theorem header_iff (c : ConstId) (m : Msg) : headerOk (Tables.tables c) m = true ↔ SpecHeader c m := by
  rw [headerOk_iff, childOk_iff, typeOk_iff, (tables_consts c).2.2.2.2.2.2.2]
  have hd := defined_iff_spec c m.type m.sub
  unfold definedIn at hd
  rw [hd]
  unfold SpecHeader
  constructor
  · rintro ⟨hn, hc, ht, ha, hs⟩
    refine ⟨hn, ha, ?_, hs, ?_⟩ <;> omega
  · rintro ⟨hn, ha, ht, hs, hc⟩
    refine ⟨hn, ?_, ?_, ha, hs⟩ <;> omega

/-! ### payload rules -/

/-- Each rule class, interpreted by the model of the voluptuous combinators, means what the
    property says — for ALL payload strings (see `classSem`): percentages are integers 0..100,
    binary is "0"/"1", enumerations are membership, RGB/RGBW are 6/8 hex digits, position is
    three comma separated floats, counters are `int()`-parsable, requests are empty, a node
    version is accepted by `is_version`, `Any(str, In …)` accepts everything. -/
theorem rule_semantics (rc : RuleClass) (p : Str) : evalV (ruleOfClass rc) p = true ↔ classSem rc p :=
  evalV_ruleOfClass rc p

/-- the individual clauses of `rule_semantics`, spelled out -/
theorem rule_percent (p : Str) :
    evalV (ruleOfClass .percentInt) p = true ↔ ∃ n, pyInt p = some n ∧ 0 ≤ n ∧ n ≤ 100 :=
  rule_semantics .percentInt p

theorem rule_binary (p : Str) : evalV (ruleOfClass .binary) p = true ↔ p = "0".toList ∨ p = "1".toList :=
  rule_semantics .binary p

theorem rule_rgb (p : Str) :
    evalV (ruleOfClass .rgb) p = true ↔ p.length = 6 ∧ ∀ ch ∈ p, isHexDigit ch = true :=
  rule_semantics .rgb p

theorem rule_rgbw (p : Str) :
    evalV (ruleOfClass .rgbw) p = true ↔ p.length = 8 ∧ ∀ ch ∈ p, isHexDigit ch = true :=
  rule_semantics .rgbw p

theorem rule_gps (p : Str) : evalV (ruleOfClass .gps) p = true ↔
    ∃ a b c, splitOn ',' p = [a, b, c] ∧ (pyFloat a).isSome = true ∧ (pyFloat b).isSome = true ∧
      (pyFloat c).isSome = true :=
  rule_semantics .gps p

theorem rule_int (p : Str) : evalV (ruleOfClass .int) p = true ↔ (pyInt p).isSome = true :=
  rule_semantics .int p

theorem rule_empty (p : Str) : evalV (ruleOfClass .empty) p = true ↔ p = [] :=
  rule_semantics .empty p

theorem rule_enum (ws : List Str) (p : Str) : evalV (ruleOfClass (.enum ws)) p = true ↔ p ∈ ws :=
  rule_semantics (.enum ws) p

theorem rule_version (p : Str) : evalV (ruleOfClass .version) p = true ↔ isVersion p = some true :=
  rule_semantics .version p

theorem rule_text_or (ws : List Str) (p : Str) : evalV (ruleOfClass (.textOr ws)) p = true :=
  (rule_semantics (.textOr ws) p).mpr trivial

/-- a float percentage is accepted exactly when its exact decimal value lies in the closed
    interval of reals that round (half-even) to a double in [0.0, 100.0]; in particular every
    value in [0, 100] is accepted and nothing beyond 100 + 2⁻⁴⁷ or below −2⁻¹⁰⁷⁵ is -/
theorem rule_percent_float (p : Str) : evalV (ruleOfClass .percentFloat) p = true ↔
    ∃ q, pyFloat p = some (.fin q) ∧ percentLo ≤ q ∧ q ≤ percentHi :=
  rule_semantics .percentFloat p

/-- "a version ≥ 1.4 for node presentations", on every dotted version `M.m` / `M.m.p` / … :
    the presentation payload rule accepts it exactly when it is not below 1.4 section-wise -/
theorem rule_version_numeric (v : List Nat) (hv : v ≠ []) (hl : sectionsWithinLimit v) :
    evalV (ruleOfClass .version) (renderSections v) = true ↔ sectionsLt v [1, 4] = false := by
  rw [rule_version, isVersion_renderSections v hv hl]
  cases sectionsLt v [1, 4] <;> simp

/-! ### the tables only grow, and are total -/

/-- every sub-type defined in a version is defined in every later version (all integers) -/
theorem monotone (c c' : ConstId) (h : c.rank ≤ c'.rank) (t s : Int) :
    definedIn c t s → definedIn c' t s := by
  unfold definedIn subTypesOf
  cases c <;> cases c' <;>
    first
    | exact absurd h (by decide)
    | exact subsetTables_sound _ _ (by decide +kernel) t s

/-- Every defined sub-type has a payload rule, and none of the translated rules contains an
    `opaque` atom (a validator the translator could not express); every presentation type has
    a child-value schema (`VALID_TYPES` entry, every member with a set/req rule — so
    `childSchema` is never `none`, the KeyError of `ChildSensor.get_schema`), again free of
    `opaque`.  The model's `evalV` is a total function, so validation is total on these. -/
theorem total_rules (c : ConstId) :
    (∀ t s, definedIn c t s →
      ∃ r, lookup (t, s) (Tables.tables c).payloads = some r ∧ ruleHasOpaque r = false) ∧
    (∀ p, definedIn c 0 p →
      ∃ sch, childSchema (Tables.tables c) p = some sch ∧ ∀ kr ∈ sch, ruleHasOpaque kr.2 = false) := by
  constructor
  · intro t s h
    refine payloadsTotal_sound _ ?_ t s h
    cases c <;> decide +kernel
  · intro p h
    have h0 : (Tables.tables c).mtPresentation = 0 := (tables_consts c).1
    refine schemasTotal_sound _ ?_ p (by rw [h0]; exact h)
    cases c <;> decide +kernel

/-! ### the whole validator -/

/-- **Conformance.**  `Message.validate(version)` accepts a decoded line exactly when the
    header clause of the property holds and the payload satisfies the rule class the
    reference gives for its (command, sub-type). -/
theorem validate_iff (c : ConstId) (m : Msg) : validate c m = true ↔ SpecHeader c m ∧ SpecRule c m := by
  unfold validate
  simp only [Bool.and_eq_true]
  rw [header_iff]
  constructor
  · rintro ⟨hh, hp⟩
    refine ⟨hh, ?_⟩
    have hdef : definedIn c m.type m.sub := (defined_iff_spec c m.type m.sub).mpr hh.2.2.2.1
    obtain ⟨r, hr, _⟩ := (total_rules c).1 m.type m.sub hdef
    have hl := payload_lookup_eq_spec c m.type m.sub
    rw [hr] at hl
    cases hs : lookup (m.type, m.sub) (SerialApi.spec c).rules with
    | none => rw [hs] at hl; cases hl
    | some rc =>
      rw [hs] at hl
      simp only [Option.map_some, Option.some.injEq] at hl
      refine ⟨rc, hs, ?_⟩
      rw [← rule_semantics, ← hl]
      simpa [payloadRule, hr] using hp
  · rintro ⟨hh, rc, hs, hsem⟩
    refine ⟨hh, ?_⟩
    have hl := payload_lookup_eq_spec c m.type m.sub
    rw [hs] at hl
    simp only [payloadRule, hl, Option.map_some, Option.getD_some]
    exact (rule_semantics rc m.payload).mpr hsem

/-! ### non-vacuity -/

/-- a V_PERCENTAGE report of 2.2 satisfies the specification … -/
example : validate .v22 ⟨1, 1, 1, 0, 3, "100".toList⟩ = true := by decide +kernel
/-- … and the neighbours do not -/
example : validate .v22 ⟨1, 1, 1, 0, 3, "101".toList⟩ = false := by decide +kernel
example : validate .v22 ⟨1, 255, 1, 0, 3, "100".toList⟩ = false := by decide +kernel
example : validate .v22 ⟨256, 1, 1, 0, 3, "100".toList⟩ = false := by decide +kernel
example : validate .v22 ⟨1, 1, 1, 2, 3, "100".toList⟩ = false := by decide +kernel
/-- sub-type 57 is two past nothing: not defined in any version -/
example : validate .v22 ⟨1, 1, 1, 0, 57, []⟩ = false := by decide +kernel
/-- an id request may carry any child id -/
example : validate .v14 ⟨255, 7, 3, 0, 3, []⟩ = true := by decide +kernel
/-- the 2.2-only pre-sleep notification -/
example : validate .v22 ⟨1, 255, 3, 0, 32, "500".toList⟩ = true ∧
    validate .v21 ⟨1, 255, 3, 0, 32, "500".toList⟩ = false := by decide +kernel
example : SpecHeader .v20 ⟨1, 0, 1, 0, 40, "ff00aa".toList⟩ :=
  (header_iff .v20 _).mp (by decide +kernel)
/-- `monotone` is strict somewhere: the pre-sleep notification exists from 2.2 on -/
example : definedIn .v22 3 32 ∧ ¬ definedIn .v21 3 32 := by unfold definedIn; decide +kernel
/-- a GPS child of 2.0 has a schema (S_CUSTOM's value types plus V_POSITION) -/
example : (childSchema (Tables.tables .v20) 38).isSome = true ∧
    childValidate .v20 38 [(49, "55.7,13.0,18".toList)] = some true ∧
    childValidate .v20 38 [(49, "55.7,13.0".toList)] = some false := by decide +kernel
example : classSem .rgb "ff00aa".toList := (rule_semantics .rgb _).mp (by decide)
example : ¬ classSem .rgb "ff00a".toList := fun h => absurd ((rule_semantics .rgb _).mpr h) (by decide)

end MySensors.C03
