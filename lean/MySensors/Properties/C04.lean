/-
  C04 — network state mirrors what the nodes reported; callbacks are exact.

  Specification: `MySensors.specStep` / `specNotifies` (Model/SpecTree.lean) — the meaning of
  one accepted message for the node / child / value / attribute tree, a direct case analysis
  over (type, sub-type) that knows nothing of the handlers' control flow.  Model:
  `MySensors.step` (Model/Gateway.lean).  The tree compared is the persisted projection
  (`GW.persisted`: node ids in order of appearance ↦ children, values, type, sketch name /
  version, battery, protocol version, heartbeat).

  One side condition appears in the per-line theorems.  Two kinds of handler run fallible work
  *before* their state change / callback (`fallibleFirst`): the 2.0 / 2.1 heartbeat response
  (the smart-sleep burst comes first) and the firmware requests (the reply is built first).
  If that work raises, the real handler is left by the exception and the message has no effect;
  C01 is the property that it never raises.  All other messages need no side condition.
-/
import MySensors.Lemmas.SpecTree
import MySensors.Lemmas.GatewayTraced

namespace MySensors.C04

open MySensors

/-! ### one step -/

/-- **refinement, one accepted line**: the tree after the step is the protocol meaning of the
    message applied to the tree before it.  Any gateway state, version, gateway kind; the proof
    is one commuting lemma per handler (`obs_presentNode`, `obs_presentChild`, `obs_handleSet`,
    `obs_handleReq`, `obs_handleIdRequest`, `obs_handleInternalBy`, `obs_handleStream`, …). -/
theorem refines_step (g : GW) (l : Str) (m : Msg) (hd : decode l = some m)
    (hv : validate g.const m = true)
    (hx : fallibleFirst g.const m = true → (step g (.line l)).2.exc = none) :
    (step g (.line l)).1.persisted = specStep g.const g.persisted m := by
  have := obs_line_accepted g l m (acceptedMsg_some _ _ _ hd hv) hx
  simp only [obs, obsBy, Prod.mk.injEq] at this
  exact this.1

/-- **callbacks, one accepted line**: the event callback fires exactly once, with the message's
    own six fields, iff the specification says the message notifies; otherwise not at all. -/
theorem callbacks_exact (g : GW) (l : Str) (m : Msg) (hd : decode l = some m)
    (hv : validate g.const m = true)
    (hx : fallibleFirst g.const m = true → (step g (.line l)).2.exc = none) :
    (step g (.line l)).2.cbs = if specNotifies g.const g.persisted m then [m] else [] := by
  have := obs_line_accepted g l m (acceptedMsg_some _ _ _ hd hv) hx
  simp only [obs, obsBy, Prod.mk.injEq] at this
  exact this.2

/-- a line that does not decode or does not validate changes nothing at all (not only the
    tree: the whole gateway state) and produces no output and no callback -/
theorem rejected_noop (g : GW) (l : Str)
    (h : decode l = none ∨ ∃ m, decode l = some m ∧ validate g.const m = false) :
    step g (.line l) = (g, {}) :=
  step_line_rejected g l (acceptedMsg_none _ _ h)

/-- controller calls (`set_child_value`, `make_update`, clock, metric flag) never change the
    tree and never call back -/
theorem controller_calls_keep_tree (g : GW) (op : Op) (h : op.controller = true) :
    (step g op).1.persisted = g.persisted ∧ (step g op).2.cbs = [] := by
  have := obs_step_controller g op h
  simp only [obs, Prod.mk.injEq] at this
  exact this

/-- only inbound lines can fire the callback -/
theorem callbacks_only_for_lines (g : GW) (op : Op) (h : ∀ l, op ≠ .line l) : (step g op).2.cbs = [] := by
  cases op with
  | line l => exact absurd rfl (h l)
  | setValue n c vt v a => exact (controller_calls_keep_tree g _ rfl).2
  | update nids t v img => exact (controller_calls_keep_tree g _ rfl).2
  | _ => rfl

/-- saving keeps the tree; a restart starts from the file (or from nothing without
    persistence) -/
theorem save_restart_tree (g : GW) :
    (step g .saveTick).1.persisted = g.persisted ∧ (step g .stop).1.persisted = g.persisted ∧
    (step g .restart).1.persisted = if g.persist then g.disk.getD [] else [] :=
  ⟨persisted_save g, persisted_save g, persisted_restart g⟩

/-! ### what the specification says (read-back lemmas, so the spec cannot be vacuous) -/

/-- nodes appear only through node presentation or id assignment -/
theorem nodes_appear_only (c : ConstId) (t : Tree) (m : Msg) (k : Int)
    (hk : k ∈ akeys (specStep c t m)) :
    k ∈ akeys t ∨ (meaning c m = .presentNode ∧ k = m.node) ∨
      (meaning c m = .idRequest ∧ k = specNextId t ∧ k ≤ 254) := by
  have hupd : ∀ (f : PNode → PNode), akeys (updNode t m.node f) = akeys t := by
    intro f
    unfold updNode
    cases h : aget m.node t with
    | none => rfl
    | some p => exact akeys_aset_of_mem _ _ _ (by rw [h]; rfl)
  unfold specStep at hk
  cases hm : meaning c m <;> simp only [hm, specBy] at hk
  case presentNode =>
    unfold specPresentNode updNode addNode at hk
    cases h : aget m.node t with
    | some p =>
      simp only [h] at hk
      rw [akeys_aset_of_mem _ _ _ (by rw [h]; rfl)] at hk
      exact Or.inl hk
    | none =>
      simp only [h, aget_append_not_mem, ↓reduceIte] at hk
      rw [akeys_aset_of_mem _ _ _ (by simp [aget_append_not_mem, h])] at hk
      simp only [akeys, List.map_append, List.map_cons, List.map_nil, List.mem_append,
        List.mem_singleton] at hk
      rcases hk with hk | hk
      · exact Or.inl hk
      · exact Or.inr (Or.inl ⟨rfl, hk⟩)
  case idRequest =>
    unfold specIdRequest at hk
    by_cases hle : specNextId t ≤ 254
    · simp only [hle, ↓reduceIte, akeys, List.map_append, List.map_cons, List.map_nil,
        List.mem_append, List.mem_singleton] at hk
      rcases hk with hk | hk
      · exact Or.inl hk
      · exact Or.inr (Or.inr ⟨rfl, hk, by rw [hk]; exact hle⟩)
    · simp only [hle, ↓reduceIte] at hk
      exact Or.inl hk
  all_goals first | exact Or.inl hk | (rw [hupd] at hk; exact Or.inl hk)

/-- a set for a known node and child: afterwards that child holds exactly the reported payload
    under the reported value type (last report wins) -/
theorem set_stores_last (c : ConstId) (t : Tree) (m : Msg) (p : PNode) (ch : Child)
    (hm : meaning c m = .setValue) (hn : aget m.node t = some p) (hc : aget m.child p.children = some ch) :
    ∃ p' ch', aget m.node (specStep c t m) = some p' ∧ aget m.child p'.children = some ch' ∧
      aget m.sub ch'.values = some m.payload ∧ ch'.type = ch.type ∧ ch'.desc = ch.desc := by
  unfold specStep
  simp only [hm, specBy, updNode, hn, storeValue, hc]
  exact ⟨_, _, aget_aset_same _ _ _, aget_aset_same _ _ _, aget_aset_same _ _ _, rfl, rfl⟩

/-- the first presentation of a child wins: presenting a known child again changes nothing -/
theorem child_first_presentation_wins (c : ConstId) (t : Tree) (m : Msg) (p : PNode) (ch : Child)
    (hm : meaning c m = .presentChild) (hn : aget m.node t = some p) (hc : aget m.child p.children = some ch) :
    specStep c t m = t ∧ specNotifies c t m = false := by
  unfold specStep specNotifies
  simp only [hm, specBy, notifiesBy, updNode, hn, addChild, hc, knownNode, knownChild]
  exact ⟨aset_self _ _ _ hn, by simp⟩

/-- a message about an unknown node (other than its presentation or an id request) says nothing -/
theorem unknown_node_noop (c : ConstId) (t : Tree) (m : Msg) (hn : aget m.node t = none)
    (h1 : meaning c m ≠ .presentNode) (h2 : meaning c m ≠ .idRequest) (h3 : meaning c m ≠ .gatewayReady) :
    specStep c t m = t ∧ specNotifies c t m = false := by
  unfold specStep specNotifies
  cases hm : meaning c m <;>
    simp_all [specBy, notifiesBy, updNode, knownNode, knownChild]

/-- unusable battery / heartbeat / version reports fall back to 0, 0 and "1.4" -/
theorem fallbacks :
    specBattery "101".toList = 0 ∧ specBattery "x".toList = 0 ∧ specBattery "-1".toList = 0 ∧
    specBattery "100".toList = 100 ∧ specHeartbeat "".toList = 0 ∧ specHeartbeat "7".toList = 7 ∧
    reportedVersion "".toList = "1.4".toList ∧ reportedVersion "1.3".toList = "1.4".toList ∧
    reportedVersion "2.1".toList = "2.1".toList := by decide +kernel

/-! ### histories -/

/-- **refinement over histories**: for every history of ops (lines of every kind, valid or
    not, controller calls, save ticks, stops, restarts) the tree of the gateway is the fold of
    `specStep` over the accepted lines — reset to the file content at a restart, written to
    the file at a save — and the file is the specification's file. -/
theorem refines_run (g0 : GW) (ops : List Op) (hk : KeyInv g0) (hc : Clean g0)
    (hq : quiet g0 ops = true) :
    (run g0 ops).persisted = (specRun g0.const g0.persist ⟨g0.persisted, g0.disk⟩ ops).tree ∧
    (run g0 ops).disk = (specRun g0.const g0.persist ⟨g0.persisted, g0.disk⟩ ops).disk :=
  let h := refines_run_all g0 ⟨g0.persisted, g0.disk⟩ ops hk hc rfl rfl hq
  ⟨h.1, h.2.1⟩

/-- **callbacks over histories**, as lists: the callbacks fired along the history are exactly
    the notifying accepted messages, each once, in order, with their own fields. -/
theorem callbacks_run (g0 : GW) (ops : List Op) (hk : KeyInv g0) (hc : Clean g0)
    (hq : quiet g0 ops = true) :
    callbacks g0 ops = specCallbacks g0.const g0.persist ⟨g0.persisted, g0.disk⟩ ops :=
  (refines_run_all g0 ⟨g0.persisted, g0.disk⟩ ops hk hc rfl rfl hq).2.2

/-- a newly constructed gateway of any version, kind and persistence setting -/
def newGW (c : ConstId) (k : Kind) (p : Bool) : GW := { const := c, kind := k, persist := p }

theorem newGW_inv (c : ConstId) (k : Kind) (p : Bool) : KeyInv (newGW c k p) ∧ Clean (newGW c k p) := by
  refine ⟨⟨?_, ?_⟩, ?_⟩
  · intro x hx; simp [newGW, akeys] at hx
  · intro d hd; simp [newGW] at hd
  · intro _ hns; simp [newGW] at hns

/-- the same from a newly constructed gateway: tree and callbacks are those of the
    specification started on the empty network with no file -/
theorem refines_run_new (c : ConstId) (k : Kind) (p : Bool) (ops : List Op)
    (hq : quiet (newGW c k p) ops = true) :
    (run (newGW c k p) ops).persisted = (specRun c p ⟨[], none⟩ ops).tree ∧
    callbacks (newGW c k p) ops = specCallbacks c p ⟨[], none⟩ ops :=
  ⟨(refines_run _ ops (newGW_inv c k p).1 (newGW_inv c k p).2 hq).1,
   callbacks_run _ ops (newGW_inv c k p).1 (newGW_inv c k p).2 hq⟩

/-! ### order of state change and callback

  In the model the callback event is `alert g m`; what the Python callback can see when it runs
  is the gateway at that moment, i.e. `alert`'s argument `g`.  The model's output records the
  message only, so "the state seen from inside the callback already reflects the message" is
  stated on the instrumented handlers `tstep` (Model/GatewayTraced.lean: the alerting handlers
  with `alert` replaced by `talert`, which also records `g.persisted`).  `traced_erases` shows the
  instrumentation is conservative (forgetting the recorded trees gives `step` itself, for every
  state and op), so the theorem is about the model and not about a second model.  The real code
  is tied in twice: the oracle `callback-before-state` (tree read from inside the real callback
  = tree after the step) and the `CBT` correspondence (tree recorded by `tstep` = tree read
  from inside the real callback). -/

/-- forgetting the recorded trees, the instrumented step is the model's step -/
theorem traced_erases (g : GW) (op : Op) : (tstep g op).1 = step g op := tstep_erase g op

/-- **callback after state**: during any step, exactly one tree is recorded per callback, and
    every tree a callback sees is already the tree at the end of the step (no state change
    follows the callback).  No side condition. -/
theorem callback_after_state (g : GW) (op : Op) :
    (tstep g op).2.length = (step g op).2.cbs.length ∧
    ∀ t ∈ (tstep g op).2, t = (step g op).1.persisted := by
  have h := tstep_good g op
  unfold Good at h
  rw [tstep_erase] at h
  exact h

/-- combined with the refinement: what the callback of an accepted notifying message sees is
    the specified tree *after* that message -/
theorem callback_sees_spec (g : GW) (l : Str) (m : Msg) (hd : decode l = some m)
    (hv : validate g.const m = true)
    (hx : fallibleFirst g.const m = true → (step g (.line l)).2.exc = none)
    (hn : specNotifies g.const g.persisted m = true) :
    (tstep g (.line l)).2 = [specStep g.const g.persisted m] := by
  obtain ⟨hlen, hall⟩ := callback_after_state g (.line l)
  rw [callbacks_exact g l m hd hv hx, hn] at hlen
  rw [refines_step g l m hd hv hx] at hall
  cases hts : (tstep g (.line l)).2 with
  | nil => rw [hts] at hlen; simp at hlen
  | cons t ts =>
    rw [hts] at hlen hall
    cases ts with
    | nil => rw [hall t (by simp)]
    | cons t2 ts2 => simp at hlen

/-- `alert` itself does not change the tree, and its result does not depend on anything the
    callback does (the model has no data flow from the callback back into the gateway: the
    real `alert` swallows whatever the callback raises — decided on the real code by the
    raising-callback rerun, not by a theorem) -/
theorem alert_keeps_tree (g : GW) (m : Msg) :
    (alert g m).1.persisted = g.persisted ∧ (alert g m).1.sensors = g.sensors ∧ (alert g m).2.cbs = [m] :=
  ⟨rfl, rfl, rfl⟩

/-! ### non-vacuity: concrete histories -/

/-- version 2.0 (heartbeat response runs the smart-sleep burst first): node presentation,
    child presentation, a re-presentation with another type, two sets of the same value type,
    a set for an unknown child, battery, a battery report the validator rejects, heartbeat, id request, an undecodable
    line, a line from an unknown node, a controller call and a clock change -/
def hist20 : List Op :=
  [.line "1;255;0;0;17;2.0\n".toList, .line "1;0;0;0;6;temp\n".toList, .line "1;0;0;0;7;hum\n".toList,
   .line "1;0;1;0;0;20.5\n".toList, .line "1;0;1;0;0;21.5\n".toList, .line "1;3;1;0;0;1\n".toList,
   .line "1;255;3;0;0;77\n".toList, .line "1;255;3;0;0;777\n".toList, .line "1;255;3;0;22;123\n".toList,
   .line "255;255;3;0;3;\n".toList, .line "abc".toList, .line "9;0;1;0;0;1\n".toList,
   .setValue 1 0 (.int 0) "22".toList none, .clock 5, .line "9;255;3;0;0;50\n".toList]

example : quiet (newGW .v20 .base false) hist20 = true := by decide +kernel

example : (run (newGW .v20 .base false) hist20).persisted =
    [(1, ⟨1, [(0, ⟨0, 6, "temp".toList, [(0, "21.5".toList)]⟩)], some 17, none, none, 77, "2.0".toList, 123⟩),
     (2, freshPNode 2)] := by decide +kernel

example : (callbacks (newGW .v20 .base false) hist20).map (fun m => (m.node, m.child, m.type, m.sub)) =
    [(1, 255, 0, 17), (1, 0, 0, 6), (1, 0, 1, 0), (1, 0, 1, 0), (1, 255, 3, 0), (1, 255, 3, 22)] := by
  decide +kernel

/-- with persistence: the node allocated after the save is lost by a restart without stop,
    kept by a stop (the specification's file says so, and the model agrees) -/
def histPersist : List Op :=
  [.line "1;255;0;0;17;2.2\n".toList, .saveTick, .line "255;255;3;0;3;\n".toList, .restart,
   .line "255;255;3;0;3;\n".toList, .stop, .restart]

example : quiet (newGW .v22 .mqtt true) histPersist = true := by decide +kernel
example : akeys (run (newGW .v22 .mqtt true) (histPersist.take 3)).persisted = [1, 2] := by decide +kernel
example : akeys (run (newGW .v22 .mqtt true) (histPersist.take 4)).persisted = [1] := by decide +kernel
example : akeys (run (newGW .v22 .mqtt true) histPersist).persisted = [1, 2] := by decide +kernel
example : akeys (specRun .v22 true ⟨[], none⟩ histPersist).tree = [1, 2] := by decide +kernel

/-- the callback of the set sees the value already stored -/
example : (tstep (run (newGW .v20 .base false) (hist20.take 3)) (.line "1;0;1;0;0;20.5\n".toList)).2 =
    [[(1, ⟨1, [(0, ⟨0, 6, "temp".toList, [(0, "20.5".toList)]⟩)], some 17, none, none, 0, "2.0".toList, 0⟩)]] := by
  decide +kernel

/-- the hypotheses of the one-step theorems are satisfiable on a non-trivial state -/
example : ∃ g l m, decode l = some m ∧ validate g.const m = true ∧ fallibleFirst g.const m = true ∧
    (step g (.line l)).2.exc = none ∧ specNotifies g.const g.persisted m = true ∧
    specStep g.const g.persisted m ≠ g.persisted :=
  ⟨run (newGW .v20 .base false) (hist20.take 2), "1;255;3;0;22;9\n".toList, ⟨1, 255, 3, 0, 22, "9".toList⟩,
    by decide +kernel, by decide +kernel, by decide +kernel, by decide +kernel, by decide +kernel,
    by decide +kernel⟩

end MySensors.C04
