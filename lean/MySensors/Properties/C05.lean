/-
  C05 — every reply is the prescribed one, well-formed and correctly addressed.

  * `Properties/C05Table.lean` (namespace `MySensors.C05`): the reply table — for each message
    kind the exact message handed to `route` — and the validity of each prescribed reply.
  * this file: the global statement.  In every state reachable by any history of inbound lines
    and controller calls whose values the wire format can carry, every line any step hands to
    the transport is the encoding of a message that is valid for the configured version, and
    that line is the canonical one and decodes to that message again.
-/
import MySensors.Lemmas.GwEmit

namespace MySensors.C05

open MySensors

theorem emitInv_fresh (c : ConstId) (kd : Kind) (pers : Bool) :
    EmitInv c { const := c, kind := kd, persist := pers } :=
  ⟨rfl, fun k n hn => by simp [aget] at hn, fun k n hn => by simp [aget] at hn,
   fun k n cid ch vt v hn => by simp [aget] at hn, fun k n cid dv vt v hn => by simp [aget] at hn,
   numDigits_zero_le, fun d hd => by simp at hd, fun k n hn => by simp [aget] at hn⟩

/-- **C05 (global), one step**: under the invariant, every emitted line is the canonical,
    re-decodable encoding of a message valid for the configured version -/
theorem emitted_valid_step (g : GW) (op : Op) (hk : KeyRange g) (hop : Op.carry op) (hi : EmitInv g.const g) :
    ∀ l ∈ (step g op).2.sent, ∃ x : Msg, l = encLine x ∧ validate g.const x = true ∧
      l = canon x ∧ decode l = some x := by
  intro l hl
  obtain ⟨x, hx, hw⟩ := (eo_step g op rfl hk hop).sent hi l hl
  obtain ⟨h1, h2⟩ := emitted_line_canonical x hw.2.1 hw.2.2
  exact ⟨x, hx, hw.1, by rw [hx]; exact h1, by rw [hx]; exact h2⟩

/-- the invariant is preserved by every op -/
theorem emitInv_step (g : GW) (op : Op) (hk : KeyRange g) (hop : Op.carry op) (hi : EmitInv g.const g) :
    EmitInv (step g op).1.const (step g op).1 := by
  have h := eo_step g op rfl hk hop
  rw [h.const]
  exact h.inv hi

theorem inv_run (g : GW) (ops : List Op) (hops : ∀ o ∈ ops, Op.carry o) (hk : KeyInv g) (hi : EmitInv g.const g) :
    KeyInv (run g ops) ∧ EmitInv (run g ops).const (run g ops) := by
  induction ops generalizing g with
  | nil => exact ⟨hk, hi⟩
  | cons op ops ih =>
    exact ih _ (fun o ho => hops o (by simp [ho])) (keyInv_step g op hk)
      (emitInv_step g op hk.1 (hops op (by simp)) hi)

/-- **C05 (global), over histories**: from a freshly constructed gateway of any version and kind,
    after any history of inbound lines (arbitrary text) and controller calls with node ids in
    range and carryable values, every command the next step emits is a single canonical line that
    decodes to a message valid for the configured version. -/
theorem emitted_valid_run (c : ConstId) (kd : Kind) (pers : Bool) (ops : List Op) (op : Op)
    (hops : ∀ o ∈ ops, Op.carry o) (hop : Op.carry op) :
    let g := run { const := c, kind := kd, persist := pers } ops
    ∀ l ∈ (step g op).2.sent, ∃ x : Msg, l = encLine x ∧ validate g.const x = true ∧
      l = canon x ∧ decode l = some x := by
  intro g
  have h0k : KeyInv { const := c, kind := kd, persist := pers } :=
    ⟨fun k hk => by simp [akeys] at hk, fun d hd => by simp at hd⟩
  obtain ⟨hk, hi⟩ := inv_run _ ops hops h0k (emitInv_fresh c kd pers)
  exact emitted_valid_step g op hk.1 hop hi

/-! Non-vacuity: a history with a sleeping node, a pending desired value and a withheld reply;
    the wake-up burst consists of valid canonical lines. -/

def demo : List Op :=
  [.line "1;255;0;0;17;2.0\n".toList, .line "1;1;0;0;6;t\n".toList, .line "1;1;1;0;0;20\n".toList,
   .line "1;255;3;0;22;7\n".toList, .setValue 1 1 (.int 0) "25".toList none, .line "1;1;2;0;0;\n".toList]

example : ∀ o ∈ demo, Op.carry o := by
  intro o ho
  simp only [demo, List.mem_cons, List.mem_nil_iff, or_false] at ho
  rcases ho with rfl | rfl | rfl | rfl | rfl | rfl
  all_goals first
    | trivial
    | exact ⟨by omega, by omega, by decide, by intro ch hch; simp at hch; subst hch; decide⟩

example : (step (run { const := .v20 } demo) (.line "1;255;3;0;22;8\n".toList)).2.sent =
    ["1;1;1;0;0;25\n".toList, "1;1;1;0;0;25\n".toList] := by decide +kernel

end MySensors.C05
