/-
  C05 — every reply is the prescribed one, well-formed and correctly addressed.

  Part 1 (reply table): for each message kind the output of `logic` is characterised exactly —
  which message is handed to `route` (sent at once, or withheld if its destination sleeps: C07/C08).
  Part 2 (validity): each prescribed reply message is valid for the configured version
  (`validate g.const r = true`, discharged against the generated tables) and its line is the
  canonical one that decodes to it again (C02).
  Part 3: the destination is the requesting node, or 255 for the broadcast discover request.
-/
import MySensors.Lemmas.GwTotal
import MySensors.Properties.C06

namespace MySensors.C05

open MySensors

/-! ### dispatch lemmas: an accepted message of a given kind runs that kind's handler -/

def typeDispatchOk (t : VTables) : Bool :=
  lookup t.mtPresentation t.typeHandlers == some .handle_presentation &&
  lookup t.mtSet t.typeHandlers == some .handle_set &&
  lookup t.mtReq t.typeHandlers == some .handle_req &&
  lookup t.mtInternal t.typeHandlers == some .handle_internal &&
  lookup t.mtStream t.typeHandlers == some .handle_stream

theorem type_dispatch (c : ConstId) : typeDispatchOk (Tables.tables c) = true := by cases c <;> decide

theorem logic_accepted (g : GW) (l : Str) (m : Msg) (hd : decode l = some m) (hv : validate g.const m = true) :
    logic g l = dispatch g m := by
  unfold logic; simp [hd, hv]

theorem logic_req (g : GW) (l : Str) (m : Msg) (hd : decode l = some m) (hv : validate g.const m = true)
    (ht : m.type = g.t.mtReq) : logic g l = handleReq g m := by
  rw [logic_accepted g l m hd hv]
  have := type_dispatch g.const
  simp only [typeDispatchOk, Bool.and_eq_true, beq_iff_eq] at this
  unfold dispatch
  rw [ht]
  have h : lookup g.t.mtReq g.t.typeHandlers = some .handle_req := this.1.1.2
  simp only [h, dispatchBy]

theorem logic_set (g : GW) (l : Str) (m : Msg) (hd : decode l = some m) (hv : validate g.const m = true)
    (ht : m.type = g.t.mtSet) : logic g l = handleSet g m := by
  rw [logic_accepted g l m hd hv]
  have := type_dispatch g.const
  simp only [typeDispatchOk, Bool.and_eq_true, beq_iff_eq] at this
  unfold dispatch
  rw [ht]
  have h : lookup g.t.mtSet g.t.typeHandlers = some .handle_set := this.1.1.1.2
  simp only [h, dispatchBy]

theorem logic_internal (g : GW) (l : Str) (m : Msg) (h : HandlerId) (hd : decode l = some m)
    (hv : validate g.const m = true) (ht : m.type = g.t.mtInternal)
    (hh : lookup m.sub g.t.internalHandlers = some h) (hnt : ¬ (g.kind = .tcp ∧ some m.sub = g.t.iVersion)) :
    logic g l = handleInternalBy h g m := by
  rw [logic_accepted g l m hd hv]
  have := type_dispatch g.const
  simp only [typeDispatchOk, Bool.and_eq_true, beq_iff_eq] at this
  unfold dispatch
  rw [ht]
  have h' : lookup g.t.mtInternal g.t.typeHandlers = some .handle_internal := this.1.2
  simp only [h', dispatchBy, handleInternal, hnt, ↓reduceIte, hh]

theorem replyCopy_decoded (g : GW) (l : Str) (m : Msg) (kw : Kw) (hd : decode l = some m) :
    replyCopy g m kw = route g (m.modify kw) := by
  unfold replyCopy
  rw [C02.copy_decoded l m kw hd]

theorem seq_congr (r : Res) (f f' : GW → Res) (h : f r.1 = f' r.1) : seq r f = seq r f' := by
  unfold seq; rw [h]

/-! ### the reply table -/

/-- **value request**: answered with a `set` carrying the pending desired value if one exists,
    else the latest reported value; nothing if there is neither. -/
theorem value_request_reply (g : GW) (l : Str) (m : Msg) (n : Node) (hd : decode l = some m)
    (hv : validate g.const m = true) (ht : m.type = g.t.mtReq)
    (hk : isKnown g m.node (some m.child) = true) (hn : aget m.node g.sensors = some n) :
    logic g l =
      match desiredValue n m.child m.sub with
      | none => ret g
      | some v => route g ⟨m.node, m.child, g.t.mtSet, m.ack, m.sub, v⟩ := by
  rw [logic_req g l m hd hv ht]
  unfold handleReq ifKnown
  simp only [hk, ↓reduceIte]
  rw [withNode_eq g m.node _ n hn]
  cases desiredValue n m.child m.sub with
  | none => rfl
  | some v => simp only; rw [replyCopy_decoded g l m _ hd]; rfl

/-- **a message that needs a node or child the gateway does not know**: exactly one presentation
    request to that node for ≥ 2.0, silence before (stated for value requests and sets; the other
    handlers use the same `ifKnown` guard) -/
theorem unknown_gets_presentation_request (g : GW) (l : Str) (m : Msg) (hd : decode l = some m)
    (hv : validate g.const m = true) (ht : m.type = g.t.mtReq ∨ m.type = g.t.mtSet)
    (hk : isKnown g m.node (some m.child) = false) :
    logic g l = requestPresentation g m.node := by
  rcases ht with ht | ht
  · rw [logic_req g l m hd hv ht]; unfold handleReq ifKnown; simp [hk]
  · rw [logic_set g l m hd hv ht]; unfold handleSet ifKnown; simp [hk]

theorem requestPresentation_spec (g : GW) (node : Int) :
    requestPresentation g node =
      if g.const.ge20 then
        match g.t.iPresentation with
        | none => ret g
        | some sub => route g ⟨node, 255, g.t.mtInternal, 0, sub, []⟩
      else ret g := rfl

/-- **config request**: M or I -/
theorem config_reply (g : GW) (l : Str) (m : Msg) (hd : decode l = some m) (hv : validate g.const m = true)
    (ht : m.type = g.t.mtInternal) (hh : lookup m.sub g.t.internalHandlers = some .handle_config)
    (hnt : ¬ (g.kind = .tcp ∧ some m.sub = g.t.iVersion)) :
    logic g l = route g ⟨m.node, m.child, m.type, 0, m.sub, if g.metric then ['M'] else ['I']⟩ := by
  rw [logic_internal g l m _ hd hv ht hh hnt]
  simp only [handleInternalBy]
  rw [replyCopy_decoded g l m _ hd]; rfl

/-- **time request**: the controller's clock in seconds -/
theorem time_reply (g : GW) (l : Str) (m : Msg) (hd : decode l = some m) (hv : validate g.const m = true)
    (ht : m.type = g.t.mtInternal) (hh : lookup m.sub g.t.internalHandlers = some .handle_time)
    (hnt : ¬ (g.kind = .tcp ∧ some m.sub = g.t.iVersion)) :
    logic g l = route g ⟨m.node, m.child, m.type, 0, m.sub, renderInt g.clock⟩ := by
  rw [logic_internal g l m _ hd hv ht hh hnt]
  simp only [handleInternalBy]
  rw [replyCopy_decoded g l m _ hd]; rfl

/-- **gateway ready (≥ 2.0)**: the callback fires and a broadcast discover request goes out -/
theorem gateway_ready_reply (g : GW) (l : Str) (m : Msg) (sub : Int) (hd : decode l = some m)
    (hv : validate g.const m = true) (ht : m.type = g.t.mtInternal)
    (hh : lookup m.sub g.t.internalHandlers = some .handle_gateway_ready_20)
    (hnt : ¬ (g.kind = .tcp ∧ some m.sub = g.t.iVersion)) (hs : g.t.iDiscover = some sub) :
    logic g l = seq (alert g m) fun g1 => route g1 ⟨255, m.child, m.type, 0, sub, []⟩ := by
  rw [logic_internal g l m _ hd hv ht hh hnt]
  simp only [handleInternalBy]
  have : ∀ g1 : GW, g1.t = g.t → withConst g1 g1.t.iDiscover (fun sub =>
      replyCopy g1 m { node := some 255, ack := some 0, sub := some sub, payload := some [] }) =
      route g1 ⟨255, m.child, m.type, 0, sub, []⟩ := by
    intro g1 e
    rw [e, withConst_eq _ _ _ sub hs, replyCopy_decoded g1 l m _ hd]; rfl
  exact seq_congr _ _ _ (this (alert g m).1 rfl)

/-- **gateway ready (< 2.0)**, **log message**, and every internal sub-type without handler: silence -/
theorem internal_without_handler_silent (g : GW) (l : Str) (m : Msg) (hd : decode l = some m)
    (hv : validate g.const m = true) (ht : m.type = g.t.mtInternal)
    (hh : lookup m.sub g.t.internalHandlers = none) : logic g l = ret g := by
  rw [logic_accepted g l m hd hv]
  have := type_dispatch g.const
  simp only [typeDispatchOk, Bool.and_eq_true, beq_iff_eq] at this
  unfold dispatch
  rw [ht]
  have h' : lookup g.t.mtInternal g.t.typeHandlers = some .handle_internal := this.1.2
  simp only [h', dispatchBy, handleInternal, hh]
  split <;> rfl

/-- **a reported value from a node that is not asked to reboot**: silence (state + callback only) -/
theorem set_without_reboot_silent (g : GW) (l : Str) (m : Msg) (n : Node) (hd : decode l = some m)
    (hv : validate g.const m = true) (ht : m.type = g.t.mtSet)
    (hk : isKnown g m.node (some m.child) = true) (hn : aget m.node g.sensors = some n)
    (hr : n.reboot = false) : (logic g l).2.sent = [] := by
  rw [logic_set g l m hd hv ht]
  unfold handleSet ifKnown
  simp only [hk, ↓reduceIte]
  rw [withNode_eq g m.node _ n hn]
  unfold seq rebootReply
  simp [alert, hr, ret, Out.append]
  rfl

/-! id request: `C06.alloc_reply` (an id response carrying the allocated id) and
    `C06.no_alloc_no_node` (nothing when no id is free). -/

/-! ### validity of the prescribed replies -/

theorem headerOk_ack (t : VTables) (m : Msg) (p : Str) (a : Int) (ha : a = 0 ∨ a = 1) (h : headerOk t m = true) :
    headerOk t { m with ack := a, payload := p } = true := by
  simp only [headerOk, childOk, typeOk, Bool.and_eq_true, decide_eq_true_eq] at h ⊢
  obtain ⟨⟨⟨⟨h1, h2⟩, h3⟩, _⟩, h5⟩ := h
  exact ⟨⟨⟨⟨h1, h2⟩, h3⟩, ha⟩, h5⟩

def configRuleOk (t : VTables) : Bool :=
  t.internalHandlers.all fun p =>
    !(p.2 = .handle_config) ||
      (evalV (payloadRule t t.mtInternal p.1) ['M'] && evalV (payloadRule t t.mtInternal p.1) ['I'])

theorem config_rule (c : ConstId) : configRuleOk (Tables.tables c) = true := by cases c <;> decide

/-- the config reply is valid for the configured version -/
theorem config_reply_valid (g : GW) (m : Msg) (hv : validate g.const m = true) (ht : m.type = g.t.mtInternal)
    (hh : lookup m.sub g.t.internalHandlers = some .handle_config) :
    validate g.const ⟨m.node, m.child, m.type, 0, m.sub, if g.metric then ['M'] else ['I']⟩ = true := by
  have hc := config_rule g.const
  simp only [configRuleOk, List.all_eq_true] at hc
  have := hc (m.sub, .handle_config) (lookup_mem _ _ _ hh)
  simp only [Bool.or_eq_true, Bool.not_eq_true', decide_eq_false_iff_not, not_true_eq_false, false_or,
    Bool.and_eq_true] at this
  simp only [validate, Bool.and_eq_true] at hv ⊢
  refine ⟨headerOk_ack _ m _ 0 (Or.inl rfl) hv.1, ?_⟩
  show evalV (payloadRule (Tables.tables g.const) m.type m.sub) _ = true
  rw [ht]
  split
  · exact this.1
  · exact this.2

def timeRuleOk (t : VTables) : Bool :=
  t.internalHandlers.all fun p =>
    !(p.2 = .handle_time) ||
      (payloadRule t t.mtInternal p.1 == [[.lit []], [.coerceInt, .coerceStr]])

theorem time_rule (c : ConstId) : timeRuleOk (Tables.tables c) = true := by cases c <;> decide

/-- the time reply is valid whenever the clock can be rendered (CPython's digit limit) -/
theorem time_reply_valid (g : GW) (m : Msg) (hv : validate g.const m = true) (ht : m.type = g.t.mtInternal)
    (hh : lookup m.sub g.t.internalHandlers = some .handle_time)
    (hclock : numDigits g.clock ≤ PyTables.intMaxDigits) :
    validate g.const ⟨m.node, m.child, m.type, 0, m.sub, renderInt g.clock⟩ = true := by
  have hc := time_rule g.const
  simp only [timeRuleOk, List.all_eq_true] at hc
  have := hc (m.sub, .handle_time) (lookup_mem _ _ _ hh)
  simp only [Bool.or_eq_true, Bool.not_eq_true', decide_eq_false_iff_not, not_true_eq_false, false_or,
    beq_iff_eq] at this
  simp only [validate, Bool.and_eq_true] at hv ⊢
  refine ⟨headerOk_ack _ m _ 0 (Or.inl rfl) hv.1, ?_⟩
  show evalV (payloadRule (Tables.tables g.const) m.type m.sub) _ = true
  have e : g.t = Tables.tables g.const := rfl
  rw [ht, e, this]
  simp [evalV, evalAll, evalAtom, pyInt_renderInt g.clock hclock]

def reqSetFacts (t : VTables) : Bool :=
  t.mtReq != t.mtInternal && t.mtReq != t.mtStream && t.mtReq != t.mtPresentation &&
  t.mtSet != t.mtInternal && t.mtSet != t.mtStream && t.messageTypes.contains t.mtSet &&
  (subTypesOf t t.mtSet == subTypesOf t t.mtReq)

theorem req_set_facts (c : ConstId) : reqSetFacts (Tables.tables c) = true := by cases c <;> decide

/-- the value-request reply is valid when the stored / desired value satisfies the rule of that
    value type (stored values were validated on arrival under the same rule, desired values at
    call time: `C08.accepted_value_is_sendable`) -/
theorem value_reply_valid (g : GW) (m : Msg) (v : Str) (hv : validate g.const m = true) (ht : m.type = g.t.mtReq)
    (hrule : evalV (payloadRule g.t g.t.mtSet m.sub) v = true) :
    validate g.const ⟨m.node, m.child, g.t.mtSet, m.ack, m.sub, v⟩ = true := by
  have hf := req_set_facts g.const
  have e : g.t = Tables.tables g.const := rfl
  rw [e] at ht hrule
  rw [e]
  simp only [validate] at hv ⊢
  generalize Tables.tables g.const = t at hf ht hrule hv ⊢
  simp only [reqSetFacts, Bool.and_eq_true, bne_iff_ne, ne_eq, beq_iff_eq] at hf
  obtain ⟨⟨⟨⟨⟨⟨f1, f2⟩, f3⟩, f4⟩, f5⟩, f6⟩, f7⟩ := hf
  simp only [headerOk, childOk, typeOk, Bool.and_eq_true, decide_eq_true_eq] at hv ⊢
  obtain ⟨⟨⟨⟨⟨hnode, hchild⟩, htype⟩, hack⟩, hsub⟩, _⟩ := hv
  rw [ht] at hchild htype hsub
  have n1 : ¬ (t.mtReq = t.mtInternal ∧ (some m.sub = t.iIdRequest ∨ some m.sub = t.iIdResponse)) := fun h => f1 h.1
  have n2 : ¬ (t.mtReq = t.mtInternal ∨ t.mtReq = t.mtStream) := fun h => h.elim f1 f2
  simp only [n1, n2, ↓reduceIte, decide_eq_true_eq] at hchild
  have hne255 : ¬ m.child = Tables.systemChildId := by
    intro h
    simp only [h, ↓reduceIte, decide_eq_true_eq] at htype
    rcases htype with h' | h' | h'
    · exact f3 h'
    · exact f1 h'
    · exact f2 h'
  have n3 : ¬ (t.mtSet = t.mtInternal ∧ (some m.sub = t.iIdRequest ∨ some m.sub = t.iIdResponse)) := fun h => f4 h.1
  have n4 : ¬ (t.mtSet = t.mtInternal ∨ t.mtSet = t.mtStream) := fun h => h.elim f4 f5
  refine ⟨⟨⟨⟨⟨hnode, ?_⟩, ?_⟩, hack⟩, ?_⟩, hrule⟩
  · simp only [n3, n4, ↓reduceIte, decide_eq_true_eq]; exact hchild
  · simp only [hne255, ↓reduceIte]; exact f6
  · rw [f7]; exact hsub

/-- every line handed to the transport for a valid message with a carryable payload is the
    canonical line and decodes to that message again -/
theorem emitted_line_canonical (r : Msg) (hp : carryable r.payload) (hl : intsWithinLimit r) :
    encLine r = canon r ∧ decode (encLine r) = some r := by
  unfold encLine
  rw [encode_eq_canon r hl]
  exact ⟨rfl, decode_canon r hp hl⟩

/-! Non-vacuity -/

example : (logic { const := .v20 } "3;255;3;0;6;0\n".toList).2.sent = ["3;255;3;0;6;M\n".toList] := by
  decide +kernel
example : (logic { const := .v20 } "3;1;2;0;0;\n".toList).2.sent = ["3;255;3;0;19;\n".toList] := by decide +kernel
example : (logic { const := .v15 } "3;1;2;0;0;\n".toList).2.sent = [] := by decide +kernel
example : (logic { const := .v22, clock := 1700000000 } "3;255;3;0;1;\n".toList).2.sent =
    ["3;255;3;0;1;1700000000\n".toList] := by decide +kernel

end MySensors.C05
