/-
  C06 — node ids are never handed out twice.

  `allocs g ops` is the list of ids the gateway allocates for accepted id requests along a
  history (ghost definition below; `alloc_reply` ties it to the id response line).  Histories
  mix arbitrary ops; with persistence enabled they may contain clean stop/restart cycles
  (`HOp.cleanRestart` = `stop` immediately followed by `restart`).
-/
import MySensors.Lemmas.GwHist

namespace MySensors.C06

open MySensors

/-- an accepted message that is an id request -/
def isIdRequest (g : GW) (m : Msg) : Bool :=
  validate g.const m && (m.type = g.t.mtInternal) && (some m.sub = g.t.iIdRequest)

/-- the id allocated by this op, if it is an accepted id request and an id is available -/
def allocOf (g : GW) : Op → Option Int
  | .line s =>
    match decode s with
    | some m => if isIdRequest g m then nextId g else none
    | none => none
  | _ => none

def allocs (g : GW) : List Op → List Int
  | [] => []
  | op :: ops => (allocOf g op).toList ++ allocs (step g op).1 ops

/-- history element: any op except a bare restart, or a clean stop+restart cycle -/
inductive HOp
  | op (o : Op) (h : o ≠ .restart)
  | cleanRestart

def HOp.ops : HOp → List Op
  | .op o _ => [o]
  | .cleanRestart => [.stop, .restart]

def flatten (h : List HOp) : List Op := h.flatMap HOp.ops

/-! ### table facts (re-checked against the generated tables on every build) -/

theorem idRequest_dispatch (c : ConstId) :
    lookup (Tables.tables c).mtInternal (Tables.tables c).typeHandlers = some .handle_internal ∧
    (∃ s, (Tables.tables c).iIdRequest = some s ∧
      lookup s (Tables.tables c).internalHandlers = some .handle_id_request ∧
      (Tables.tables c).iVersion ≠ some s) ∧
    (∃ r, (Tables.tables c).iIdResponse = some r) := by
  cases c <;> exact ⟨by decide, ⟨_, rfl, by decide, by decide⟩, ⟨_, rfl⟩⟩

/-- an accepted id request is handled by the id allocator -/
theorem logic_idRequest (g : GW) (s : Str) (m : Msg) (hd : decode s = some m) (hi : isIdRequest g m = true) :
    logic g s = handleIdRequest g m := by
  simp only [isIdRequest, Bool.and_eq_true, decide_eq_true_eq] at hi
  obtain ⟨⟨hv, ht⟩, hs⟩ := hi
  obtain ⟨h1, ⟨sub, h2, h3, h4⟩, _⟩ := idRequest_dispatch g.const
  have hsub : m.sub = sub := by
    have : some m.sub = some sub := by rw [hs]; exact h2
    exact Option.some.inj this
  unfold logic
  simp only [hd, hv, ↓reduceIte]
  unfold dispatch
  have h1' : lookup m.type g.t.typeHandlers = some .handle_internal := by rw [ht]; exact h1
  simp only [h1', dispatchBy, handleInternal]
  have hne : ¬ (g.kind = Kind.tcp ∧ some m.sub = g.t.iVersion) := by
    intro h; apply h4; rw [← hsub]; exact h.2.symm
  have h3' : lookup m.sub g.t.internalHandlers = some .handle_id_request := by rw [hsub]; exact h3
  simp only [hne, ↓reduceIte, h3', handleInternalBy]

theorem keys_addSensor (g : GW) (id : Int) : id ∈ akeys (addSensor g id).sensors := by
  unfold addSensor
  split
  · rename_i n h
    exact (aget_isSome_iff_mem_keys id g.sensors).mp (by rw [h]; rfl)
  · simp [akeys]

/-- the allocated id is known from then on -/
theorem alloc_known (g : GW) (op : Op) (id : Int) (h : allocOf g op = some id) :
    id ∈ akeys (step g op).1.sensors := by
  cases op with
  | line s =>
    simp only [allocOf] at h
    cases hd : decode s with
    | none => simp [hd] at h
    | some m =>
      simp only [hd] at h
      by_cases hi : isIdRequest g m = true
      · simp only [hi, ↓reduceIte] at h
        simp only [step, transportFilter_fst, logic_idRequest g s m hd hi]
        unfold handleIdRequest
        simp only [h]
        have hgrow : Grow (addSensor g id) (withConst (addSensor g id) (addSensor g id).t.iIdResponse fun sub =>
            replyCopy (addSensor g id) m { ack := some 0, sub := some sub, payload := some (renderInt id) }).1 := by
          apply rel_withConst growStepRel; intro sub; exact rel_replyCopy growStepRel _ _ _
        exact hgrow.mono id (keys_addSensor g id)
      · simp [hi] at h
  | _ => simp [allocOf] at h

/-- what an allocation guarantees at the moment it happens -/
theorem alloc_fresh (g : GW) (op : Op) (id : Int) (hk : KeyRange g) (h : allocOf g op = some id) :
    1 ≤ id ∧ id ≤ 254 ∧ id ∉ akeys g.sensors := by
  cases op with
  | line s =>
    simp only [allocOf] at h
    cases hd : decode s with
    | none => simp [hd] at h
    | some m =>
      simp only [hd] at h
      by_cases hi : isIdRequest g m = true
      · simp only [hi, ↓reduceIte] at h
        have := nextId_spec g id hk h
        exact ⟨this.1, Int.le_trans this.2.1 (maxNodeId_le g.const), this.2.2⟩
      · simp [hi] at h
  | _ => simp [allocOf] at h

/-- the id response carries exactly the allocated id: the reply of the step is the request
    copied with ack 0, sub-type I_ID_RESPONSE and the id as payload (sent, or withheld if the
    requesting node id belongs to a sleeping node) -/
theorem alloc_reply (g : GW) (s : Str) (m : Msg) (id : Int) (hd : decode s = some m)
    (hi : isIdRequest g m = true) (h : nextId g = some id) :
    ∃ sub, (addSensor g id).t.iIdResponse = some sub ∧
      logic g s = replyCopy (addSensor g id) m { ack := some 0, sub := some sub, payload := some (renderInt id) } := by
  obtain ⟨_, _, r, hr⟩ := idRequest_dispatch g.const
  have hconst : (addSensor g id).t = g.t := by unfold addSensor; split <;> rfl
  refine ⟨r, by rw [hconst]; exact hr, ?_⟩
  rw [logic_idRequest g s m hd hi]
  unfold handleIdRequest
  simp only [h, withConst, hconst]
  have : g.t.iIdResponse = some r := hr
  simp only [this]

/-- no allocation when no id can be allocated: the state's node set is unchanged -/
theorem no_alloc_no_node (g : GW) (s : Str) (m : Msg) (hd : decode s = some m)
    (hi : isIdRequest g m = true) (h : nextId g = none) : logic g s = ret g := by
  rw [logic_idRequest g s m hd hi]
  unfold handleIdRequest
  simp only [h]

/-! ### the history theorem -/

theorem keys_step_mono (g : GW) (op : Op) (hne : op ≠ .restart) (hk : KeyRange g) :
    ∀ k ∈ akeys g.sensors, k ∈ akeys (step g op).1.sensors := by
  by_cases hp : op.plain = true
  · exact (grow_step g op hp hk).mono
  · cases op with
    | saveTick | stop => intro k hk'; simp only [step]; rw [(save_spec g).1]; exact hk'
    | restart => exact absurd rfl hne
    | _ => simp [Op.plain] at hp

theorem keys_cleanRestart (g : GW) (hp : g.persist = true) (hc : Clean g) :
    akeys (step (step g .stop).1 .restart).1.sensors = akeys g.sensors := by
  have := stop_restart_persisted g hp hc
  have h2 := congrArg akeys this
  rw [akeys_persisted, akeys_persisted] at h2
  exact h2

theorem allocs_append (g : GW) (a b : List Op) : allocs g (a ++ b) = allocs g a ++ allocs (run g a) b := by
  induction a generalizing g with
  | nil => rfl
  | cons op a ih => simp [allocs, run, ih]

/-- every id allocated along a history is in 1..254, unknown at the start of the history, and
    the allocated ids are pairwise distinct -/
theorem allocs_spec (h : List HOp) (g : GW) (hk : KeyInv g) (hc : Clean g)
    (hp : (∃ x ∈ h, x = HOp.cleanRestart) → g.persist = true) :
    (allocs g (flatten h)).Nodup ∧
    ∀ id ∈ allocs g (flatten h), 1 ≤ id ∧ id ≤ 254 ∧ id ∉ akeys g.sensors := by
  induction h generalizing g with
  | nil => simp [flatten, allocs]
  | cons x xs ih =>
    cases x with
    | op o hne =>
      have hk' := keyInv_step g o hk
      have hc' := clean_step g o hk.1 hc
      have hp' : (∃ x ∈ xs, x = HOp.cleanRestart) → (step g o).1.persist = true := by
        intro hx
        rw [persist_step g o hk.1]
        exact hp (by obtain ⟨y, hy, e⟩ := hx; exact ⟨y, List.mem_cons_of_mem _ hy, e⟩)
      obtain ⟨ihn, ihm⟩ := ih (step g o).1 hk' hc' hp'
      have hmono := keys_step_mono g o hne hk.1
      have e : flatten (HOp.op o hne :: xs) = o :: flatten xs := by simp [flatten, HOp.ops]
      rw [e]
      simp only [allocs]
      cases ha : allocOf g o with
      | none =>
        simp only [Option.toList_none, List.nil_append]
        refine ⟨ihn, fun id hid => ?_⟩
        obtain ⟨a, b, c⟩ := ihm id hid
        exact ⟨a, b, fun hmem => c (hmono id hmem)⟩
      | some id0 =>
        simp only [Option.toList_some, List.singleton_append, List.nodup_cons, List.mem_cons]
        have hf := alloc_fresh g o id0 hk.1 ha
        have hkn := alloc_known g o id0 ha
        refine ⟨⟨fun hmem => (ihm id0 hmem).2.2 hkn, ihn⟩, fun id hid => ?_⟩
        rcases hid with rfl | hid
        · exact hf
        · obtain ⟨a, b, c⟩ := ihm id hid
          exact ⟨a, b, fun hmem => c (hmono id hmem)⟩
    | cleanRestart =>
      have hpers : g.persist = true := hp ⟨_, List.mem_cons_self, rfl⟩
      have hk1 := keyInv_step g .stop hk
      have hc1 := clean_step g .stop hk.1 hc
      have hk2 := keyInv_step _ .restart hk1
      have hc2 := clean_step _ .restart hk1.1 hc1
      have hp2 : (∃ x ∈ xs, x = HOp.cleanRestart) → (step (step g .stop).1 .restart).1.persist = true := by
        intro _
        rw [persist_step _ .restart hk1.1, persist_step g .stop hk.1]; exact hpers
      obtain ⟨ihn, ihm⟩ := ih _ hk2 hc2 hp2
      have e : flatten (HOp.cleanRestart :: xs) = Op.stop :: Op.restart :: flatten xs := by
        simp [flatten, HOp.ops]
      rw [e]
      simp only [allocs, allocOf, Option.toList_none, List.nil_append]
      refine ⟨ihn, fun id hid => ?_⟩
      obtain ⟨a, b, c⟩ := ihm id hid
      refine ⟨a, b, ?_⟩
      rw [keys_cleanRestart g hpers hc] at c
      exact c

/-- **C06**, from a freshly constructed gateway (any version, any kind, persistence on):
    over every history with clean stop/restart cycles the allocated ids are distinct and in 1..254 -/
theorem ids_never_twice (c : ConstId) (k : Kind) (h : List HOp) :
    (allocs (freshGW c k) (flatten h)).Nodup ∧
    ∀ id ∈ allocs (freshGW c k) (flatten h), 1 ≤ id ∧ id ≤ 254 :=
  let r := allocs_spec h (freshGW c k) (freshGW_inv c k).1 (freshGW_inv c k).2 (fun _ => rfl)
  ⟨r.1, fun id hid => ⟨(r.2 id hid).1, (r.2 id hid).2.1⟩⟩

/-- without persistence the same holds for histories without restarts -/
theorem ids_never_twice_no_persistence (g : GW) (ops : List Op) (hk : KeyInv g) (hc : Clean g)
    (hnr : ∀ o ∈ ops, o ≠ .restart) :
    (allocs g ops).Nodup ∧ ∀ id ∈ allocs g ops, 1 ≤ id ∧ id ≤ 254 ∧ id ∉ akeys g.sensors := by
  have : ∃ h : List HOp, flatten h = ops ∧ ∀ x ∈ h, x ≠ HOp.cleanRestart := by
    induction ops with
    | nil => exact ⟨[], rfl, by simp⟩
    | cons o os ih =>
      obtain ⟨h, e, hh⟩ := ih (fun x hx => hnr x (List.mem_cons_of_mem _ hx))
      refine ⟨HOp.op o (hnr o List.mem_cons_self) :: h, by simp [flatten, HOp.ops] at e ⊢; exact e, ?_⟩
      intro x hx
      simp only [List.mem_cons] at hx
      rcases hx with rfl | hx
      · simp
      · exact hh x hx
  obtain ⟨h, e, hh⟩ := this
  rw [← e]
  exact allocs_spec h g hk hc (fun ⟨x, hx, ex⟩ => absurd ex (hh x hx))

/-! Non-vacuity: two id requests around a clean restart get ids 1 and 2. -/

example : allocs (freshGW .v22 .base)
    (flatten [.op (.line "255;255;3;0;3;\n".toList) (by decide), .cleanRestart,
              .op (.line "255;255;3;0;3;\n".toList) (by decide)]) = [1, 2] := by decide +kernel

end MySensors.C06
