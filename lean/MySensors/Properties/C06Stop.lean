/-
  C06 — ids and the shutdown window: an id response that went out while stop() was running is in the
  file stop() leaves, so the restarted gateway knows the id and does not hand it out again
  (`ids_never_twice` covers the restart from that file).  Specialisation of `C14.clean_stop_window`.
-/
import MySensors.Properties.C14Stop

namespace MySensors.C06

open MySensors.StopOrder

/-- every id handed out before or during stop() is persisted by it, for every placement of the pump's
    work relative to stop()'s disconnect and final save -/
theorem stop_window_ids (evs : List Ev) (s : St) (hs : ∀ i ∈ s.handed, i ∈ s.known)
    (ha : stopActions evs = script) : ∀ i ∈ (run s evs).handed, i ∈ (run s evs).file :=
  C14.clean_stop_window evs s hs ha

/-- and with the save first an id can go out that the file does not hold -/
theorem stop_window_order_matters :
    ∃ evs, stopActions evs = [.save, .disconnect] ∧ ∃ i ∈ (run {} evs).handed, i ∉ (run {} evs).file :=
  C14.reversed_order_loses

end MySensors.C06
