/-
  C06 — ids and the shutdown window: an id response that went out before or while stop() was running is
  in the file stop() leaves, so the restarted gateway knows the id and does not hand it out again
  (`ids_never_twice` covers the restart from that file).  Specialisation of `C14.clean_stop_window`.
-/
import MySensors.Properties.C14Stop

namespace MySensors.C06

open MySensors.StopOrder

/-- every id handed out before or during stop() is persisted by it: for every earlier history of id
    requests and periodic saves, and every placement of the pump's work relative to stop()'s disconnect
    and final save -/
theorem stop_window_ids (pre mid w post : List Ev) (hmid : OnlyProc mid) (hw : OnlyProc w) (hpost : OnlyProc post)
    (hidle : (run {} (pre ++ .disconnect :: mid)).snap = none) :
    let fin := run {} (pre ++ .disconnect :: mid ++ .saveStart :: w ++ .saveEnd :: post)
    ∀ i ∈ fin.handed, i ∈ fin.file :=
  C14.clean_stop_window pre mid w post {} C14.inv_init hmid hw hpost hidle

/-- with the save first, or with the unsaved mark cleared late, an id can go out that the file does not hold -/
theorem stop_window_order_matters :
    (∃ evs, ∃ i ∈ (run {} evs).handed, i ∉ (run {} evs).file) ∧
    (∃ evs, (∃ pre, evs = pre ++ script) ∧ ∃ i ∈ (runLate {} evs).handed, i ∉ (runLate {} evs).file) :=
  ⟨C14.reversed_order_loses, C14.late_clear_loses⟩

/-! ### The thread-based MQTT gateway: commands still queued at the stop -/

theorem runMqtt_append (s : St) (a b : List Ev) : runMqtt s (a ++ b) = runMqtt (runMqtt s a) b := by
  induction a generalizing s with
  | nil => rfl
  | cons e es ih => exact ih _

/-- once the stop event is set the poll loop runs nothing: queued jobs change neither the network, nor
    the file, nor what has been published -/
theorem mqtt_backlog_not_run (evs : List Ev) (hp : OnlyProc evs) (s : St) (hc : s.connected = false) :
    runMqtt s evs = s := by
  induction evs with
  | nil => rfl
  | cons e evs ih =>
    obtain ⟨c, rfl⟩ := hp e (by simp)
    have : stepMqtt s (.proc c) = s := by simp [stepMqtt, hc]
    show runMqtt (stepMqtt s (.proc c)) evs = s
    rw [this]
    exact ih (fun e he => hp e (by simp [he]))

theorem inv_stepMqtt (s : St) (e : Ev) (h : C14.Inv s) : C14.Inv (stepMqtt s e) := by
  cases e with
  | proc c =>
    by_cases hc : s.connected = true
    · have : stepMqtt s (.proc c) = step s (.proc c) := by simp [stepMqtt, step, hc]
      rw [this]; exact C14.inv_step s _ h
    · have : stepMqtt s (.proc c) = s := by simp [stepMqtt, hc]
      rw [this]; exact h
  | disconnect => exact C14.inv_step s .disconnect h
  | saveStart => exact C14.inv_step s .saveStart h
  | saveEnd => exact C14.inv_step s .saveEnd h

theorem inv_runMqtt (evs : List Ev) (s : St) (h : C14.Inv s) : C14.Inv (runMqtt s evs) := by
  induction evs generalizing s with
  | nil => exact h
  | cons e evs ih => exact ih _ (inv_stepMqtt s e h)

/-- **MQTT, thread-based: every id published is in the file stop() leaves.**  Anything may have
    happened before (`pre`); then stop() sets the stop event, and whatever is still queued — before the
    final save (`mid`), while it writes (`w`), after it (`post`) — is not run.  If no earlier save is
    still writing when the final one starts, every id that was published is in the file. -/
theorem mqtt_stop_window (pre mid w post : List Ev) (hmid : OnlyProc mid) (hw : OnlyProc w) (hpost : OnlyProc post)
    (hidle : (runMqtt {} (pre ++ [.disconnect])).snap = none) :
    let fin := runMqtt {} (pre ++ .disconnect :: mid ++ .saveStart :: w ++ .saveEnd :: post)
    ∀ i ∈ fin.handed, i ∈ fin.file := by
  intro fin
  have hI := inv_runMqtt (pre ++ [.disconnect]) {} C14.inv_init
  have hoff : (runMqtt {} (pre ++ [.disconnect])).connected = false := by
    rw [runMqtt_append]; simp [runMqtt, stepMqtt, step]
  have e1 : fin = runMqtt (stepMqtt (runMqtt (stepMqtt (runMqtt (runMqtt {} (pre ++ [.disconnect])) mid) .saveStart) w) .saveEnd) post := by
    simp only [fin, runMqtt_append, runMqtt, List.append_assoc, List.cons_append, List.nil_append]
  generalize runMqtt {} (pre ++ [.disconnect]) = s1 at hI hoff hidle e1
  rw [mqtt_backlog_not_run mid hmid s1 hoff] at e1
  by_cases hd : s1.dirty = true
  · have hs2 : stepMqtt s1 .saveStart = { s1 with dirty := false, snap := some s1.known } := by
      simp [stepMqtt, step, hidle, hd]
    rw [hs2, mqtt_backlog_not_run w hw _ (by simpa using hoff)] at e1
    have hs3 : stepMqtt { s1 with dirty := false, snap := some s1.known } .saveEnd
        = { s1 with dirty := false, snap := none, file := s1.known } := by simp [stepMqtt, step]
    rw [hs3, mqtt_backlog_not_run post hpost _ (by simpa using hoff)] at e1
    intro i hi
    rw [e1] at hi ⊢
    exact hI.handed i hi
  · have hd' : s1.dirty = false := by simpa using hd
    have hs2 : stepMqtt s1 .saveStart = s1 := by simp [stepMqtt, step, hidle, hd']
    rw [hs2, mqtt_backlog_not_run w hw s1 hoff] at e1
    have hs3 : stepMqtt s1 .saveEnd = s1 := by simp [stepMqtt, step, hidle]
    rw [hs3, mqtt_backlog_not_run post hpost s1 hoff] at e1
    intro i hi
    rw [e1] at hi ⊢
    have := hI.clean hd' i (hI.handed i hi)
    simpa [hidle] using this

/-- the premises are met by a busy history: two ids handed out, a periodic save with a third handed out
    while it writes, four more requests queued when stop() is called -/
example :
    let pre := [Ev.proc 1, .proc 2, .saveStart, .proc 3, .saveEnd]
    (runMqtt {} (pre ++ [.disconnect])).snap = none ∧
    (runMqtt {} (pre ++ .disconnect :: [Ev.proc 4] ++ .saveStart :: [Ev.proc 5, .proc 6] ++ .saveEnd :: [Ev.proc 7])).handed = [3, 2, 1] ∧
    (runMqtt {} (pre ++ .disconnect :: [Ev.proc 4] ++ .saveStart :: [Ev.proc 5, .proc 6] ++ .saveEnd :: [Ev.proc 7])).file = [3, 2, 1] := by
  decide

/-- a poll loop that drains its queue before it looks at the stop event publishes an id the file does
    not hold: stop()'s own actions, then the one queued request -/
theorem mqtt_drain_after_stop_loses :
    ∃ i ∈ (runMqttDrain {} (script ++ [.proc 1])).handed, i ∉ (runMqttDrain {} (script ++ [.proc 1])).file :=
  ⟨1, by decide, by decide⟩

end MySensors.C06
