/-
  C06 — ids and the shutdown window: an id response that went out before or while stop() was running is
  in the file stop() leaves, so the restarted gateway knows the id and does not hand it out again
  (`ids_never_twice` covers the restart from that file).  Specialisation of `C14.clean_stop_window`.
-/
import MySensors.Properties.C14Stop

namespace MySensors.C06

open MySensors.StopOrder

/-- every id handed out before or during stop() is persisted by it: for every earlier history of id
    requests and periodic saves, and every placement of the pump's work relative to stop()'s disconnect
    and final save -/
theorem stop_window_ids (pre mid w post : List Ev) (hmid : OnlyProc mid) (hw : OnlyProc w) (hpost : OnlyProc post)
    (hidle : (run {} (pre ++ .disconnect :: mid)).snap = none) :
    let fin := run {} (pre ++ .disconnect :: mid ++ .saveStart :: w ++ .saveEnd :: post)
    ∀ i ∈ fin.handed, i ∈ fin.file :=
  C14.clean_stop_window pre mid w post {} C14.inv_init hmid hw hpost hidle

/-- with the save first, or with the unsaved mark cleared late, an id can go out that the file does not hold -/
theorem stop_window_order_matters :
    (∃ evs, ∃ i ∈ (run {} evs).handed, i ∉ (run {} evs).file) ∧
    (∃ evs, (∃ pre, evs = pre ++ script) ∧ ∃ i ∈ (runLate {} evs).handed, i ∉ (runLate {} evs).file) :=
  ⟨C14.reversed_order_loses, C14.late_clear_loses⟩

end MySensors.C06
