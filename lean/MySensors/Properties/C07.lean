/-
  C07 — nothing is sent to a sleeping node outside its wake window.

  Statements are about the messages whose encodings are handed to the transport:
  `l = encLine x` with `x.node` the destination.  `sleepingNode g k` is the library's
  `is_smart_sleep_node` (the node has announced smart sleep while having children).
  The pump is the inline one (see C19 for the threaded pump's ordering, finding D12).
-/
import MySensors.Lemmas.GwSleep
import MySensors.Lemmas.GwHist

namespace MySensors.C07

open MySensors

/-- the node whose wake-up announcement this op is (heartbeat response in 2.0/2.1, pre-sleep
    notification in 2.2 — whatever the version's registry maps to a flushing handler) -/
def wakeOf (g : GW) : Op → Option Int
  | .line s =>
    match decode s with
    | some m => if validate g.const m && wakeLine g m then some m.node else none
    | none => none
  | _ => none

theorem hold_filter (wk : Option Int) (g g0 : GW) (r : Res) (h : Hold wk g r) : Hold wk g (transportFilter g0 r) := by
  unfold transportFilter
  split
  · refine ⟨h.const, h.inv, h.mono, ?_⟩
    intro hi l hl
    simp only [List.mem_filter] at hl
    exact h.sent hi l hl.1
  · exact h

/-- every step except a restart respects the hold discipline -/
theorem hold_step (g : GW) (op : Op) (hk : KeyRange g) (hne : op ≠ .restart) (hw : Op.wf op) :
    Hold (wakeOf g op) g (step g op) := by
  cases op with
  | line s =>
    simp only [step]
    apply hold_filter
    apply relo_logic (holdStepRelO _) (hold_ignoresSubs _) g s hk
    intro m hd hv hw
    simp [wakeOf, hd, hv, hw]
  | setValue n c vt v a =>
    simp only [step]
    apply hold_filter
    exact relo_setChildValue (holdStepRelO _) g n c vt v a
      (fun nd _ hn _ _ => hold_storeDesired _ g n c nd _ v hn)
      (fun nd msg hn hs hm => hold_directSet _ g n c nd _ v msg _ hn hs hm)
  | update nids t v img =>
    exact relo_makeUpdate (holdStepRelO _) g nids t v img (by intro im e; subst e; exact hw)
  | clock t => exact ⟨rfl, fun hi => hi, fun _ h => h, fun _ l hl => by simp [step] at hl⟩
  | metric b => exact ⟨rfl, fun hi => hi, fun _ h => h, fun _ l hl => by simp [step] at hl⟩
  | saveTick | stop =>
    have hs := (save_spec g).1
    refine ⟨?_, ?_, ?_, fun _ l hl => by simp [step] at hl⟩
    · simp only [step, save]; split <;> rfl
    · intro hi k n hn; simp only [step] at hn; rw [hs] at hn; exact hi k n hn
    · intro k hk'; simp only [step, sleepingNode] at hk' ⊢; rw [hs]; exact hk'
  | restart => exact absurd rfl hne

/-- **C07 (hold)**: whatever the history that led to `g`, a step emits a line for node `k` only if
    it is a firmware stream response, or `k` is not sleeping, or the step processes `k`'s own
    wake-up announcement. -/
theorem nothing_to_sleeping_node (g : GW) (op : Op) (hk : KeyRange g) (hi : NodeInv g) (hw : Op.wf op) :
    ∀ l ∈ (step g op).2.sent, ∃ x : Msg, l = encLine x ∧
      (x.type = g.t.mtStream ∨ sleepingNode g x.node = false ∨ wakeOf g op = some x.node) := by
  by_cases hne : op = .restart
  · subst hne; intro l hl; simp [step] at hl
  · exact (hold_step g op hk hne hw).sent hi

/-- within a gateway lifetime a node that sleeps keeps sleeping (the hold never lapses) -/
theorem sleeping_persists (g : GW) (op : Op) (hk : KeyRange g) (hne : op ≠ .restart) (hw : Op.wf op) (k : Int)
    (h : sleepingNode g k = true) : sleepingNode (step g op).1 k = true :=
  (hold_step g op hk hne hw).mono k h

/-- **C07 (others are not delayed)**: a reply for a destination that is not sleeping (or any
    stream message) is handed to the transport in the same step -/
theorem others_not_delayed (g : GW) (m : Msg) (hp : m.type ≠ g.t.mtPresentation)
    (h : m.type = g.t.mtStream ∨ sleepingNode g m.node = false) : route g m = emit g [encLine m] := by
  unfold route
  simp only [hp, ↓reduceIte]
  have : holds g m = false := by
    unfold holds
    cases hn : aget m.node g.sensors with
    | none => rfl
    | some n =>
      rcases h with h | h
      · simp [h]
      · simp only [sleepingNode, hn] at h; simp [h]
  simp [this]

/-- a message is withheld only when its own destination sleeps -/
theorem withheld_only_if_sleeping (g : GW) (m : Msg) (h : holds g m = true) :
    sleepingNode g m.node = true ∧ m.type ≠ g.t.mtStream := by
  unfold holds at h
  cases hn : aget m.node g.sensors with
  | none => rw [hn] at h; cases h
  | some n =>
    rw [hn] at h
    simp only [Bool.and_eq_true, Bool.not_eq_true', decide_eq_false_iff_not] at h
    exact ⟨by simp [sleepingNode, hn, h.2], h.1⟩

/-! ### the invariant holds along every history -/

/-- the file's nodes sit under their own ids -/
def DiskInv (g : GW) : Prop := ∀ d, g.disk = some d → ∀ k p, aget k d = some p → p.id = k

theorem aget_map {α β} (f : α → β) (k : Int) (l : List (Int × α)) :
    aget k (l.map fun p => (p.1, f p.2)) = (aget k l).map f := by
  induction l with
  | nil => rfl
  | cons p l ih =>
    obtain ⟨k', v⟩ := p
    by_cases e : k = k' <;> simp [aget, e, ih]

theorem inv_step (g : GW) (op : Op) (hw : Op.wf op) (hk : KeyInv g) (hi : NodeInv g) (hd : DiskInv g) :
    NodeInv (step g op).1 ∧ DiskInv (step g op).1 := by
  by_cases hp : op.plain = true
  · have hne : op ≠ .restart := by intro e; subst e; simp [Op.plain] at hp
    refine ⟨(hold_step g op hk.1 hne hw).inv hi, ?_⟩
    intro d hdd; rw [(tr_step g op hp hk.1).disk] at hdd; exact hd d hdd
  · cases op with
    | saveTick | stop =>
      refine ⟨(hold_step g _ hk.1 (by simp) hw).inv hi, ?_⟩
      intro d hdd k p hp'
      simp only [step, save] at hdd
      split at hdd
      · simp only [Option.some.injEq] at hdd
        subst hdd
        unfold GW.persisted at hp'
        rw [aget_map] at hp'
        cases hn : aget k g.sensors with
        | none => rw [hn] at hp'; cases hp'
        | some n => rw [hn] at hp'; simp at hp'; subst hp'; exact (hi k n hn).1
      · exact hd d hdd k p hp'
    | restart =>
      refine ⟨?_, fun d hdd => hd d hdd⟩
      intro k n hn
      simp only [step, restart] at hn
      split at hn
      · rw [aget_map] at hn
        cases hdk : g.disk with
        | none => rw [hdk] at hn; simp [aget] at hn
        | some d =>
          rw [hdk] at hn
          simp only [Option.getD_some] at hn
          cases hp' : aget k d with
          | none => rw [hp'] at hn; cases hn
          | some p =>
            rw [hp'] at hn; simp at hn; subst hn
            exact ⟨hd d hdk k p hp', fun l hl => by simp [PNode.restore] at hl⟩
      · simp [aget] at hn
    | _ => simp [Op.plain] at hp

theorem inv_run (g : GW) (ops : List Op) (hw : ∀ o ∈ ops, Op.wf o) (hk : KeyInv g) (hi : NodeInv g)
    (hd : DiskInv g) : KeyInv (run g ops) ∧ NodeInv (run g ops) ∧ DiskInv (run g ops) := by
  induction ops generalizing g with
  | nil => exact ⟨hk, hi, hd⟩
  | cons op ops ih =>
    have := inv_step g op (hw op (by simp)) hk hi hd
    exact ih _ (fun o ho => hw o (by simp [ho])) (keyInv_step g op hk) this.1 this.2

/-- **C07 over histories**: from a freshly constructed gateway (any version / kind), after any
    history of ops, the next step sends to a sleeping node only in its own wake-up step. -/
theorem nothing_to_sleeping_node_run (c : ConstId) (kd : Kind) (pers : Bool) (ops : List Op) (op : Op)
    (hws : ∀ o ∈ ops, Op.wf o) (hw : Op.wf op) :
    let g := run { const := c, kind := kd, persist := pers } ops
    ∀ l ∈ (step g op).2.sent, ∃ x : Msg, l = encLine x ∧
      (x.type = g.t.mtStream ∨ sleepingNode g x.node = false ∨ wakeOf g op = some x.node) := by
  intro g
  have h0k : KeyInv { const := c, kind := kd, persist := pers } :=
    ⟨fun k hk => by simp [akeys] at hk, fun d hd => by simp at hd⟩
  have h0i : NodeInv { const := c, kind := kd, persist := pers } := fun k n hn => by simp [aget] at hn
  have h0d : DiskInv { const := c, kind := kd, persist := pers } := fun d hd => by simp at hd
  obtain ⟨hk, hi, _⟩ := inv_run _ ops hws h0k h0i h0d
  exact nothing_to_sleeping_node g op hk.1 hi hw

/-! Non-vacuity: a 2.0 node with a child announces smart sleep; a value request is then
    withheld, a request from another node is answered at once, and the withheld reply leaves
    in the node's next wake-up step. -/

def demo : List Op :=
  [.line "1;255;0;0;17;2.0\n".toList, .line "1;1;0;0;6;t\n".toList, .line "1;1;1;0;0;20\n".toList,
   .line "2;255;0;0;17;2.0\n".toList, .line "2;1;0;0;6;t\n".toList, .line "2;1;1;0;0;30\n".toList,
   .line "1;255;3;0;22;7\n".toList]

example : sleepingNode (run { const := .v20 } demo) 1 = true ∧ sleepingNode (run { const := .v20 } demo) 2 = false := by
  decide +kernel
example : (step (run { const := .v20 } demo) (.line "1;1;2;0;0;\n".toList)).2.sent = [] := by decide +kernel
example : (step (run { const := .v20 } demo) (.line "2;1;2;0;0;\n".toList)).2.sent = ["2;1;1;0;0;30\n".toList] := by
  decide +kernel
example : (step (step (run { const := .v20 } demo) (.line "1;1;2;0;0;\n".toList)).1
    (.line "1;255;3;0;22;8\n".toList)).2.sent = ["1;1;1;0;0;20\n".toList] := by decide +kernel

end MySensors.C07
