/-
  C08 — withheld traffic reaches the sleeping node exactly once, in order.

  `smartSleep` is the model of `handle_smartsleep`; `pending n` lists the (child, value type,
  value) triples to push: children in presentation order, per child the value types the node has
  reported (first-report order) for which a desired value is pending.
-/
import MySensors.Lemmas.GwDesired
import MySensors.Properties.C07

namespace MySensors.C08

open MySensors

/-- the set command for a pending triple -/
def setLine (g : GW) (nid : Int) (p : Int × Int × Str) : Str :=
  encLine ⟨nid, p.1, g.t.mtSet, 0, p.2.1, p.2.2⟩

/-- every pending desired value can be sent as a valid command (established at call time by
    `setChildValue`; part of the invariant proved for C01) -/
def PendingOk (g : GW) (nid : Int) (ps : List (Int × Int × Str)) : Prop :=
  ∀ p ∈ ps, ∃ m, createSetMessage g nid p.1 (some p.2.1) p.2.2 0 = .ok m

theorem buildSets_ok (g : GW) (nid : Int) (ps : List (Int × Int × Str)) (h : PendingOk g nid ps) :
    buildSets g nid ps = (ps.map (setLine g nid), none) := by
  induction ps with
  | nil => rfl
  | cons p ps ih =>
    obtain ⟨c, vt, v⟩ := p
    obtain ⟨m, hm⟩ := h (c, vt, v) (by simp)
    have ih' := ih (fun q hq => h q (by simp [hq]))
    obtain ⟨vti, hvt, hm', _⟩ := createSetMessage_node _ _ _ _ _ _ _ hm
    cases hvt
    unfold buildSets
    simp only [hm, ih', List.map_cons, setLine]
    rw [hm']

theorem createSetMessage_setNode (g : GW) (k : Int) (n' : Node) (node child : Int) (vt : Option Int)
    (value : Str) (ack : Int) :
    createSetMessage (setNode g k n') node child vt value ack = createSetMessage g node child vt value ack := rfl

theorem buildSets_setNode (g : GW) (k : Int) (n' : Node) (nid : Int) (ps : List (Int × Int × Str)) :
    buildSets (setNode g k n') nid ps = buildSets g nid ps := by
  induction ps with
  | nil => rfl
  | cons p ps ih =>
    obtain ⟨c, vt, v⟩ := p
    unfold buildSets
    rw [createSetMessage_setNode, ih]

/-- what `pending` contains: exactly the triples with a reported value type and a pending desired value -/
theorem mem_pending (n : Node) (c vt : Int) (v : Str) :
    (c, vt, v) ∈ pending n ↔
      ∃ ch dv x, (c, ch) ∈ n.children ∧ aget c n.desired = some dv ∧ (vt, x) ∈ ch.values ∧
        aget vt dv = some (some v) := by
  unfold pending
  simp only [List.mem_flatMap]
  constructor
  · rintro ⟨⟨c', ch⟩, hmem, hp⟩
    unfold pendingOfChild at hp
    cases hd : aget c' n.desired with
    | none => simp [hd] at hp
    | some dv =>
      simp only [hd, List.mem_filterMap] at hp
      obtain ⟨⟨vt', x⟩, hv, hsome⟩ := hp
      cases ha : aget vt' dv with
      | none => simp [ha] at hsome
      | some o =>
        cases o with
        | none => simp [ha] at hsome
        | some v' =>
          simp only [ha, Option.some.injEq, Prod.mk.injEq] at hsome
          obtain ⟨rfl, rfl, rfl⟩ := hsome
          exact ⟨ch, dv, x, hmem, hd, hv, ha⟩
  · rintro ⟨ch, dv, x, hmem, hd, hv, ha⟩
    refine ⟨(c, ch), hmem, ?_⟩
    unfold pendingOfChild
    simp only [hd, List.mem_filterMap]
    exact ⟨(vt, x), hv, by simp [ha]⟩

/-- **the wake-up burst**: every withheld line, oldest first, then the set commands in `pending`
    order; afterwards the hold queue is empty and nothing else about the node changed except that
    the desired map now tracks every known child. -/
theorem wake_burst (g : GW) (node : Int) (n : Node) (hn : aget node g.sensors = some n)
    (hok : PendingOk g n.id (pending (initSleep n))) :
    (smartSleep g node).2.sent = n.queue ++ (pending (initSleep n)).map (setLine g n.id) ∧
    (smartSleep g node).2.exc = none ∧
    aget node (smartSleep g node).1.sensors = some { initSleep n with queue := [] } := by
  have hb := buildSets_ok g n.id (pending (initSleep n)) hok
  have hs : smartSleep g node =
      (setNode g node { initSleep n with queue := [] },
        { sent := n.queue ++ (buildSets g n.id (pending (initSleep n))).1,
          exc := (buildSets g n.id (pending (initSleep n))).2 }) := by
    unfold smartSleep withNode
    simp only [hn]
    rw [buildSets_setNode]
    rfl
  rw [hs, hb]
  refine ⟨rfl, rfl, ?_⟩
  unfold setNode; simp

/-- the flush does not consume desired values: they are re-sent at every wake-up … -/
theorem desired_survives_wake (g : GW) (node : Int) (k c vt : Int) :
    desiredAt (smartSleep g node).1 k c vt = desiredAt g k c vt := by
  unfold smartSleep withNode
  split
  · rfl
  · rename_i n hn
    exact desiredAt_setNode_same g node n { initSleep n with queue := [] } hn
      (fun c vt => nodeDesiredAt_initSleep n c vt) k c vt

/-- … until the node reports that value type: the report clears exactly that desired value -/
theorem report_clears (g : GW) (n : Node) (m : Msg) (hn : aget m.node g.sensors = some n)
    (hc : (aget m.child n.children).isSome) :
    desiredAt (setNode g m.node (updateChildValue n m.child m.sub m.payload)) m.node m.child m.sub = none := by
  unfold desiredAt setNode
  simp only [aget_aset_same, Option.bind_some]
  have h1 := nodeDesiredAt_updateChildValue n m.child m.sub m.payload m.child m.sub hc
  simp only [and_self, ↓reduceIte] at h1
  exact h1

/-- **resent until reported, never afterwards** (one step of any history): processing an inbound
    line keeps every desired value unless the line is a report of exactly that node, child and
    value type (whose callback fires in that step); inbound lines never create desired values.
    Hold queues are only appended to, except for the woken node whose queue is flushed. -/
theorem line_step_desired (g : GW) (s : Str) (hk : KeyRange g) :
    DesStep (C07.wakeOf g (.line s)) (fun _ _ _ => False) g (step g (.line s)) := by
  simp only [step]
  have h := relo_logic (desStepRelO (C07.wakeOf g (.line s)) (fun _ _ _ => False))
    (desStep_ignoresSubs _ _) g s hk
    (by intro m hd hv hw; simp [C07.wakeOf, hd, hv, hw])
  unfold transportFilter
  split
  · exact ⟨h.des, h.queue⟩
  · exact h

/-- a controller call changes at most the desired value it names -/
theorem setValue_step_desired (g : GW) (node child : Int) (vt : VT) (value : Str) (ack : Option Int) :
    DesStep none (fun k c t => k = node ∧ c = child ∧ vt.toInt = some t) g
      (step g (.setValue node child vt value ack)) := by
  simp only [step]
  have h := relo_setChildValue (desStepRelO none (fun k c t => k = node ∧ c = child ∧ vt.toInt = some t))
    g node child vt value ack
    (fun n _ hn _ _ => desStep_storeDesired _ _ g node child n _ value hn (fun vti e => ⟨rfl, rfl, e⟩))
    (fun _ _ _ _ _ => desStep_id _ _ g _)
  unfold transportFilter
  split
  · exact ⟨h.des, h.queue⟩
  · exact h

/-- value requests are answered with the pending desired value while one exists -/
theorem req_sees_desired (g : GW) (m : Msg) (n : Node) (ch : Child) (v : Str)
    (hn : aget m.node g.sensors = some n) (hc : aget m.child n.children = some ch)
    (hs : n.sleeping = true) (hd : nodeDesiredAt n m.child m.sub = some v) :
    handleReq g m = replyCopy g m { type := some g.t.mtSet, payload := some v } := by
  have hk : isKnown g m.node (some m.child) = true := by simp [isKnown, hn, hc]
  have hdv : desiredValue n m.child m.sub = some v := by
    unfold desiredValue pendingValue
    simp only [hc, hs, ↓reduceIte]
    unfold nodeDesiredAt at hd
    cases hdd : aget m.child n.desired with
    | none => rw [hdd] at hd; cases hd
    | some dv => rw [hdd] at hd; simp only [Option.bind_some] at hd; simp [hd]
  unfold handleReq ifKnown withNode
  simp only [hk, ↓reduceIte, hn, hdv]

theorem route_noexc (g : GW) (m : Msg) : (route g m).2.exc = none := by
  unfold route; split
  · rfl
  · split <;> rfl

theorem requestPresentation_noexc (g : GW) (node : Int) : (requestPresentation g node).2.exc = none := by
  unfold requestPresentation
  split
  · split
    · rfl
    · exact route_noexc _ _
  · rfl

theorem storeDesired_exc (g : GW) (node child : Int) (n : Node) (vt : Option Int) (value : Str) (e : Exc)
    (h : (storeDesired g node child n vt value).2.exc = some e) : (storeDesired g node child n vt value).1 = g := by
  unfold storeDesired at h ⊢
  cases hd : aget child n.desired with
  | none => rfl
  | some dv =>
    rw [hd] at h
    simp only at h ⊢
    cases hv : validateChildState n child vt value with
    | error e1 => rfl
    | ok u =>
      rw [hv] at h
      cases vt with
      | none => rfl
      | some vti => simp [ret] at h

theorem setChildValue_unfold (g : GW) (node child : Int) (vt : VT) (value : Str) (ack : Option Int) (n : Node)
    (hk : isKnown g node (some child) = true) (hn : aget node g.sensors = some n) :
    setChildValue g node child vt value ack = setKnown g node child n vt.toInt value (ack.getD 0) := by
  simp only [setChildValue, ifKnown, withNode, hk, ↓reduceIte, hn]

/-- **refused at call time**: a `set_child_value` that raises leaves the gateway exactly as it was -/
theorem refused_call_changes_nothing (g : GW) (node child : Int) (vt : VT) (value : Str) (ack : Option Int)
    (e : Exc) (h : (setChildValue g node child vt value ack).2.exc = some e) :
    (setChildValue g node child vt value ack).1 = g := by
  by_cases hk : isKnown g node (some child) = true
  · cases hn : aget node g.sensors with
    | none => simp [setChildValue, ifKnown, withNode, hk, hn, fail]
    | some n =>
      rw [setChildValue_unfold g node child vt value ack n hk hn] at h ⊢
      unfold setKnown at h ⊢
      cases hm : createSetMessage g node child vt.toInt value (ack.getD 0) with
      | error e' => rfl
      | ok msg =>
        rw [hm] at h
        simp only at h ⊢
        by_cases hs : n.sleeping = true
        · simp only [hs, ↓reduceIte] at h ⊢
          exact storeDesired_exc _ _ _ _ _ _ e h
        · simp [hs, emit] at h
  · have : setChildValue g node child vt value ack = requestPresentation g node := by
      simp [setChildValue, ifKnown, hk]
    rw [this, requestPresentation_noexc] at h
    cases h

/-- … and a call that returns normally on a sleeping node stored a value whose set command is
    valid for the gateway's protocol version (so the wake-up can build it) -/
theorem accepted_value_is_sendable (g : GW) (node child : Int) (vt : VT) (value : Str) (ack : Option Int)
    (n : Node) (hn : aget node g.sensors = some n) (hc : (aget child n.children).isSome)
    (hs : n.sleeping = true) (h : (setChildValue g node child vt value ack).2.exc = none) :
    ∃ vti m, vt.toInt = some vti ∧ createSetMessage g node child (some vti) value (ack.getD 0) = .ok m ∧
      desiredAt (setChildValue g node child vt value ack).1 node child vti = some value := by
  have hk : isKnown g node (some child) = true := by
    cases hcc : aget child n.children with
    | none => rw [hcc] at hc; cases hc
    | some ch => simp [isKnown, hn, hcc]
  rw [setChildValue_unfold g node child vt value ack n hk hn] at h ⊢
  unfold setKnown at h ⊢
  cases hm : createSetMessage g node child vt.toInt value (ack.getD 0) with
  | error e' => rw [hm] at h; simp [fail] at h
  | ok msg =>
    rw [hm] at h
    simp only [hs, ↓reduceIte] at h ⊢
    obtain ⟨vti, hvt, _, _, _⟩ := createSetMessage_node _ _ _ _ _ _ _ hm
    refine ⟨vti, msg, hvt, by rw [← hvt]; exact hm, ?_⟩
    unfold storeDesired at h ⊢
    cases hd : aget child n.desired with
    | none => rw [hd] at h; simp [fail] at h
    | some dv =>
      rw [hd] at h
      simp only at h ⊢
      cases hv : validateChildState n child vt.toInt value with
      | error e1 => rw [hv] at h; simp [fail] at h
      | ok u =>
        rw [hvt]
        rw [hvt] at hv
        simp only [hv]
        unfold desiredAt setNode ret
        simp [aget_aset_same]

/-- **exactly once**: between wake-ups a hold queue only grows at its tail (nothing is dropped,
    reordered or duplicated); the wake-up burst sends all of it and empties it (`wake_burst`). -/
theorem queue_only_appended (g : GW) (s : Str) (hk : KeyRange g) (k : Int) (n : Node)
    (hn : aget k g.sensors = some n) (hnw : C07.wakeOf g (.line s) ≠ some k) :
    ∃ n' ext, aget k (step g (.line s)).1.sensors = some n' ∧ n'.queue = n.queue ++ ext := by
  obtain ⟨n', hn', hq⟩ := (line_step_desired g s hk).queue k n hn
  rcases hq with ⟨ext, he⟩ | w
  · exact ⟨n', ext, hn', he⟩
  · exact absurd w hnw

/-! Non-vacuity: the scenario of C07.demo continued — a desired value is pushed at every wake-up
    until the node reports that value type. -/

def g1 : GW := run { const := .v20 } C07.demo
def g2 : GW := (step g1 (.setValue 1 1 (.int 0) "25".toList none)).1

example : (step g1 (.setValue 1 1 (.int 0) "25".toList none)).2.sent = [] := by decide +kernel
example : desiredAt g2 1 1 0 = some "25".toList := by decide +kernel
example : (step g2 (.line "1;255;3;0;22;9\n".toList)).2.sent = ["1;1;1;0;0;25\n".toList] := by decide +kernel
example : (step (step g2 (.line "1;255;3;0;22;9\n".toList)).1 (.line "1;255;3;0;22;9\n".toList)).2.sent =
    ["1;1;1;0;0;25\n".toList] := by decide +kernel
example : (step (step g2 (.line "1;1;1;0;0;25\n".toList)).1 (.line "1;255;3;0;22;9\n".toList)).2.sent = [] := by
  decide +kernel

end MySensors.C08
