/-
  C09 — OTA serves exactly the firmware it advertised.

  All theorems range over EVERY image `img : List Nat` whose entries are bytes (`IsBytes`),
  every firmware type / version / block index that fits 16 bits, every list of requests.
  `prepareFw`, `fwBlock`, `fwIntToHex`, `fwHexToInt`, `hexBytes`, `unhexlify`, `crcModbus` are
  the executable definitions of Model/Ota.lean that the gateway model (Model/Gateway.lean:
  `otaConfigResponse`, `otaBlockResponse`, `makeUpdate`) is built from, and that the
  correspondence harness (harness/c09.py) runs against `mysensors/ota.py`.

  A 128-aligned image gets one full extra page of 0xFF (`pad` proves `1 ≤ k ≤ 128`); the
  property allows "at most one 128-byte page".
-/
import MySensors.Lemmas.Ota
import MySensors.Lemmas.OtaGateway
import MySensors.Lemmas.IntelHex

namespace MySensors.C09

open MySensors

/-! ### padding -/

/-- `prepare_fw`: the data is the image followed by `k` bytes 0xFF with `1 ≤ k ≤ 128`; its
    length is a multiple of 128 and exactly `16 * blocks`. -/
theorem pad (img : List Nat) :
    ∃ k, 1 ≤ k ∧ k ≤ 128 ∧ (prepareFw img).data = img ++ List.replicate k 0xFF ∧
      (prepareFw img).data.length % 128 = 0 ∧
      (prepareFw img).data.length = 16 * (prepareFw img).blocks := by
  refine ⟨padLen img.length, ?_, ?_, prepareFw_data img, ?_, ?_⟩
  · unfold padLen; omega
  · unfold padLen; omega
  · rw [prepareFw_length]; unfold padLen; omega
  · rw [prepareFw_blocks, prepareFw_length]; unfold padLen; omega

example : (prepareFw [1, 2, 3]).data = [1, 2, 3] ++ List.replicate 125 0xFF ∧
    (prepareFw [1, 2, 3]).blocks = 8 := by decide +kernel

/-- a 128-aligned image gets one whole extra page -/
example : (prepareFw (List.replicate 128 7)).data.length = 256 ∧
    (prepareFw (List.replicate 128 7)).blocks = 16 := by decide +kernel

/-- the padded data stays a byte string, and the advertised CRC is the CRC of the padded data -/
theorem data_bytes_crc (img : List Nat) (himg : IsBytes img) :
    IsBytes (prepareFw img).data ∧ (prepareFw img).crc = crcModbus (prepareFw img).data :=
  ⟨prepareFw_isBytes img himg, rfl⟩

example : IsBytes [0, 17, 255] := by decide

/-! ### block slicing -/

/-- blocks `0 .. blocks-1` concatenate to the padded data; each of them has 16 bytes; an
    index past the end yields the empty block (Python slice semantics). -/
theorem blocks_concat (img : List Nat) :
    (List.range (prepareFw img).blocks).flatMap (fwBlock (prepareFw img).data) = (prepareFw img).data ∧
    (∀ i, i < (prepareFw img).blocks → (fwBlock (prepareFw img).data i).length = 16) ∧
    (∀ i, (prepareFw img).blocks ≤ i → fwBlock (prepareFw img).data i = []) := by
  obtain ⟨k, _, _, _, _, hlen⟩ := pad img
  refine ⟨?_, ?_, ?_⟩
  · rw [blocks_concat_take, ← hlen, List.take_length]
  · intro i hi
    exact fwBlock_length _ _ (by omega)
  · intro i hi
    exact fwBlock_eq_nil _ _ (by omega)

example : (List.range 8).flatMap (fwBlock (prepareFw [1, 2, 3]).data) = (prepareFw [1, 2, 3]).data ∧
    fwBlock (prepareFw [1, 2, 3]).data 0 = [1, 2, 3, 255, 255, 255, 255, 255, 255, 255, 255, 255, 255, 255, 255, 255] ∧
    fwBlock (prepareFw [1, 2, 3]).data 8 = [] := by decide

/-! ### packing: 16-bit little-endian words as hex text -/

/-- `fw_hex_to_int(fw_int_to_hex(*ws), len(ws)) == ws` for every list of 16-bit words -/
theorem words_roundtrip (ws : List Nat) (h : IsWords ws) :
    ∃ p, fwIntToHex ws = some p ∧ p.length = 4 * ws.length ∧ fwHexToInt p ws.length = some ws := by
  obtain ⟨p, hp, hd⟩ := fwHexToInt_fwIntToHex ws h
  exact ⟨p, hp, fwIntToHex_length ws p hp, hd⟩

example : fwIntToHex [10, 2, 8, 0x4B37] = some "0a0002000800374b".toList ∧
    fwHexToInt "0a0002000800374b".toList 4 = some [10, 2, 8, 0x4B37] := by decide

/-- `unhexlify(hexlify(bs)) == bs` for every byte string -/
theorem bytes_roundtrip (bs : List Nat) (h : IsBytes bs) : unhexlify (hexBytes bs) = some bs :=
  unhexlify_hexBytes bs h

example : IsBytes [0, 17, 255] ∧ String.ofList (hexBytes [0, 17, 255]) = "0011ff" ∧
    unhexlify "0011ff".toList = some [0, 17, 255] ∧ unhexlify "0011FF".toList = some [0, 17, 255] := by decide

/-- a word outside 0..65535 cannot be packed (`struct.error` in the code) -/
theorem pack_rejects (ws : List Nat) (h : ¬ IsWords ws) : fwIntToHex ws = none := by
  cases hp : fwIntToHex ws with
  | none => rfl
  | some p => exact absurd (OtaGw.fwIntToHex_some_isWords ws p hp) h

example : fwIntToHex [70000] = none := by decide

/-! ### CRC-16/MODBUS -/

/-- `crcModbus` is by definition the bitwise algorithm: initial value 0xFFFF, every byte is
    xor-ed into the low byte, then eight shift steps with the reflected polynomial 0xA001,
    no final xor. -/
theorem crc_def :
    (∀ data, crcModbus data = data.foldl crcByte 0xFFFF) ∧
    (∀ c b, crcByte c b =
      crcBit (crcBit (crcBit (crcBit (crcBit (crcBit (crcBit (crcBit (c ^^^ b))))))))) ∧
    (∀ c, crcBit c = if c % 2 = 1 then (c / 2) ^^^ 0xA001 else c / 2) :=
  ⟨fun _ => rfl, fun _ _ => rfl, fun _ => rfl⟩

/-- the CRC of a byte string is a 16-bit value (so it can always be packed) -/
theorem crc_lt (data : List Nat) (h : IsBytes data) : crcModbus data < 65536 :=
  crcModbus_lt data h

/-- the standard check value of CRC-16/MODBUS -/
example : crcModbus ("123456789".toList.map Char.toNat) = 0x4B37 := by decide +kernel

example : crcModbus [] = 0xFFFF ∧ crcModbus [0] = 0x40BF ∧ crcModbus [0xFF] = 0x00FF := by decide

/-! ### config response -/

/-- the config response payload `fw_int_to_hex(type, version, blocks, crc)` exists and
    decodes to exactly the advertised four words -/
theorem config (img : List Nat) (himg : IsBytes img) (t v : Nat) (ht : t < 65536) (hv : v < 65536)
    (hB : (prepareFw img).blocks ≤ 65535) :
    ∃ p, fwIntToHex [t, v, (prepareFw img).blocks, (prepareFw img).crc] = some p ∧
      fwHexToInt p 4 = some [t, v, (prepareFw img).blocks, crcModbus (prepareFw img).data] := by
  have hc : (prepareFw img).crc < 65536 := crcModbus_lt _ (prepareFw_isBytes img himg)
  have hw : IsWords [t, v, (prepareFw img).blocks, (prepareFw img).crc] := by
    intro w hw
    simp only [List.mem_cons, List.not_mem_nil, or_false] at hw
    rcases hw with h | h | h | h <;> subst h <;> omega
  obtain ⟨p, hp, hd⟩ := fwHexToInt_fwIntToHex _ hw
  exact ⟨p, hp, hd⟩

example : IsBytes [1, 2, 3] ∧ (prepareFw [1, 2, 3]).blocks ≤ 65535 ∧
    fwIntToHex [10, 2, (prepareFw [1, 2, 3]).blocks, (prepareFw [1, 2, 3]).crc] =
      some "0a00020008004929".toList := by decide +kernel

/-! ### block responses -/

/-- payload of the block response to the request `(t, v, i)`, as `respond_fw` builds it -/
def blockPayload (t v i : Nat) (data : List Nat) : Option Str :=
  (fwIntToHex [t, v, i]).map (· ++ hexBytes (fwBlock data i))

/-- what a node reads from a block response: three header words, then the block bytes -/
def decodeBlock (p : Str) : Option (List Nat × List Nat) :=
  match fwHexToInt (p.take 12) 3, unhexlify (p.drop 12) with
  | some ws, some bs => some (ws, bs)
  | _, _ => none

/-- every block response echoes the requested type, version and index and carries exactly
    the bytes of that block -/
theorem block_response (data : List Nat) (hd : IsBytes data) (t v i : Nat)
    (ht : t < 65536) (hv : v < 65536) (hi : i < 65536) :
    (blockPayload t v i data).bind decodeBlock = some ([t, v, i], fwBlock data i) := by
  have hw : IsWords [t, v, i] := by
    intro w hw
    simp only [List.mem_cons, List.not_mem_nil, or_false] at hw
    rcases hw with h | h | h <;> subst h <;> assumption
  have hp := fwIntToHex_eq [t, v, i] hw
  have hb : IsBytes (fwBlock data i) := (hd.drop _).take _
  obtain ⟨h1, h2⟩ := OtaGw.payload_decodes [t, v, i] _ (fwBlock data i) hp hb
  simp only [blockPayload, hp, Option.map_some, Option.bind_some, decodeBlock]
  simp only [List.length_cons, List.length_nil] at h1 h2
  rw [h1, h2]

example : blockPayload 10 2 0 (prepareFw [1, 2, 3]).data =
    some "0a0002000000010203ffffffffffffffffffffffffff".toList := by decide

/-- requests in any order, with any repetition: the i-th answer depends on the i-th request
    only (the response is a pure function of the stored data and the request) -/
theorem block_responses_any_order (data : List Nat) (hd : IsBytes data)
    (reqs : List (Nat × Nat × Nat)) (h : ∀ r ∈ reqs, r.1 < 65536 ∧ r.2.1 < 65536 ∧ r.2.2 < 65536) :
    reqs.map (fun r => (blockPayload r.1 r.2.1 r.2.2 data).bind decodeBlock) =
      reqs.map (fun r => some ([r.1, r.2.1, r.2.2], fwBlock data r.2.2)) := by
  apply List.map_congr_left
  intro r hr
  obtain ⟨h1, h2, h3⟩ := h r hr
  exact block_response data hd r.1 r.2.1 r.2.2 h1 h2 h3

example : ∀ r ∈ [(1, 1, 7), (1, 1, 0), (1, 1, 7), (2, 5, 65535)],
    r.1 < 65536 ∧ r.2.1 < 65536 ∧ r.2.2 < 65536 := by decide

/-! ### the gateway model's handlers -/

/-- `otaBlockResponse` (the model of `respond_fw` inside `Gateway.logic`) for a node whose
    session is in the `unstarted` or `started` store: the reply is `blockAnswer`, a function of
    the firmware table and the request alone — not of the other nodes' entries, not of which
    of the two stores the node is in; the firmware table is untouched and every node that had
    a session still has one. -/
theorem gateway_block_reply (g : GW) (m : Msg) (sub : Int) (hsub : g.t.stResponse = some sub)
    (hact : OtaGw.Active g.ota m.node) :
    (otaBlockResponse g m).reply = OtaGw.blockAnswer g.ota.firmware sub m ∧
    (otaBlockResponse g m).g.ota.firmware = g.ota.firmware ∧
    ∀ n, OtaGw.Active g.ota n → OtaGw.Active (otaBlockResponse g m).g.ota n :=
  let h := OtaGw.otaBlockResponse_spec g m sub hsub hact
  ⟨h.1, h.2.1, h.2.2.2⟩

/-- the reply, spelled out: the request copied with the response sub-type, its payload the
    echoed header followed by the hex of block `i` of the firmware stored under `(t, v)` -/
theorem gateway_block_payload (g : GW) (m r : Msg) (sub : Int) (t v i : Nat) (p : Str) (fw : Fw)
    (hsub : g.t.stResponse = some sub) (hact : OtaGw.Active g.ota m.node)
    (hp : fwIntToHex [t, v, i] = some p) (hm : m.payload = p)
    (hfw : lookup ((t : Int), (v : Int)) g.ota.firmware = some fw)
    (hc : m.copy { sub := some sub } = .ok r) :
    (otaBlockResponse g m).reply = some { r with payload := p ++ hexBytes (fwBlock fw.data i) } ∧
    blockPayload t v i fw.data = some (p ++ hexBytes (fwBlock fw.data i)) := by
  have hw := OtaGw.fwIntToHex_some_isWords _ _ hp
  obtain ⟨p', hp', hdec⟩ := fwHexToInt_fwIntToHex [t, v, i] hw
  rw [hp] at hp'; cases hp'
  refine ⟨?_, by simp [blockPayload, hp]⟩
  rw [(gateway_block_reply g m sub hsub hact).1]
  simp only [OtaGw.blockAnswer, hm]
  simp only [List.length_cons, List.length_nil] at hdec
  rw [hdec]
  simp only [OtaGw.answerFw, hfw, OtaGw.answerOf, hc, hp]

/-- a whole history of block requests — any nodes with a session, any order, any repetition:
    the list of replies is the request list mapped through `blockAnswer` of the *initial*
    firmware table -/
theorem gateway_block_history (g : GW) (sub : Int) (ms : List Msg) (hsub : g.t.stResponse = some sub)
    (hact : ∀ m ∈ ms, OtaGw.Active g.ota m.node) :
    OtaGw.serve g ms = ms.map (OtaGw.blockAnswer g.ota.firmware sub) :=
  OtaGw.serve_spec sub ms g hsub hact

/-- a node without a session gets no block at all -/
theorem gateway_block_gated (g : GW) (m : Msg) (h : ¬ OtaGw.Active g.ota m.node) :
    (otaBlockResponse g m).reply = none :=
  OtaGw.otaBlockResponse_inactive g m h

/-- `make_update` with an image stores `prepare_fw(image)` under `(type, version)`, and the
    config reply to a node scheduled for it carries `fw_int_to_hex(t, v, blocks, crc)` of
    exactly that firmware — which decodes to the four advertised words. -/
theorem gateway_config_reply (g0 : GW) (nids : List Int) (t v : Nat) (img : List Nat) (m r : Msg)
    (sub : Int) (himg : IsBytes img) (ht : t < 65536) (hv : v < 65536)
    (hB : (prepareFw img).blocks ≤ 65535)
    (hsub : (makeUpdate g0 nids t v (some img)).t.stConfigResponse = some sub)
    (hp : (fwHexToInt m.payload 5).isSome)
    (hoff : OtaGw.Offered (makeUpdate g0 nids t v (some img)).ota m.node ((t : Int), (v : Int)))
    (hc : m.copy { sub := some sub } = .ok r) :
    ∃ p, (otaConfigResponse (makeUpdate g0 nids t v (some img)) m).reply = some { r with payload := p } ∧
      fwHexToInt p 4 = some [t, v, (prepareFw img).blocks, crcModbus (prepareFw img).data] ∧
      OtaGw.Active (otaConfigResponse (makeUpdate g0 nids t v (some img)) m).g.ota m.node := by
  have hst := OtaGw.makeUpdate_stores g0 nids t v img ⟨by omega, by omega⟩ ⟨by omega, by omega⟩
    (by omega)
  obtain ⟨h1, _, h3⟩ := OtaGw.otaConfigResponse_spec _ m sub _ _ hsub hp hoff hst
  obtain ⟨p, hpk, hdec⟩ := config img himg t v ht hv hB
  refine ⟨p, ?_, hdec, h3⟩
  rw [h1]
  simp only [OtaGw.configAnswerOf, hc, Int.toNat_natCast, hpk]

/-! Non-vacuity of the gateway theorems: a concrete gateway (protocol 2.2) with firmware (10, 2)
    loaded, node 5 offered the update (`unstarted`), node 7 fetching (`started`), node 9 idle. -/

def exGw : GW :=
  { const := .v22, sensors := [(5, { id := 5 }), (7, { id := 7 }), (9, { id := 9 })],
    ota := { firmware := [((10, 2), prepareFw [1, 2, 3])], unstarted := [(5, (10, 2))], started := [(7, (10, 2))] } }

def exReq (node : Int) (i : Nat) : Msg := ⟨node, 255, 4, 0, 2, (fwIntToHex [10, 2, i]).getD []⟩

example : exGw.t.stResponse = some 3 ∧ OtaGw.Active exGw.ota 5 ∧ OtaGw.Active exGw.ota 7 ∧
    ¬ OtaGw.Active exGw.ota 9 ∧ lookup ((10 : Int), (2 : Int)) exGw.ota.firmware = some (prepareFw [1, 2, 3]) ∧
    (exReq 5 7).copy { sub := some 3 } = .ok { exReq 5 7 with sub := 3 } := by decide +kernel

/-- interleaved, repeated, out-of-order requests from two nodes; the idle node gets nothing -/
example : (OtaGw.serve exGw [exReq 5 7, exReq 7 0, exReq 5 7, exReq 9 0, exReq 7 8]).map
      (fun r => r.map fun m => (m.node, m.sub, String.ofList m.payload)) =
    [some (5, 3, "0a0002000700ffffffffffffffffffffffffffffffff"),
     some (7, 3, "0a0002000000010203ffffffffffffffffffffffffff"),
     some (5, 3, "0a0002000700ffffffffffffffffffffffffffffffff"),
     none,
     some (7, 3, "0a0002000800")] := by decide +kernel

def exGw0 : GW := { const := .v22, sensors := [(5, { id := 5 })] }

def exCfgReq : Msg := ⟨5, 255, 4, 0, 0, "0a0001000800aaaa0201".toList⟩

example : (makeUpdate exGw0 [5] 10 2 (some [1, 2, 3])).t.stConfigResponse = some 1 ∧
    (fwHexToInt exCfgReq.payload 5).isSome ∧
    OtaGw.Offered (makeUpdate exGw0 [5] 10 2 (some [1, 2, 3])).ota 5 (10, 2) ∧
    exCfgReq.copy { sub := some 1 } = .ok { exCfgReq with sub := 1 } ∧
    ((otaConfigResponse (makeUpdate exGw0 [5] 10 2 (some [1, 2, 3])) exCfgReq).reply.map
      fun m => String.ofList m.payload) = some "0a00020008004929" := by decide +kernel

/-! ### the property, assembled -/

/-- For every image: the config response advertises `(t, v, B, C)`; the blocks decoded from
    the responses to the requests `0 .. B-1` (each of which echoes `t, v` and its index)
    concatenate to the image followed by `k` bytes 0xFF, `1 ≤ k ≤ 128`; the total length is
    `16 * B`, a multiple of 128; and its CRC-16/MODBUS is `C`. -/
theorem ota_serves_advertised (img : List Nat) (himg : IsBytes img) (t v : Nat)
    (ht : t < 65536) (hv : v < 65536) (hB : (prepareFw img).blocks ≤ 65535) :
    ∃ (cfg : Str) (B C : Nat),
      fwIntToHex [t, v, (prepareFw img).blocks, (prepareFw img).crc] = some cfg ∧
      fwHexToInt cfg 4 = some [t, v, B, C] ∧
      (∀ i, i < B → (blockPayload t v i (prepareFw img).data).bind decodeBlock =
        some ([t, v, i], fwBlock (prepareFw img).data i)) ∧
      ∃ k, 1 ≤ k ∧ k ≤ 128 ∧
        (List.range B).flatMap (fwBlock (prepareFw img).data) = img ++ List.replicate k 0xFF ∧
        (img ++ List.replicate k 0xFF).length = 16 * B ∧
        (img ++ List.replicate k 0xFF).length % 128 = 0 ∧
        crcModbus (img ++ List.replicate k 0xFF) = C := by
  obtain ⟨cfg, hcfg, hdec⟩ := config img himg t v ht hv hB
  obtain ⟨k, hk1, hk2, hdata, hmod, hlen⟩ := pad img
  refine ⟨cfg, (prepareFw img).blocks, crcModbus (prepareFw img).data, hcfg, hdec, ?_, k, hk1, hk2, ?_, ?_, ?_, ?_⟩
  · intro i hi
    exact block_response _ (prepareFw_isBytes img himg) t v i ht hv (by omega)
  · rw [(blocks_concat img).1, hdata]
  · rw [← hdata]; exact hlen
  · rw [← hdata]; exact hmod
  · rw [← hdata]

example : IsBytes (List.replicate 300 0x5A) ∧ (prepareFw (List.replicate 300 0x5A)).blocks = 24 := by
  decide +kernel

/-! ### Intel HEX -/

/-- a file written by `hexWrite` (data records of at most `recLen` bytes that never cross a
    64 KiB boundary, an extended-linear-address record whenever the upper 16 address bits
    change, an EOF record, upper-case digits, LF line ends) loads — through the model of
    `intelhex.IntelHex.fromfile(format="hex")` + `tobinstr()` — to exactly the image. -/
theorem hex_load (base recLen : Nat) (img : List Nat) (himg : IsBytes img) (hne : 1 ≤ img.length)
    (h1 : 1 ≤ recLen) (h255 : recLen ≤ 255) (h32 : base + img.length ≤ 4294967296) :
    hexLoad (hexWrite base recLen img) = some img :=
  hexLoad_hexWrite base recLen img himg hne h1 h255 h32

/-- a file crossing a 64 KiB boundary, with an extended linear address record -/
example : String.ofList (hexWrite 0xFFFE 4 [1, 2, 3, 4, 5, 6, 7, 8, 9, 10]) =
    ":02FFFE000102FE\n:020000040001F9\n:0400000003040506EA\n:040004000708090AD6\n:00000001FF\n" := by
  decide

example : hexLoad (hexWrite 0xFFFE 4 [1, 2, 3, 4, 5, 6, 7, 8, 9, 10]) = some [1, 2, 3, 4, 5, 6, 7, 8, 9, 10] := by
  decide

/-- the hypotheses at their limits: last two bytes of the 32-bit address space, longest record -/
example : IsBytes [1, 2] ∧ 0xFFFFFFFE + [1, 2].length ≤ 4294967296 ∧
    String.ofList (hexWrite 0xFFFFFFFE 255 [1, 2]) = ":02000004FFFFFC\n:02FFFE000102FE\n:00000001FF\n" ∧
    hexLoad (hexWrite 0xFFFFFFFE 255 [1, 2]) = some [1, 2] := by decide

/-- the reader rejects a bad checksum, an overlap and a bad record type, accepts a missing
    EOF record, CRLF line ends and lower-case digits, fills gaps with 0xFF -/
example : hexLoad ":0100000001FD\n:00000001FF\n".toList = none ∧
    hexLoad ":0100000001FE\n:0100000002FD\n:00000001FF\n".toList = none ∧
    hexLoad ":0100000601F8\n".toList = none ∧
    hexLoad ":0100000001FE\r\n".toList = some [1] ∧
    hexLoad ":02000000abcd86\n".toList = some [0xAB, 0xCD] ∧
    hexLoad ":0100000001FE\n:0100030002FA\n:00000001FF\n".toList = some [1, 0xFF, 0xFF, 2] := by
  decide

end MySensors.C09
