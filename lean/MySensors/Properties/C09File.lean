/-
  C09 — from the file the user names to the blocks the node receives.  `Gateway.update_fw` is given a
  path; these theorems connect the Intel HEX text of that file to the `make_update` the other C09
  theorems are about, so that "serves exactly the firmware it advertised" is a statement about the
  bytes in the user's file.
-/
import MySensors.Model.UpdateFw
import MySensors.Properties.C09

namespace MySensors.C09

open MySensors

/-- an update that names no node and brings no image changes nothing (whatever the type / version) -/
theorem empty_update_noop (g : GW) (t v : Int) : makeUpdate g [] t v none = g := by
  simp [makeUpdate]

/-- `updateFwOp` is `updateFw` inside the history model -/
theorem step_updateFwOp (g : GW) (nids : List Int) (t v : Int) (file : FwFile) :
    step g (updateFwOp nids t v file) = (updateFw g nids t v file, {}) := by
  unfold updateFwOp updateFw
  cases h : fwFromFile file with
  | none => simp [step, empty_update_noop]
  | some image => simp [step]

/-- **file to firmware**: for every image of at least one byte, written as an Intel HEX file at any
    base address with any record length (as `hex_load`), `update_fw` with that file is `make_update`
    with exactly the image — hence `gateway_config_reply`, `blocks_reassemble` … speak about the
    bytes of the user's file. -/
theorem update_from_file (g : GW) (nids : List Int) (t v : Int) (base recLen : Nat) (img : List Nat)
    (himg : IsBytes img) (hne : 1 ≤ img.length) (h1 : 1 ≤ recLen) (h255 : recLen ≤ 255)
    (h32 : base + img.length ≤ 4294967296) :
    updateFw g nids t v (.text (hexWrite base recLen img)) = makeUpdate g nids t v (some img) := by
  cases img with
  | nil => simp at hne
  | cons b rest =>
    simp only [updateFw, fwFromFile, hex_load base recLen (b :: rest) himg hne h1 h255 h32]

/-- a file the library rejects, an unreadable path and a file without data leave the gateway as it is:
    nothing is loaded, nobody is scheduled, no reboot flag is set -/
theorem bad_file_noop (g : GW) (nids : List Int) (t v : Int) (content : Str)
    (h : hexLoad content = none ∨ hexLoad content = some []) :
    updateFw g nids t v (.text content) = g ∧ updateFw g nids t v .unreadable = g := by
  rcases h with h | h <;> simp [updateFw, fwFromFile, h]

/-- the file `intelhex` writes for an image of no bytes (just the end-of-file record) is such a file -/
theorem dataless_file : hexLoad ":00000001FF\n".toList = some [] := by decide

/-- without a path the call is `make_update` without an image (firmware loaded earlier is reused) -/
theorem update_without_path (g : GW) (nids : List Int) (t v : Int) :
    updateFw g nids t v .noPath = makeUpdate g nids t v none := rfl

/-- end to end on a concrete file: the config reply a scheduled node gets advertises the block count
    and CRC of the padded bytes of the file -/
example : (otaConfigResponse (updateFw exGw0 [5] 10 2 (.text (hexWrite 0 16 [1, 2, 3]))) exCfgReq).reply.map
      (fun m => String.ofList m.payload) =
    (otaConfigResponse (makeUpdate exGw0 [5] 10 2 (some [1, 2, 3])) exCfgReq).reply.map
      (fun m => String.ofList m.payload) := by
  rw [update_from_file exGw0 [5] 10 2 0 16 [1, 2, 3] (by decide) (by decide) (by decide) (by decide) (by decide)]

end MySensors.C09
