/-
  C10 — OTA sessions are gated, restartable and terminate.

  Reference: the four-state session automaton per node of Model/SpecOta.lean
  (`idle → requested → offered → fetching`, `update` restarts from any state), the abstraction
  `absSession` from the three stores `requested / unstarted / started`, and the messages the
  automaton prescribes (`configResponseMsg`, `blockResponseMsg`).  Model: Model/Gateway.lean
  (`otaConfigResponse`, `otaBlockResponse`, `makeUpdate`, `handleStream`, `handleSet`,
  `presentNode`, `logic`, `step`, `run`).

  Interpretation (DESIGN.md §6): "malformed" = the payload does not unpack to the required
  number of 16-bit words.  A well-formed block request with an out-of-range index is answered with
  the header and an empty block, and a well-formed block request for a type/version without
  firmware moves the session to `fetching` without a reply — both are what `specBlock` says.

  Sent lines are stated at the level of `logic` (`step` only adds the MQTT transport filter,
  see `step_sent`).
-/
import MySensors.Lemmas.C10

namespace MySensors.C10

open MySensors

/-! ### invariants -/

/-- over every history from a freshly constructed gateway each node is in at most one session
    store (and at most once), and — when firmware images are byte strings — everything that goes
    into a response header fits 16 bits -/
theorem stores_invariant (c : ConstId) (k : Kind) (ops : List Op) :
    StoresOk (run (freshGW c k) ops).ota ∧
    ((∀ op ∈ ops, opBytes op) → RangesOk (run (freshGW c k) ops).ota) :=
  ⟨storesOk_run _ ops storesOk_empty, fun hb => (inv_run_ota _ ops storesOk_empty rangesOk_empty hb).2⟩

/-- the same, step by step, from any state that satisfies the invariants (every op kind: lines of
    every handler, controller calls, update calls, clock, save ticks, stop, restart) -/
theorem invariant_step (g : GW) (op : Op) (hok : StoresOk g.ota) :
    StoresOk (step g op).1.ota ∧ (RangesOk g.ota → opBytes op → RangesOk (step g op).1.ota) :=
  ⟨storesOk_step g op hok, fun hr hb => rangesOk_step g op hok hr hb⟩

/-- the response sub-types, the request handlers and the reboot request exist in every version -/
theorem tables (c : ConstId) :
    ∃ cq cr bq br rb, (Tables.tables c).stConfigRequest = some cq ∧ (Tables.tables c).stConfigResponse = some cr ∧
      (Tables.tables c).stRequest = some bq ∧ (Tables.tables c).stResponse = some br ∧
      lookup cq (Tables.tables c).streamHandlers = some .handle_firmware_config_request ∧
      lookup bq (Tables.tables c).streamHandlers = some .handle_firmware_request ∧
      (Tables.tables c).iReboot = some rb := by
  obtain ⟨cq, cr, bq, br, rb, h1, h2, h3, h4, h5, h6, h7, _⟩ := ota_tables c
  exact ⟨cq, cr, bq, br, rb, h1, h2, h3, h4, h5, h6, h7⟩

/-! ### refinement: the responders are the automaton -/

/-- **config requests**: for every gateway state satisfying the store invariants and every decoded
    message with a well-formed (five-word) payload, the responder moves the session of the
    requesting node exactly as `specConfig`, its reply is exactly the automaton's output, it does
    not raise, no other node's session, no firmware and nothing outside the stores changes -/
theorem config_refines (g : GW) (line : Str) (m : Msg) (ws : List Nat) (sub : Int)
    (hd : decode line = some m) (hok : StoresOk g.ota) (hr : RangesOk g.ota)
    (hs : g.t.stConfigResponse = some sub) (hw : fwHexToInt m.payload 5 = some ws) :
    absSession (otaConfigResponse g m).g.ota m.node = (specConfig g.ota.firmware sub m (absSession g.ota m.node)).1 ∧
    (otaConfigResponse g m).reply = (specConfig g.ota.firmware sub m (absSession g.ota m.node)).2 ∧
    (otaConfigResponse g m).exc = none ∧
    (∀ n, n ≠ m.node → absSession (otaConfigResponse g m).g.ota n = absSession g.ota n) ∧
    (otaConfigResponse g m).g.ota.firmware = g.ota.firmware ∧
    { (otaConfigResponse g m).g with ota := g.ota } = g ∧
    StoresOk (otaConfigResponse g m).g.ota ∧ RangesOk (otaConfigResponse g m).g.ota :=
  let h := refines_config g line m ws sub hd hok hr hs hw
  ⟨h.session, h.reply, h.exc, h.others, h.fw, h.frame, h.ok, h.ranges⟩

/-- **block requests**: the same against `specBlock` for a well-formed (three-word) payload -/
theorem block_refines (g : GW) (line : Str) (m : Msg) (rt rv blk : Nat) (sub : Int)
    (hd : decode line = some m) (hok : StoresOk g.ota) (hr : RangesOk g.ota)
    (hs : g.t.stResponse = some sub) (hw : fwHexToInt m.payload 3 = some [rt, rv, blk]) :
    absSession (otaBlockResponse g m).g.ota m.node = (specBlock g.ota.firmware sub m rt rv blk (absSession g.ota m.node)).1 ∧
    (otaBlockResponse g m).reply = (specBlock g.ota.firmware sub m rt rv blk (absSession g.ota m.node)).2 ∧
    (otaBlockResponse g m).exc = none ∧
    (∀ n, n ≠ m.node → absSession (otaBlockResponse g m).g.ota n = absSession g.ota n) ∧
    (otaBlockResponse g m).g.ota.firmware = g.ota.firmware ∧
    { (otaBlockResponse g m).g with ota := g.ota } = g ∧
    StoresOk (otaBlockResponse g m).g.ota ∧ RangesOk (otaBlockResponse g m).g.ota :=
  let h := refines_block g line m rt rv blk sub hd hok hr hs hw
  ⟨h.session, h.reply, h.exc, h.others, h.fw, h.frame, h.ok, h.ranges⟩

/-- a payload that unpacks to three words is of the form the block responder matches on -/
theorem three_words (p : Str) (ws : List Nat) (h : fwHexToInt p 3 = some ws) : ∃ rt rv blk, ws = [rt, rv, blk] :=
  fwHexToInt_three p ws h

/-- **update calls**: every node's session after `make_update` is `specUpdate` of its session
    before — `requested (t, v)` exactly for the named nodes that are known when the call is
    accepted, unchanged otherwise; after an accepted call firmware `(t, v)` is available; the
    named known nodes (and only they) get their reboot flag set, nothing else about a node changes -/
theorem update_refines (g : GW) (nids : List Int) (t v : Int) (image : Option (List Nat)) :
    (∀ n, absSession (makeUpdate g nids t v image).ota n =
      specUpdate (updateAccepted g t v image) (decide (n ∈ nids)) (knownNode g n) t v (absSession g.ota n)) ∧
    (updateAccepted g t v image = true → (lookup (t, v) (makeUpdate g nids t v image).ota.firmware).isSome) ∧
    (∀ k, aget k (makeUpdate g nids t v image).sensors = (aget k g.sensors).map fun n =>
      { n with reboot := n.reboot || (updateAccepted g t v image && decide (k ∈ nids)) }) :=
  let h := makeUpdate_spec g nids t v image
  ⟨h.session, h.available, h.nodes⟩

/-! ### the same at the level of `logic`: what is sent -/

/-- an accepted config request -/
def isConfigRequest (g : GW) (m : Msg) : Prop :=
  validate g.const m = true ∧ m.type = g.t.mtStream ∧ some m.sub = g.t.stConfigRequest

/-- an accepted block request -/
def isBlockRequest (g : GW) (m : Msg) : Prop :=
  validate g.const m = true ∧ m.type = g.t.mtStream ∧ some m.sub = g.t.stRequest

theorem configRequest_handler (g : GW) (m : Msg) (h : isConfigRequest g m) :
    lookup m.sub g.t.streamHandlers = some .handle_firmware_config_request ∧
    ∃ sub, g.t.stConfigResponse = some sub := by
  obtain ⟨cq, cr, _, _, _, h1, h2, _, _, h5, _⟩ := ota_tables g.const
  have : m.sub = cq := Option.some.inj (by rw [h.2.2]; exact h1)
  exact ⟨by rw [this]; exact h5, cr, h2⟩

theorem blockRequest_handler (g : GW) (m : Msg) (h : isBlockRequest g m) :
    lookup m.sub g.t.streamHandlers = some .handle_firmware_request ∧
    ∃ sub, g.t.stResponse = some sub := by
  obtain ⟨_, _, bq, br, _, _, _, h3, h4, _, h6, _⟩ := ota_tables g.const
  have : m.sub = bq := Option.some.inj (by rw [h.2.2]; exact h3)
  exact ⟨by rw [this]; exact h6, br, h4⟩

/-- a well-formed config request line of a known node: the lines sent are exactly the automaton's
    reply (encoded), the callback fires once, nothing is raised, the requesting node's session is
    the automaton's next state, all other sessions, the firmware and the node tree are unchanged -/
theorem config_step (g : GW) (line : Str) (m : Msg) (ws : List Nat) (sub : Int)
    (hd : decode line = some m) (hq : isConfigRequest g m) (hk : knownNode g m.node = true)
    (hok : StoresOk g.ota) (hr : RangesOk g.ota) (hs : g.t.stConfigResponse = some sub)
    (hw : fwHexToInt m.payload 5 = some ws) :
    (logic g line).2 = { sent := ((specConfig g.ota.firmware sub m (absSession g.ota m.node)).2.map encLine).toList, cbs := [m] } ∧
    absSession (logic g line).1.ota m.node = (specConfig g.ota.firmware sub m (absSession g.ota m.node)).1 ∧
    (∀ n, n ≠ m.node → absSession (logic g line).1.ota n = absSession g.ota n) ∧
    (logic g line).1.ota.firmware = g.ota.firmware ∧ (logic g line).1.sensors = g.sensors := by
  apply stream_step g line m .handle_firmware_config_request _ hd hq.1 hq.2.1 hk (configRequest_handler g m hq).1
    (refines_config g line m ws sub hd hok hr hs hw)
  intro rep hrep
  cases ha : absSession g.ota m.node <;> rw [ha] at hrep <;> simp only [specConfig, Option.map_eq_some_iff] at hrep
  all_goals first | (obtain ⟨fw, _, e⟩ := hrep; rw [← e]; rfl) | cases hrep

/-- a well-formed block request line of a known node -/
theorem block_step (g : GW) (line : Str) (m : Msg) (rt rv blk : Nat) (sub : Int)
    (hd : decode line = some m) (hq : isBlockRequest g m) (hk : knownNode g m.node = true)
    (hok : StoresOk g.ota) (hr : RangesOk g.ota) (hs : g.t.stResponse = some sub)
    (hw : fwHexToInt m.payload 3 = some [rt, rv, blk]) :
    (logic g line).2 = { sent := ((specBlock g.ota.firmware sub m rt rv blk (absSession g.ota m.node)).2.map encLine).toList, cbs := [m] } ∧
    absSession (logic g line).1.ota m.node = (specBlock g.ota.firmware sub m rt rv blk (absSession g.ota m.node)).1 ∧
    (∀ n, n ≠ m.node → absSession (logic g line).1.ota n = absSession g.ota n) ∧
    (logic g line).1.ota.firmware = g.ota.firmware ∧ (logic g line).1.sensors = g.sensors := by
  apply stream_step g line m .handle_firmware_request _ hd hq.1 hq.2.1 hk (blockRequest_handler g m hq).1
    (refines_block g line m rt rv blk sub hd hok hr hs hw)
  intro rep hrep
  cases ha : absSession g.ota m.node <;> rw [ha] at hrep <;> simp only [specBlock, Option.map_eq_some_iff] at hrep
  all_goals first | (obtain ⟨fw, _, e⟩ := hrep; rw [← e]; rfl) | cases hrep

/-- `step` is `logic` followed by the transport: the serial / TCP transports write every line,
    the MQTT transport drops lines that do not decode — never more than `logic` sent -/
theorem step_sent (g : GW) (s : Str) :
    (step g (.line s)).1 = (logic g s).1 ∧
    (g.kind ≠ .mqtt → (step g (.line s)).2 = (logic g s).2) ∧
    (∀ l ∈ (step g (.line s)).2.sent, l ∈ (logic g s).2.sent) := by
  refine ⟨transportFilter_fst g _, ?_, ?_⟩
  · intro hk; simp [step, transportFilter, hk]
  · intro l hl
    simp only [step, transportFilter] at hl
    split at hl
    · exact (List.mem_filter.mp hl).1
    · exact hl

/-! ### gated -/

/-- **gated (one step)**: a config or block response is produced only for a node whose session is
    not idle — it was scheduled by an update call — and only if the firmware it names exists -/
theorem gated (g : GW) (line : Str) (m : Msg) (hd : decode line = some m) (hk : knownNode g m.node = true)
    (hok : StoresOk g.ota) (hr : RangesOk g.ota) :
    (∀ ws sub, isConfigRequest g m → g.t.stConfigResponse = some sub → fwHexToInt m.payload 5 = some ws →
      (logic g line).2.sent ≠ [] →
      ∃ fid fw, (absSession g.ota m.node = .requested fid ∨ absSession g.ota m.node = .offered fid) ∧
        lookup fid g.ota.firmware = some fw ∧ (logic g line).2.sent = [encLine (configResponseMsg m sub fid fw)]) ∧
    (∀ rt rv blk sub, isBlockRequest g m → g.t.stResponse = some sub → fwHexToInt m.payload 3 = some [rt, rv, blk] →
      (logic g line).2.sent ≠ [] →
      ∃ fid fw, (absSession g.ota m.node = .offered fid ∨ absSession g.ota m.node = .fetching fid) ∧
        lookup ((rt : Int), (rv : Int)) g.ota.firmware = some fw ∧
        (logic g line).2.sent = [encLine (blockResponseMsg m sub rt rv blk fw)]) := by
  constructor
  · intro ws sub hq hs hw hne
    have h := (config_step g line m ws sub hd hq hk hok hr hs hw).1
    rw [h] at hne ⊢
    cases ha : absSession g.ota m.node with
    | idle => simp [ha, specConfig] at hne
    | fetching fid => simp [ha, specConfig] at hne
    | requested fid =>
      cases hf : lookup fid g.ota.firmware with
      | none => simp [ha, specConfig, hf] at hne
      | some fw => exact ⟨fid, fw, Or.inl rfl, hf, by simp [specConfig, hf]⟩
    | offered fid =>
      cases hf : lookup fid g.ota.firmware with
      | none => simp [ha, specConfig, hf] at hne
      | some fw => exact ⟨fid, fw, Or.inr rfl, hf, by simp [specConfig, hf]⟩
  · intro rt rv blk sub hq hs hw hne
    have h := (block_step g line m rt rv blk sub hd hq hk hok hr hs hw).1
    rw [h] at hne ⊢
    cases hf : lookup ((rt : Int), (rv : Int)) g.ota.firmware with
    | none => cases ha : absSession g.ota m.node <;> simp [ha, specBlock, hf] at hne
    | some fw =>
      cases ha : absSession g.ota m.node with
      | idle => simp [ha, specBlock] at hne
      | requested fid => simp [ha, specBlock] at hne
      | offered fid => exact ⟨fid, fw, Or.inl rfl, rfl, by simp [specBlock, hf]⟩
      | fetching fid => exact ⟨fid, fw, Or.inr rfl, rfl, by simp [specBlock, hf]⟩

/-- **gated (histories)**: if no op of a history schedules node `n` — no accepted update call
    names `n` while `n` is known — then after the history `n`'s session is idle, and *any* accepted
    stream message from `n` (any sub-type, any payload) is answered with nothing and changes no
    store if `n` is known; if `n` is unknown the only possible output is the presentation request
    (an internal message), never a firmware response -/
theorem gated_history (g0 : GW) (ops : List Op) (n : Int) (hok : StoresOk g0.ota)
    (hi : absSession g0.ota n = .idle) (hns : neverScheduled n g0 ops) :
    absSession (run g0 ops).ota n = .idle ∧
    ∀ line m, decode line = some m → validate (run g0 ops).const m = true → m.type = (run g0 ops).t.mtStream →
      m.node = n →
      (knownNode (run g0 ops) n = true →
        (logic (run g0 ops) line).2.sent = [] ∧ (logic (run g0 ops) line).1.ota = (run g0 ops).ota) ∧
      (knownNode (run g0 ops) n = false → logic (run g0 ops) line = requestPresentation (run g0 ops) n) := by
  have hidle := idle_run g0 ops n hok hi hns
  refine ⟨hidle, ?_⟩
  intro line m hd hv ht hn
  subst hn
  rw [logic_stream _ line m hd hv ht]
  exact ⟨fun hk => idle_silent _ m hk hidle, fun hk => handleStream_unknown _ m hk⟩

/-- from a fresh gateway every node is idle, so the hypothesis on the start state is met -/
theorem gated_history_fresh (c : ConstId) (k : Kind) (ops : List Op) (n : Int)
    (hns : neverScheduled n (freshGW c k) ops) : absSession (run (freshGW c k) ops).ota n = .idle :=
  (gated_history (freshGW c k) ops n storesOk_empty rfl hns).1

/-! ### repeated, then withheld; restart -/

/-- **config repeated, then withheld**: while the session is `offered` (or still `requested`) and
    the firmware is available, every well-formed config request is answered with the config
    response and the session is `offered` afterwards — so the request can be repeated any number
    of times; once the node is `fetching`, a config request gets no reply and changes nothing at
    all in the stores (a node that finished flashing and asks again is not re-flashed) -/
theorem config_repeated_then_withheld (g : GW) (line : Str) (m : Msg) (ws : List Nat) (sub : Int) (fid : Int × Int)
    (hd : decode line = some m) (hq : isConfigRequest g m) (hk : knownNode g m.node = true)
    (hok : StoresOk g.ota) (hr : RangesOk g.ota) (hs : g.t.stConfigResponse = some sub)
    (hw : fwHexToInt m.payload 5 = some ws) :
    (∀ fw, (absSession g.ota m.node = .requested fid ∨ absSession g.ota m.node = .offered fid) →
      lookup fid g.ota.firmware = some fw →
      (logic g line).2.sent = [encLine (configResponseMsg m sub fid fw)] ∧
      absSession (logic g line).1.ota m.node = .offered fid ∧
      lookup fid (logic g line).1.ota.firmware = some fw) ∧
    (absSession g.ota m.node = .fetching fid →
      (logic g line).2.sent = [] ∧ (logic g line).1.ota = g.ota) := by
  obtain ⟨h1, h2, _, h4, _⟩ := config_step g line m ws sub hd hq hk hok hr hs hw
  constructor
  · intro fw ha hf
    rw [h1, h2, h4]
    rcases ha with ha | ha <;> simp [ha, specConfig, hf]
  · intro ha
    refine ⟨by rw [h1]; simp [ha, specConfig], ?_⟩
    obtain ⟨a, b, _⟩ := abs_fetching_inv ha
    rw [logic_stream g line m hd hq.1 hq.2.1, handleStream_known g m _ hk (configRequest_handler g m hq).1]
    have e : streamResBy .handle_firmware_config_request g m = { g := g } := config_nopick g m (pickConfig_none a b)
    rw [e]
    exact q_finishStream otaKeptRel { g := g } m

/-- **update restarts**: after an accepted update call naming a known node the node's session is
    `requested (t, v)` whatever it was before (idle, offered, fetching for other firmware, …), the
    firmware is available, and hence the next well-formed config request is answered again -/
theorem update_restarts (g : GW) (nids : List Int) (t v : Int) (image : Option (List Nat)) (n : Int)
    (ha : updateAccepted g t v image = true) (hn : n ∈ nids) (hk : knownNode g n = true) :
    absSession (makeUpdate g nids t v image).ota n = .requested (t, v) ∧
    (lookup (t, v) (makeUpdate g nids t v image).ota.firmware).isSome ∧
    rebooting (makeUpdate g nids t v image) n := by
  have h := makeUpdate_spec g nids t v image
  refine ⟨by rw [h.session n]; simp [specUpdate, ha, hn, hk], h.available ha, ?_⟩
  have hnodes := h.nodes n
  simp only [knownNode] at hk
  cases hg : aget n g.sensors with
  | none => rw [hg] at hk; cases hk
  | some nd =>
    rw [hg] at hnodes
    exact ⟨_, hnodes, by simp [ha, hn]⟩

/-! ### malformed requests -/

/-- **malformed requests are ignored (responders)**: a payload that does not unpack to five
    (resp. three) words — truncated, odd length, non-hex, too long — makes the responder return
    the gateway unchanged with no reply and no exception -/
theorem malformed_noop (g : GW) (m : Msg) :
    (fwHexToInt m.payload 5 = none → otaConfigResponse g m = { g := g }) ∧
    (fwHexToInt m.payload 3 = none → otaBlockResponse g m = { g := g }) :=
  ⟨config_malformed g m, block_malformed g m⟩

/-- **malformed requests are ignored (`logic`)**: for a known node the line produces no sent
    line and no exception and leaves the whole state — stores, firmware, node tree — as it was
    apart from the unsaved mark of `alert`; the event callback still fires (as for every stream
    message of a known node) -/
theorem malformed_noop_logic (g : GW) (line : Str) (m : Msg) (hd : decode line = some m)
    (hk : knownNode g m.node = true) :
    (isConfigRequest g m → fwHexToInt m.payload 5 = none → logic g line = ((alert g m).1, { cbs := [m] })) ∧
    (isBlockRequest g m → fwHexToInt m.payload 3 = none → logic g line = ((alert g m).1, { cbs := [m] })) := by
  constructor
  · intro hq hw
    rw [logic_stream g line m hd hq.1 hq.2.1, handleStream_known g m _ hk (configRequest_handler g m hq).1]
    have e : streamResBy .handle_firmware_config_request g m = { g := g } := config_malformed g m hw
    rw [e, finishStream_ok _ m rfl (by intro rep h; cases h)]
    rfl
  · intro hq hw
    rw [logic_stream g line m hd hq.1 hq.2.1, handleStream_known g m _ hk (blockRequest_handler g m hq).1]
    have e : streamResBy .handle_firmware_request g m = { g := g } := block_malformed g m hw
    rw [e, finishStream_ok _ m rfl (by intro rep h; cases h)]
    rfl

/-- a stream request of an unknown node (malformed or not) never reaches the responders -/
theorem unknown_node_noop (g : GW) (line : Str) (m : Msg) (hd : decode line = some m)
    (hv : validate g.const m = true) (ht : m.type = g.t.mtStream) (hk : knownNode g m.node = false) :
    logic g line = requestPresentation g m.node ∧ (logic g line).1.ota = g.ota := by
  rw [logic_stream g line m hd hv ht, handleStream_unknown g m hk]
  exact ⟨rfl, q_requestPresentation otaKeptRel g m.node⟩

/-! ### reboot until presented -/

/-- the reboot flag set by an update call stays set under every op — lines of every handler kind
    (valid or not), controller calls, further update calls, clock changes, saves — except the
    node's own node presentation (and a restart of the gateway) -/
theorem reboot_persists (g : GW) (ops : List Op) (k : Int) (hr : rebooting g k) (hu : undisturbed k g ops) :
    rebooting (run g ops) k := rebooting_run g ops k hr hu

/-- an accepted set message from a known child of a node whose reboot flag is set produces exactly
    one reply: the request copied with child 255, type internal, ack 0, sub-type I_REBOOT and an
    empty payload — sent at once, or appended to the hold queue if the node sleeps; the value is
    stored and the callback fires as usual -/
theorem set_gets_reboot (g : GW) (line : Str) (m : Msg) (n : Node) (hd : decode line = some m)
    (hv : validate g.const m = true) (ht : m.type = g.t.mtSet)
    (hn : aget m.node g.sensors = some n) (hc : (aget m.child n.children).isSome = true) (hb : n.reboot = true) :
    ∃ sub, g.t.iReboot = some sub ∧
      logic g line = deliverReboot (alert (setNode g m.node (updateChildValue n m.child m.sub m.payload)) m).1 m
        (rebootMsg g m sub) n.sleeping ∧
      encLine (rebootMsg g m sub) = canon (rebootMsg g m sub) := by
  obtain ⟨_, _, _, _, rb, _, _, _, _, _, _, hrb, _⟩ := ota_tables g.const
  exact ⟨rb, hrb, by rw [logic_set g line m hd hv ht]; exact handleSet_rebooting g line m n rb hd hn hc hb hrb,
    encLine_rebootMsg g line m rb hd hrb⟩

/-- what `deliverReboot` means for an awake node: exactly the reboot line is sent -/
theorem set_gets_reboot_awake (g : GW) (line : Str) (m : Msg) (n : Node) (hd : decode line = some m)
    (hv : validate g.const m = true) (ht : m.type = g.t.mtSet)
    (hn : aget m.node g.sensors = some n) (hc : (aget m.child n.children).isSome = true) (hb : n.reboot = true)
    (hs : n.sleeping = false) :
    ∃ sub, g.t.iReboot = some sub ∧ (logic g line).2 = { sent := [canon (rebootMsg g m sub)], cbs := [m] } := by
  obtain ⟨sub, h1, h2, h3⟩ := set_gets_reboot g line m n hd hv ht hn hc hb
  refine ⟨sub, h1, ?_⟩
  rw [h2, ← h3]
  simp [deliverReboot, hs]

/-- the node presentation clears the flag -/
theorem presentation_clears (g : GW) (m : Msg) :
    ∃ n, aget m.node (presentNode g m).1.sensors = some n ∧ n.reboot = false := presentNode_clears g m

/-- **reboot until presented**: from an accepted update call naming the known node `k`, through
    any history without a node presentation of `k` (and without a gateway restart), every
    accepted set message from a known child of `k` is answered with the reboot request -/
theorem reboot_until_presented (g : GW) (nids : List Int) (t v : Int) (image : Option (List Nat)) (k : Int)
    (ops : List Op) (line : Str) (m : Msg)
    (ha : updateAccepted g t v image = true) (hk : k ∈ nids) (hkn : knownNode g k = true)
    (hu : undisturbed k (makeUpdate g nids t v image) ops)
    (hd : decode line = some m) (hv : validate (run (makeUpdate g nids t v image) ops).const m = true)
    (ht : m.type = (run (makeUpdate g nids t v image) ops).t.mtSet) (hnode : m.node = k)
    (hchild : isKnown (run (makeUpdate g nids t v image) ops) m.node (some m.child) = true) :
    ∃ n sub, aget k (run (makeUpdate g nids t v image) ops).sensors = some n ∧
      (run (makeUpdate g nids t v image) ops).t.iReboot = some sub ∧
      logic (run (makeUpdate g nids t v image) ops) line =
        deliverReboot (alert (setNode (run (makeUpdate g nids t v image) ops) m.node
          (updateChildValue n m.child m.sub m.payload)) m).1 m
          (rebootMsg (run (makeUpdate g nids t v image) ops) m sub) n.sleeping := by
  have hr0 := (update_restarts g nids t v image k ha hk hkn).2.2
  obtain ⟨n, hn, hb⟩ := reboot_persists _ ops k hr0 hu
  subst hnode
  have hc : (aget m.child n.children).isSome = true := by
    simp only [isKnown, hn] at hchild; exact hchild
  obtain ⟨sub, h1, h2, _⟩ := set_gets_reboot _ line m n hd hv ht hn hc hb
  exact ⟨n, sub, hn, h1, h2⟩

/-! ### Non-vacuity: concrete histories (the model is run by `decide +kernel`)

  `fullSession` (protocol 2.0): node 1 and node 3 present themselves, a config request before any
  update call is ignored, `update([1, 2], 1, 1, image)` (node 2 is unknown), a set message gets
  the reboot request, two config requests get the config response twice, blocks 7 and 0 are
  served out of order, a further config request is withheld, a non-hex config request and a
  truncated block request are ignored, a new update call restarts the session and the config
  request is answered again, node 1 presents itself again and its next set message gets no
  reboot request, never-scheduled node 3 gets nothing, unknown node 2 gets a presentation
  request. -/

def cfg1 : Op := .line "1;255;4;0;0;01000100000000000000\n".toList
def cfgResp : Str := "1;255;4;0;1;0100010008004929\n".toList

def fullSession : List Op := [
  .line "1;255;0;0;17;2.0\n".toList, .line "1;0;0;0;6;\n".toList, .line "3;255;0;0;17;2.0\n".toList, cfg1,
  .update [1, 2] 1 1 (some [1, 2, 3]), .line "1;0;1;0;0;21.5\n".toList,
  cfg1, cfg1, .line "1;255;4;0;2;010001000700\n".toList, .line "1;255;4;0;2;010001000000\n".toList,
  cfg1, .line "1;255;4;0;0;zz\n".toList, .line "1;255;4;0;2;0102\n".toList,
  .update [1] 1 1 none, cfg1, .line "1;255;0;0;17;2.0\n".toList, .line "1;0;1;0;0;22\n".toList,
  .line "3;255;4;0;0;01000100000000000000\n".toList, .line "2;255;4;0;0;01000100000000000000\n".toList]

example : sentsOf (freshGW .v20 .base) fullSession =
    [[], [], [], [], [], ["1;255;3;0;13;\n".toList], [cfgResp], [cfgResp],
     ["1;255;4;0;3;010001000700ffffffffffffffffffffffffffffffff\n".toList],
     ["1;255;4;0;3;010001000000010203ffffffffffffffffffffffffff\n".toList],
     [], [], [], [], [cfgResp], [], [], [], ["2;255;3;0;19;\n".toList]] := by decide +kernel

example : sessionsOf 1 (freshGW .v20 .base) fullSession =
    [.idle, .idle, .idle, .idle, .requested (1, 1), .requested (1, 1), .offered (1, 1), .offered (1, 1),
     .fetching (1, 1), .fetching (1, 1), .fetching (1, 1), .fetching (1, 1), .fetching (1, 1),
     .requested (1, 1), .offered (1, 1), .offered (1, 1), .offered (1, 1), .offered (1, 1), .offered (1, 1)] := by
  decide +kernel

/-- the images of the history are byte strings (hypothesis of `stores_invariant`) -/
example : ∀ op ∈ fullSession, opBytes op := by decide +kernel

/-- nodes 2 (unknown when named) and 3 (never named) are never scheduled; node 1 is -/
example : neverScheduled 2 (freshGW .v20 .base) fullSession ∧ neverScheduled 3 (freshGW .v20 .base) fullSession ∧
    ¬ neverScheduled 1 (freshGW .v20 .base) fullSession := by decide +kernel

/-- the hypotheses of `config_refines` / `config_step` are met right after the update call, and
    the automaton prescribes the config response -/
example :
    let g := run (freshGW .v20 .base) (fullSession.take 5)
    let m : Msg := ⟨1, 255, 4, 0, 0, "01000100000000000000".toList⟩
    decode "1;255;4;0;0;01000100000000000000\n".toList = some m ∧ isConfigRequest g m ∧ knownNode g 1 = true ∧
    g.t.stConfigResponse = some 1 ∧ fwHexToInt m.payload 5 = some [1, 1, 0, 0, 0] ∧
    absSession g.ota 1 = .requested (1, 1) ∧
    (specConfig g.ota.firmware 1 m (absSession g.ota 1)).2 = some ⟨1, 255, 4, 0, 1, "0100010008004929".toList⟩ := by
  refine ⟨by decide +kernel, ⟨by decide +kernel, by decide +kernel, by decide +kernel⟩, by decide +kernel,
    by decide +kernel, by decide +kernel, by decide +kernel, by decide +kernel⟩

/-- `block_refines`: out-of-range block index of a fetching node — header and an empty block -/
example :
    let g := run (freshGW .v20 .base) (fullSession.take 9)
    let m : Msg := ⟨1, 255, 4, 0, 2, "01000100ffff".toList⟩
    fwHexToInt m.payload 3 = some [1, 1, 65535] ∧ absSession g.ota 1 = .fetching (1, 1) ∧
    (specBlock g.ota.firmware 3 m 1 1 65535 (absSession g.ota 1)).2 = some ⟨1, 255, 4, 0, 3, "01000100ffff".toList⟩ ∧
    (otaBlockResponse g m).reply = some ⟨1, 255, 4, 0, 3, "01000100ffff".toList⟩ := by
  refine ⟨by decide +kernel, by decide +kernel, by decide +kernel, by decide +kernel⟩

/-- `malformed_noop`: the D1 replays -/
example : fwHexToInt "zz".toList 5 = none ∧ fwHexToInt "0102".toList 5 = none ∧ fwHexToInt "0102".toList 3 = none ∧
    fwHexToInt "010".toList 3 = none ∧ fwHexToInt "01000100000000000000aa".toList 5 = none := by decide +kernel

/-- `reboot_until_presented`: the hypotheses hold for node 1 over the eight ops after the first
    update call (requests, malformed requests, a second update call), and the flag is set -/
example :
    let g := run (freshGW .v20 .base) (fullSession.take 4)
    updateAccepted g 1 1 (some [1, 2, 3]) = true ∧ knownNode g 1 = true ∧
    undisturbed 1 (makeUpdate g [1, 2] 1 1 (some [1, 2, 3])) ((fullSession.drop 5).take 10) ∧
    ¬ undisturbed 1 (makeUpdate g [1, 2] 1 1 (some [1, 2, 3])) ((fullSession.drop 5).take 11) := by
  refine ⟨by decide +kernel, by decide +kernel, by decide +kernel, by decide +kernel⟩

/-- a sleeping node (protocol 2.2): the reboot request is withheld and delivered at the next wake-up -/
example : sentsOf (freshGW .v22 .base)
    [.line "1;255;0;0;17;2.2\n".toList, .line "1;0;0;0;6;\n".toList, .line "1;255;3;0;32;500\n".toList,
     .update [1] 1 1 (some [1, 2, 3]), .line "1;0;1;0;0;21.5\n".toList, cfg1, .line "1;255;3;0;32;500\n".toList] =
    [[], [], [], [], [], [cfgResp], ["1;255;3;0;13;\n".toList]] := by decide +kernel

/-- update calls that are not accepted (type out of range, no firmware for the key) schedule nothing -/
example : updateAccepted (freshGW .v20 .base) 70000 1 (some [1]) = false ∧
    updateAccepted (freshGW .v20 .base) 1 1 none = false ∧
    makeUpdate (run (freshGW .v20 .base) (fullSession.take 3)) [1] 1 1 none = run (freshGW .v20 .base) (fullSession.take 3) := by
  refine ⟨by decide +kernel, by decide +kernel, by decide +kernel⟩

end MySensors.C10
