/-
  C11 — the persistence round trip is exact in both formats.

  Model: `MySensors/Model/Persist.lean` — the JSON encoder / decoder hooks and the pickle
  `__getstate__` / `__setstate__` hooks over an abstract tree of Python values (the json and
  pickle text layers are trusted to round-trip such trees).  States are the gateway model's
  `List (Int × Node)` (`Model/Gateway.lean`): every payload is an arbitrary `List Char` (any
  Unicode scalar values, empty, NUL, quotes, astral planes), node type / sketch name / sketch
  version are optional, children may have no values, nodes no children.

  The theorems hold for **every** state satisfying the explicit reachability invariant
  `Inv` (JSON) / `InvP` (pickle):
    * node ids, child ids and value types are non-negative and renderable (`KeyOk`; the
      gateway only stores ids 0..255 and validated value types) — JSON only, because
      `dict_to_object` restores integer keys with `str.isdigit`;
    * battery level within 0..100 and protocol version a fixed point of `safe_is_version`
      (both are only ever stored through the validating setters, see `setter_values_ok`).
-/
import MySensors.Lemmas.Persist

namespace MySensors.C11

open MySensors MySensors.Persist

/-- **JSON round trip**: loading the saved JSON file gives exactly the persisted projection of
    every node (ids, children with type, description and integer-keyed values, type, sketch
    name/version, battery, protocol version, heartbeat), with the transient fields at their
    defaults. -/
theorem json_round_trip (s : List (Int × Node)) (h : Inv s) :
    fromJson (toJson s) = some (restored s) := by
  unfold fromJson toJson
  rw [hook, hookKvs_map]
  have e : (s.map fun p => (jsonKey p.1, hook (jsonSensor p.2))) =
      s.map fun p => (jsonKey p.1, Tree.inst .sensor (loadedDict p.2)) := by
    apply List.map_congr_left
    intro p hp
    rw [hook_jsonSensor p.2 (h p hp).2.children]
  rw [e, dictToObject_numeric s (·.1) (fun p => .inst .sensor (loadedDict p.2)) (fun p hp => (h p hp).1)]
  exact asSensors_loaded s h.toP

/-- **Pickle round trip**: the same for the pickle file (keys stay integers, so no condition
    on them). -/
theorem pickle_round_trip (s : List (Int × Node)) (h : InvP s) :
    fromPickle (toPickle s) = some (restored s) := by
  unfold fromPickle toPickle
  rw [unpickle, unpickleKvs_map]
  show asSensors (s.map fun p => (Key.i p.1, unpickle (.inst .sensor (getstate (sensorDict p.2))))) = _
  rw [asSensors_congr s (·.1) (fun p => unpickle (.inst .sensor (getstate (sensorDict p.2))))
    (fun p => .inst .sensor (loadedDict p.2)) (fun p _ => unpickle_sensor p.2)]
  exact asSensors_loaded s h

/-- **Both formats restore the same state** -/
theorem formats_agree (s : List (Int × Node)) (h : Inv s) :
    fromJson (toJson s) = fromPickle (toPickle s) := by
  rw [json_round_trip s h, pickle_round_trip s h.toP]

/-- the loaded state has exactly the persisted projection of the saved one (the projection the
    gateway model's `GW.persisted` uses) -/
theorem persisted_exact (s loaded : List (Int × Node)) (h : Inv s)
    (hl : fromJson (toJson s) = some loaded ∨ fromPickle (toPickle s) = some loaded) :
    loaded.map (fun p => (p.1, p.2.persisted)) = s.map (fun p => (p.1, p.2.persisted)) := by
  have : loaded = restored s := by
    rcases hl with hl | hl
    · rw [json_round_trip s h] at hl; exact (Option.some.inj hl).symm
    · rw [pickle_round_trip s h.toP] at hl; exact (Option.some.inj hl).symm
  subst this
  simp [restored, Node.persisted, PNode.restore]

/-- **Transient state is never resurrected**: whatever desired values, withheld lines and
    reboot requests the saved nodes had, every loaded node has none. -/
theorem transient_not_restored (s loaded : List (Int × Node)) (h : Inv s)
    (hl : fromJson (toJson s) = some loaded ∨ fromPickle (toPickle s) = some loaded) :
    ∀ p ∈ loaded, p.2.desired = [] ∧ p.2.queue = [] ∧ p.2.reboot = false ∧ p.2.sleeping = false := by
  have : loaded = restored s := by
    rcases hl with hl | hl
    · rw [json_round_trip s h] at hl; exact (Option.some.inj hl).symm
    · rw [pickle_round_trip s h.toP] at hl; exact (Option.some.inj hl).symm
  subst this
  intro p hp
  simp only [restored, List.mem_map] at hp
  rcases hp with ⟨q, _, rfl⟩
  exact ⟨rfl, rfl, rfl, rfl⟩

/-- the pickle file *does* contain the transient attributes (`__getstate__` copies the whole
    `__dict__`); it is `__setstate__` that resets them -/
theorem pickle_state_contains_transients (n : Node) :
    dget (.a .new_state) (getstate (sensorDict n)) = some (.dict (n.desired.map fun p => (.i p.1, desiredObj n p))) ∧
    dget (.a .queue) (getstate (sensorDict n)) = some (.list (n.queue.map .str)) ∧
    dget (.a .reboot) (getstate (sensorDict n)) = some (.bool n.reboot) := by
  rw [getstate_sensorDict]; simp [dget]

/-- the setters applied on load are the identity on what the setters themselves store:
    `is_battery_level` yields 0..100, `safe_is_version` is idempotent, ids 0..255 are good keys.
    Hence every value the gateway stores satisfies the invariant. -/
theorem setter_values_ok (payloadVersion : Str) (battery : Int) (k : Int) (hk : 0 ≤ k ∧ k ≤ 255) :
    loadVersion (loadVersion payloadVersion) = loadVersion payloadVersion ∧
    (0 ≤ clampBattery battery ∧ clampBattery battery ≤ 100) ∧
    clampBattery (clampBattery battery) = clampBattery battery ∧ KeyOk k :=
  ⟨loadVersion_idem _, clampBattery_range _, clampBattery_of_range _ (clampBattery_range _),
   keyOk_of_le k hk.1 hk.2⟩

/-- the invariant in terms of bounds: ids and value types within 0..255, battery within 0..100,
    version stored through the setter -/
theorem inv_of_bounds (s : List (Int × Node))
    (hid : ∀ p ∈ s, 0 ≤ p.1 ∧ p.1 ≤ 255)
    (hch : ∀ p ∈ s, ∀ c ∈ p.2.children, (0 ≤ c.1 ∧ c.1 ≤ 255) ∧ ∀ v ∈ c.2.values, 0 ≤ v.1 ∧ v.1 ≤ 255)
    (hb : ∀ p ∈ s, 0 ≤ p.2.battery ∧ p.2.battery ≤ 100)
    (hv : ∀ p ∈ s, ∃ payload, p.2.version = loadVersion payload) : Inv s := by
  intro p hp
  refine ⟨keyOk_of_le _ (hid p hp).1 (hid p hp).2, ?_, hb p hp, ?_⟩
  · intro c hc
    have := hch p hp c hc
    exact ⟨keyOk_of_le _ this.1.1 this.1.2, fun v hv' => keyOk_of_le _ (this.2 v hv').1 (this.2 v hv').2⟩
  · rcases hv p hp with ⟨w, hw⟩
    rw [hw]; exact loadVersion_idem w

/-- Why the key condition is in the invariant: a (not reachable) node id −1 is written by json
    as the key "-1", which `str.isdigit` rejects, so the JSON loader leaves a *string* key and
    the loaded mapping is not the saved one — while pickle restores it. -/
theorem negative_key_counterexample :
    fromJson (toJson [(-1, { id := -1 })]) ≠ some (restored [(-1, { id := -1 })]) ∧
    fromPickle (toPickle [(-1, { id := -1 })]) = some (restored [(-1, { id := -1 })]) := by
  constructor
  · decide
  · exact pickle_round_trip _ (fun p hp => by
      simp at hp; subst hp; exact ⟨by decide, by decide⟩)

/-! Non-vacuity: a concrete state with a typed node with two children (one without values, one
    with an empty, a NUL/quote and an astral-plane payload), pending desired values, a withheld
    line and a reboot request, and a bare node 0 — it satisfies `Inv`, and both loaders return
    exactly `restored`. -/

def sample : List (Int × Node) :=
  [(255, { id := 255, type := some 17, sketchName := some "a\"b\x00".toList, battery := 100, version := " 1.4".toList, heartbeat := -5,
           children := [(0, ⟨0, 6, [], []⟩), (254, ⟨254, 3, "déjà 😀".toList, [(2, []), (47, "\"\x00😀".toList)]⟩)],
           desired := [(254, [(2, some "1".toList), (47, none)])], queue := ["255;254;1;0;2;1\n".toList], reboot := true }),
   (0, { id := 0 })]

theorem sample_inv : Inv sample := by
  apply inv_of_bounds
  · intro p hp; simp [sample] at hp; rcases hp with rfl | rfl <;> decide
  · intro p hp c hc
    simp [sample] at hp
    rcases hp with rfl | rfl
    · simp at hc
      rcases hc with rfl | rfl
      · exact ⟨by decide, by simp⟩
      · refine ⟨by decide, ?_⟩
        intro v hv; simp at hv; rcases hv with rfl | rfl <;> decide
    · simp at hc
  · intro p hp; simp [sample] at hp; rcases hp with rfl | rfl <;> decide
  · intro p hp; simp [sample] at hp
    rcases hp with rfl | rfl
    · exact ⟨" 1.4".toList, by decide⟩
    · exact ⟨"1.4".toList, by decide⟩

example : fromJson (toJson sample) = some (restored sample) := json_round_trip _ sample_inv
example : fromPickle (toPickle sample) = some (restored sample) := pickle_round_trip _ sample_inv.toP
example : restored sample ≠ sample := by
  intro h; have := congrArg (fun l => l.map fun p => p.2.reboot) h; simp [restored, sample, Node.persisted, PNode.restore] at this

end MySensors.C11
