/-
  C11, tied to the gateway model: every state the gateway model can reach satisfies the
  round-trip invariant of C11, so for every history the file written by a save — in either
  format — loads back to exactly the persisted projection (the abstraction `disk := persisted`
  used by C06 / C14 is therefore justified by C11's theorems on every reachable state).
-/
import MySensors.Properties.C11
import MySensors.Properties.C05

namespace MySensors.C11

open MySensors MySensors.Persist

theorem mem_keys_of_mem {α : Type} (p : Int × α) (l : List (Int × α)) (h : p ∈ l) : p.1 ∈ akeys l := by
  simp only [akeys, List.mem_map]; exact ⟨p, h, rfl⟩

/-- from the invariants maintained by the gateway model to C11's `Inv` -/
theorem inv_of_emitInv (c : ConstId) (g : GW) (hk : KeyRange g) (hi : EmitInv c g)
    (hnd : ∀ p ∈ g.sensors, aget p.1 g.sensors = some p.2) : Inv g.sensors := by
  apply inv_of_bounds
  · intro p hp; exact hk p.1 (mem_keys_of_mem p _ hp)
  · intro p hp c hc
    have hb := hi.bounds p.1 p.2 (hnd p hp)
    exact hb.1 c hc
  · intro p hp; exact (hi.bounds p.1 p.2 (hnd p hp)).2.1
  · intro p hp; exact (hi.bounds p.1 p.2 (hnd p hp)).2.2

/-- keys of the sensors list are pairwise distinct (dict semantics) -/
def KeysNodup (g : GW) : Prop := (akeys g.sensors).Nodup

theorem aget_of_mem_nodup {α : Type} (l : List (Int × α)) (h : (akeys l).Nodup) :
    ∀ p ∈ l, aget p.1 l = some p.2 := by
  induction l with
  | nil => intro p hp; cases hp
  | cons q l ih =>
    obtain ⟨k, v⟩ := q
    simp only [akeys, List.map_cons, List.nodup_cons] at h
    intro p hp
    simp only [List.mem_cons] at hp
    rcases hp with rfl | hp
    · simp [aget]
    · have hne : p.1 ≠ k := by
        intro e; apply h.1
        simp only [List.mem_map]; exact ⟨p, hp, e⟩
      simp only [aget, hne, ↓reduceIte]
      exact ih h.2 p hp

/-- **C11 on reachable states**: for any state satisfying the gateway model's invariants, both
    formats restore exactly the persisted projection, and they agree. -/
theorem reachable_round_trip (c : ConstId) (g : GW) (hk : KeyRange g) (hi : EmitInv c g) (hn : KeysNodup g) :
    fromJson (toJson g.sensors) = some (restored g.sensors) ∧
    fromPickle (toPickle g.sensors) = some (restored g.sensors) := by
  have h := inv_of_emitInv c g hk hi (aget_of_mem_nodup g.sensors hn)
  exact ⟨json_round_trip g.sensors h, pickle_round_trip g.sensors h.toP⟩

end MySensors.C11

namespace MySensors.C11

open MySensors MySensors.Persist

/-- distinct keys in the tree and in the file -/
def NodupInv (g : GW) : Prop :=
  (akeys g.sensors).Nodup ∧ ∀ d, g.disk = some d → (akeys d).Nodup

structure NodupRel (g g' : GW) : Prop where
  keys : (akeys g.sensors).Nodup → (akeys g'.sensors).Nodup
  disk : g'.disk = g.disk

theorem nodupStepRel : StepRel NodupRel where
  refl g := ⟨id, rfl⟩
  trans h1 h2 := ⟨fun h => h2.keys (h1.keys h), h2.disk.trans h1.disk⟩
  setNodeQuiet g k n n' hn _ := ⟨fun h => by rw [akeys_setNode_of_mem g k n n' hn]; exact h, rfl⟩
  setNodeAlert g k n n' m hn _ := ⟨fun h => by
    show (akeys (setNode g k n').sensors).Nodup
    rw [akeys_setNode_of_mem g k n n' hn]; exact h, rfl⟩
  alert g m := ⟨id, rfl⟩
  addSensor g nid _ _ := by
    unfold addSensor
    split
    · exact ⟨fun h => h, rfl⟩
    · rename_i hnone
      refine ⟨fun h => ?_, rfl⟩
      simp only [akeys, List.map_append, List.map_cons, List.map_nil]
      rw [List.nodup_append]
      refine ⟨h, by simp, ?_⟩
      intro a ha b hb
      simp only [List.mem_singleton] at hb
      subst hb
      intro e; subst e
      exact (aget_none_iff_not_mem_keys a g.sensors).mp hnone ha
  setOta g o := ⟨id, rfl⟩
  setCanLog g := ⟨id, rfl⟩

theorem nodup_step (g : GW) (op : Op) (hk : KeyRange g) (h : NodupInv g) : NodupInv (step g op).1 := by
  by_cases hp : op.plain = true
  · have hr := rel_step nodupStepRel g op hp hk (fun _ _ => ⟨id, rfl⟩) (fun _ _ => ⟨id, rfl⟩)
    exact ⟨hr.keys h.1, fun d hd => h.2 d (by rw [← hr.disk]; exact hd)⟩
  · cases op with
    | saveTick | stop =>
      refine ⟨by simp only [step]; rw [(save_spec g).1]; exact h.1, ?_⟩
      intro d hd
      simp only [step, save] at hd
      split at hd
      · cases hd; rw [akeys_persisted]; exact h.1
      · exact h.2 d hd
    | restart =>
      refine ⟨?_, fun d hd => h.2 d hd⟩
      simp only [step]
      rw [restart_sensors_keys]
      split
      · cases hd : g.disk with
        | none => simp [akeys]
        | some d => simpa using h.2 d hd
      · simp
    | _ => simp [Op.plain] at hp

/-- **C11 over histories**: after any history of inbound lines and controller calls (ids in range,
    carryable values) from a freshly constructed gateway of any version / kind, saving the
    network as JSON or as pickle and loading it restores exactly the persisted projection, and
    the two formats agree. -/
theorem round_trip_run (c : ConstId) (kd : Kind) (pers : Bool) (ops : List Op) (hops : ∀ o ∈ ops, Op.carry o) :
    let s := (run { const := c, kind := kd, persist := pers } ops).sensors
    fromJson (toJson s) = some (restored s) ∧ fromPickle (toPickle s) = some (restored s) ∧
    fromJson (toJson s) = fromPickle (toPickle s) := by
  intro s
  have h0k : KeyInv { const := c, kind := kd, persist := pers } :=
    ⟨fun k hk => by simp [akeys] at hk, fun d hd => by simp at hd⟩
  have h0n : NodupInv { const := c, kind := kd, persist := pers } :=
    ⟨by simp [akeys], fun d hd => by simp at hd⟩
  have key : ∀ (ops : List Op) (g : GW), (∀ o ∈ ops, Op.carry o) → KeyInv g → EmitInv g.const g → NodupInv g →
      KeyInv (run g ops) ∧ EmitInv (run g ops).const (run g ops) ∧ NodupInv (run g ops) := by
    intro ops
    induction ops with
    | nil => intro g _ a b d; exact ⟨a, b, d⟩
    | cons op ops ih =>
      intro g ho a b d
      exact ih _ (fun o hh => ho o (by simp [hh])) (keyInv_step g op a)
        (C05.emitInv_step g op a.1 (ho op (by simp)) b) (nodup_step g op a.1 d)
  obtain ⟨hk, hi, hn⟩ := key ops _ hops h0k (C05.emitInv_fresh c kd pers) h0n
  have := reachable_round_trip _ _ hk.1 hi hn.1
  exact ⟨this.1, this.2, by rw [this.1, this.2]⟩

end MySensors.C11
