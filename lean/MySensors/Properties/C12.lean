/-
  C12 — saving replaces the persistence file atomically.

  Model: `MySensors/Model/Fs.lean` (operation list of `save_sensors`, crash and fault semantics,
  `safe_load_sensors`).  Contents are symbolic (`σ` is an arbitrary type of network states), so
  every theorem covers every old and every new state; the crash point `k` ranges over all
  naturals (every prefix of the operation list), the damage choice over every combination of
  keep / emptied / damaged for every file whose data had not been synced, the stale backup and
  temp files over every content (complete older state, empty, damaged, even `hostile`) and
  sync flag.
-/
import MySensors.Model.Fs

namespace MySensors.C12

open MySensors.Fs

/-- the operation list: temp file written, flushed and synced before any rename; the old file
    is moved to the backup before the temp file takes its place; the backup is removed last -/
theorem saveOps_shape :
    saveOps true = [.openTmp, .write, .flush, .fsync, .close, .renMainBak, .renTmpMain, .rmBak] ∧
    saveOps false = [.openTmp, .write, .flush, .fsync, .close, .renTmpMain] := ⟨rfl, rfl⟩

/-- **Crash atomicity.**  The process dies before operation `k` of the save of `new` (any `k`:
    `k = 0` nothing done, `k ≥ length` everything done), from any of the five prior
    configurations, with any loss of unsynced data: the next start-up loads the complete
    previously saved state (the empty network when there was no file) or the complete new one. -/
theorem crash_atomic {σ} (cfg : Cfg) (old new : σ) (staleBak staleTmp : File σ) (k : Nat) (d : Damage) :
    loadable (crashAt new k d (initial cfg old staleBak staleTmp)) = oldOf cfg old ∨
    loadable (crashAt new k d (initial cfg old staleBak staleTmp)) = .state new := by
  cases cfg <;> rcases k with _|_|_|_|_|_|_|_|_|k <;>
    simp [crashAt, initial, fileExists, saveOps, run, step, crash, crashFile, loadable, safeLoad,
      loadBackup, parse, oldOf, syncFile]

/-- …in particular never an empty, partial or damaged state when a file had been saved before -/
theorem crash_never_empty {σ} (cfg : Cfg) (hc : cfg ≠ .none) (old new : σ) (staleBak staleTmp : File σ)
    (k : Nat) (d : Damage) :
    loadable (crashAt new k d (initial cfg old staleBak staleTmp)) = .state old ∨
    loadable (crashAt new k d (initial cfg old staleBak staleTmp)) = .state new := by
  have h := crash_atomic cfg old new staleBak staleTmp k d
  cases cfg <;> first | exact absurd rfl hc | exact h

/-- exactly which of the two: the old state up to and including the crash point just before the
    second rename, the new state from then on (file existed: operations 0..6 / 7..) -/
theorem crash_exact {σ} (cfg : Cfg) (hc : cfg ≠ .none) (old new : σ) (staleBak staleTmp : File σ)
    (k : Nat) (d : Damage) :
    loadable (crashAt new k d (initial cfg old staleBak staleTmp)) =
      if k ≤ 6 then .state old else .state new := by
  cases cfg <;> first | exact absurd rfl hc | skip
  all_goals
    rcases k with _|_|_|_|_|_|_|_|_|k <;>
    simp [crashAt, initial, fileExists, saveOps, run, step, crash, crashFile, loadable, safeLoad,
      loadBackup, parse, syncFile]

/-- first save ever (no file): the new state is loadable exactly from the crash point after the
    rename (operation 5) on -/
theorem crash_exact_none {σ} (old new : σ) (staleBak staleTmp : File σ) (k : Nat) (d : Damage) :
    loadable (crashAt new k d (initial .none old staleBak staleTmp)) =
      if k ≤ 5 then .emptyNet else .state new := by
  rcases k with _|_|_|_|_|_|_|k <;>
    simp [crashAt, initial, fileExists, saveOps, run, step, crash, crashFile, loadable, safeLoad,
      loadBackup, parse, syncFile]

/-- **Single failing operation.**  Operation `k` raises `OSError` (the temp file is left with an
    arbitrary content): start-up — and equally a later load — yields the old or the new state. -/
theorem fail_atomic {σ} (cfg : Cfg) (old new : σ) (staleBak staleTmp : File σ) (k : Nat)
    (tmpAfter : Option (File σ)) :
    loadable (failAt new k tmpAfter (initial cfg old staleBak staleTmp)) = oldOf cfg old ∨
    loadable (failAt new k tmpAfter (initial cfg old staleBak staleTmp)) = .state new := by
  cases cfg <;> rcases k with _|_|_|_|_|_|_|_|_|k <;>
    simp [failAt, initial, fileExists, saveOps, run, step, loadable, safeLoad,
      loadBackup, parse, oldOf, syncFile] <;>
    (try cases tmpAfter) <;> simp [safeLoad, loadBackup, parse]

/-- start-up never looks at the temp file -/
theorem load_ignores_tmp {σ} (st : Store σ) (t : Option (File σ)) :
    loadable { st with tmp := t } = loadable st := by
  unfold loadable safeLoad loadBackup
  cases st.main <;> cases st.bak <;> simp <;> (repeat' split) <;> simp_all

/-- **The next save succeeds**, from *any* store whatsoever (so after every crash point, every
    failing operation, and after the start-up load's own renames): a complete save followed by a
    load yields the state that was saved, the file is synced, and no temp file is left. -/
theorem save_then_load {σ} (st : Store σ) (cur : σ) :
    loadable (save cur st) = .state cur ∧ (save cur st).main = some ⟨.whole cur, true⟩ ∧
    (save cur st).tmp = none := by
  cases hm : st.main <;>
    simp [save, fileExists, hm, saveOps, run, step, loadable, safeLoad, parse, syncFile]

/-- after a crash and the restart's load, saving the then-current state and loading it again -/
theorem crash_restart_save_load {σ} (cfg : Cfg) (old new cur : σ) (staleBak staleTmp : File σ)
    (k : Nat) (d : Damage) :
    loadable (save cur (safeLoad (crashAt new k d (initial cfg old staleBak staleTmp))).1) = .state cur :=
  (save_then_load _ cur).1

/-- after a failing operation the same process saves again (no restart in between) -/
theorem fail_save_load {σ} (cfg : Cfg) (old new cur : σ) (staleBak staleTmp : File σ) (k : Nat)
    (tmpAfter : Option (File σ)) :
    loadable (save cur (failAt new k tmpAfter (initial cfg old staleBak staleTmp))) = .state cur :=
  (save_then_load _ cur).1

/-- a completed save leaves exactly the new file (stale temp gone; the backup is removed when
    the file existed before) -/
theorem save_complete {σ} (cfg : Cfg) (hc : cfg ≠ .none) (old new : σ) (staleBak staleTmp : File σ) :
    save new (initial cfg old staleBak staleTmp) = { main := some ⟨.whole new, true⟩ } := by
  cases cfg <;> first | exact absurd rfl hc | rfl

/-- the start-up load never raises on any store a crash or failure can leave behind -/
theorem crash_load_no_raise {σ} (cfg : Cfg) (old new : σ) (staleBak staleTmp : File σ) (k : Nat) (d : Damage) :
    loadable (crashAt new k d (initial cfg old staleBak staleTmp)) ≠ .raised := by
  rcases crash_atomic cfg old new staleBak staleTmp k d with h | h <;> rw [h] <;> cases cfg <;> simp [oldOf]

/-! The assumptions matter (non-vacuity of the model): without the `fsync`, i.e. when the temp
    file is renamed while its data is unsynced, a lossy crash after the renames loses *both*
    states.  This is a statement about the model's crash semantics, not about the code. -/
theorem unsynced_rename_would_lose {σ} (old new : σ) :
    loadable (crash { main := .toEmpty }
      (run new [.openTmp, .write, .flush, .close, .renMainBak, .renTmpMain, .rmBak]
        (initial .good old ⟨.empty, true⟩ ⟨.empty, true⟩))) = .emptyNet := by
  simp [initial, run, step, crash, crashFile, loadable, safeLoad, loadBackup, parse]

/-! Non-vacuity: concrete instances (σ = Nat: old = 1, new = 2). -/

example : loadable (crashAt 2 6 { tmp := .toDamaged } (initial .goodBoth 1 ⟨.damaged, false⟩ ⟨.whole 0, false⟩))
    = .state 1 := by decide
example : (crashAt 2 6 {} (initial .good 1 ⟨.empty, true⟩ ⟨.empty, true⟩) : Store Nat)
    = { main := none, bak := some ⟨.whole 1, true⟩, tmp := some ⟨.whole 2, true⟩ } := by decide
example : loadable (crashAt 2 7 {} (initial .good 1 ⟨.empty, true⟩ ⟨.empty, true⟩)) = .state 2 := by decide
example : loadable (crashAt 2 3 { tmp := .toEmpty } (initial .none 1 ⟨.empty, true⟩ ⟨.empty, true⟩)) = .emptyNet := by decide

end MySensors.C12
