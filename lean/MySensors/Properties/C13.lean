/-
  C13 — start-up survives damaged persistence files.

  Model: `safeLoad` of `MySensors/Model/Fs.lean` = `Persistence.safe_load_sensors` (main file,
  else backup renamed onto the main path, a bad backup is removed).  The parser is abstract:
  `parse` maps a complete file to `ok s`, an empty / truncated / zero-filled file to
  `badContent` — the exception classes the code catches (EOFError, ValueError,
  pickle.UnpicklingError) — and `hostile` content to `otherError`.  That every truncation and
  the zero-fill of real files is in the `badContent` class is what the harness enumerates.
-/
import MySensors.Model.Fs

namespace MySensors.C13

open MySensors.Fs

/-- the main file of the property's case list -/
inductive MainCase (σ : Type) where
  | absent | empty | damaged | good (s : σ)

/-- the backup of the property's case list -/
inductive BakCase (σ : Type) where
  | absent | damaged | empty | good (s : σ)

def MainCase.file {σ} (sync : Bool) : MainCase σ → Option (File σ)
  | .absent => none
  | .empty => some ⟨.empty, sync⟩
  | .damaged => some ⟨.damaged, sync⟩
  | .good s => some ⟨.whole s, sync⟩

def BakCase.file {σ} (sync : Bool) : BakCase σ → Option (File σ)
  | .absent => none
  | .empty => some ⟨.empty, sync⟩
  | .damaged => some ⟨.damaged, sync⟩
  | .good s => some ⟨.whole s, sync⟩

/-- what the property demands: the main file when it is intact, else the backup when it is
    intact, else the empty network -/
def expected {σ} : MainCase σ → BakCase σ → Loaded σ
  | .good s, _ => .state s
  | _, .good s => .state s
  | _, _ => .emptyNet

def store {σ} (m : MainCase σ) (b : BakCase σ) (t : Option (File σ)) (s1 s2 : Bool) : Store σ :=
  { main := m.file s1, bak := b.file s2, tmp := t }

/-- **Start-up result**, for every main × backup case (and any temp file, any sync flags) -/
theorem startup_result {σ} (m : MainCase σ) (b : BakCase σ) (t : Option (File σ)) (s1 s2 : Bool) :
    (safeLoad (store m b t s1 s2)).2 = expected m b := by
  cases m <;> cases b <;> rfl

/-- it never raises -/
theorem startup_never_raises {σ} (m : MainCase σ) (b : BakCase σ) (t : Option (File σ)) (s1 s2 : Bool) :
    (safeLoad (store m b t s1 s2)).2 ≠ .raised := by
  rw [startup_result]; cases m <;> cases b <;> simp [expected]

/-- the loaded state is one whole saved state (the main file's or the backup's) or empty:
    nothing is ever merged from two files or from a damaged one -/
theorem startup_whole_or_empty {σ} (m : MainCase σ) (b : BakCase σ) (t : Option (File σ)) (s1 s2 : Bool) :
    (safeLoad (store m b t s1 s2)).2 = .emptyNet ∨
    (∃ s, m = .good s ∧ (safeLoad (store m b t s1 s2)).2 = .state s) ∨
    (∃ s, b = .good s ∧ (safeLoad (store m b t s1 s2)).2 = .state s) := by
  rw [startup_result]; cases m <;> cases b <;> simp [expected]

/-- the same for **every** store, not only the listed cases: as long as no file content is in
    the `otherError` class, the load does not raise -/
theorem safeLoad_no_raise {σ} (st : Store σ)
    (hm : ∀ f, st.main = some f → f.data ≠ .hostile) (hb : ∀ f, st.bak = some f → f.data ≠ .hostile) :
    (safeLoad st).2 ≠ .raised := by
  unfold safeLoad loadBackup
  cases hM : st.main with
  | none =>
    cases hB : st.bak with
    | none => simp
    | some fb =>
      have := hb fb hB
      cases hd : fb.data <;> simp_all [parse]
  | some fm =>
    have h1 := hm fm hM
    cases hd : fm.data <;> simp_all [parse]
    all_goals
      cases hB : st.bak with
      | none => simp
      | some fb =>
        have := hb fb hB
        cases hd' : fb.data <;> simp_all [parse]

/-- the files a start-up leaves behind: an intact main file is not touched; otherwise an
    existing backup is moved onto the main path and, if it is bad too, removed -/
theorem startup_files {σ} (m : MainCase σ) (b : BakCase σ) (t : Option (File σ)) (s1 s2 : Bool) :
    (safeLoad (store m b t s1 s2)).1 =
      match m, b with
      | .good _, _ => store m b t s1 s2
      | _, .good s => { main := some ⟨.whole s, s2⟩, bak := none, tmp := t }
      | _, .absent => store m b t s1 s2
      | _, _ => { main := none, bak := none, tmp := t } := by
  cases m <;> cases b <;> rfl

/-- a second start-up after the first gives the same network (the load's renames are stable) -/
theorem startup_idempotent {σ} (m : MainCase σ) (b : BakCase σ) (t : Option (File σ)) (s1 s2 : Bool) :
    (safeLoad (safeLoad (store m b t s1 s2)).1).2 = (safeLoad (store m b t s1 s2)).2 := by
  cases m <;> cases b <;> rfl

/-- Why the classification assumption is needed (the behaviour of the tree before the
    `fix:` commit for pickle files, where a truncated pickle raised an exception class that was
    not caught): content in the `otherError` class makes start-up raise. -/
theorem hostile_main_raises {σ} (b : Option (File σ)) (t : Option (File σ)) (s : Bool) :
    (safeLoad ({ main := some ⟨.hostile, s⟩, bak := b, tmp := t } : Store σ)).2 = .raised := rfl

theorem hostile_backup_raises {σ} (t : Option (File σ)) (s : Bool) :
    (safeLoad ({ main := none, bak := some ⟨.hostile, s⟩, tmp := t } : Store σ)).2 = .raised := rfl

/-! Non-vacuity -/
example : (safeLoad (store (.damaged : MainCase Nat) (.good 7) none true true)).2 = .state 7 := rfl
example : (safeLoad (store (.empty : MainCase Nat) .damaged none true true)) = ({}, .emptyNet) := rfl
example : (safeLoad (store (.good 3 : MainCase Nat) (.good 7) none true true)).2 = .state 3 := rfl

end MySensors.C13
