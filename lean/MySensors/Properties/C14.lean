/-
  C14 — a clean stop loses nothing.

  Model: `MySensors.step` (Model/Gateway.lean) with persistence abstracted to "the file holds
  the persisted projection written by the last successful save" (`save`, `restart`); the file
  formats are C11's business, the atomicity of the save C12's.  Histories are arbitrary lists
  of ops: inbound lines of every handler kind (valid or not), controller calls, firmware
  updates, clock changes, periodic save ticks at arbitrary positions, stops and restarts.
-/
import MySensors.Lemmas.GwHist

namespace MySensors.C14

open MySensors

/-- every state-changing step marks the state unsaved: if a non-save step changes what
    persistence keeps, `need_save` is set afterwards (one case per handler in the proof). -/
theorem change_marks_dirty (g : GW) (op : Op) (hplain : op.plain = true) (hk : KeyRange g)
    (hp : g.persist = true) (hch : (step g op).1.persisted ≠ g.persisted) :
    (step g op).1.needSave = true := by
  have ht := tr_step g op hplain hk
  rcases ht.mark with ⟨pe, _⟩ | d
  · exact absurd pe hch
  · exact d (by rw [ht.persist]; exact hp)

/-- invariant over every history: whenever the state is not marked unsaved the file holds
    exactly the current nodes, children, values and attributes -/
theorem clean_invariant (g0 : GW) (ops : List Op) (hk : KeyInv g0) (hc : Clean g0) :
    Clean (run g0 ops) := (inv_run g0 ops hk hc).2

/-- **C14**: after any history, `stop()` followed by a fresh start on the same file reproduces
    every node, child, value and attribute the gateway held when it stopped. -/
theorem clean_stop_loses_nothing (g0 : GW) (ops : List Op) (hk : KeyInv g0) (hc : Clean g0)
    (hp : g0.persist = true) :
    (restart (step (run g0 ops) .stop).1).persisted = (run g0 ops).persisted :=
  stop_restart_persisted _ (by rw [persist_run g0 ops hk]; exact hp) (clean_invariant g0 ops hk hc)

/-- the same from a freshly constructed gateway, any protocol version and gateway kind -/
theorem clean_stop_loses_nothing_fresh (c : ConstId) (k : Kind) (ops : List Op) :
    (restart (step (run (freshGW c k) ops) .stop).1).persisted = (run (freshGW c k) ops).persisted :=
  clean_stop_loses_nothing _ ops (freshGW_inv c k).1 (freshGW_inv c k).2 rfl

/-- stop writes the file whenever something is unsaved, and then the state is clean -/
theorem stop_writes (g : GW) (hp : g.persist = true) (hc : Clean g) :
    (step g .stop).1.disk = some g.persisted := by
  by_cases h : g.needSave = true
  · exact ((save_spec g).2.2.1 hp h).1
  · simp only [step]; rw [(save_spec g).2.2.2 (fun hh => h hh.2)]; exact hc hp (by simpa using h)

/-- the shutdown window at gateway level: lines the pump still handles after `stop()` has taken the
    connection down are ordinary steps of the model (what they would send is dropped by the transport, see
    `C14.nothing_handed_after_disconnect`); the final save that follows writes the state they left, so the
    restart reproduces it.  (The order of the two actions inside stop() and the dirty-flag protocol of a
    save that overlaps with handled lines are the subject of Properties/C14Stop.lean.) -/
theorem stop_covers_late_lines (c : ConstId) (k : Kind) (pre : List Op) (late : List Str) :
    let g := run (freshGW c k) (pre ++ late.map Op.line)
    (step g .stop).1.disk = some g.persisted ∧ (restart (step g .stop).1).persisted = g.persisted := by
  intro g
  have hk := (freshGW_inv c k).1
  have hc := (freshGW_inv c k).2
  refine ⟨stop_writes g ?_ (clean_invariant _ _ hk hc), clean_stop_loses_nothing_fresh c k _⟩
  show (run (freshGW c k) (pre ++ late.map Op.line)).persist = true
  rw [persist_run _ _ hk]; rfl

/-! Non-vacuity: an id request right after a periodic save (the history that lost the node
    before the `fix:` commit) is covered, and the file really changes. -/

def idRequestAfterSave : List Op := [.saveTick, .line "255;255;3;0;3;\n".toList]

example : (akeys (run (freshGW .v20 .base) idRequestAfterSave).sensors) = [1] := by decide +kernel
example : (run (freshGW .v20 .base) idRequestAfterSave).needSave = true := by decide +kernel
example : akeys (restart (step (run (freshGW .v20 .base) idRequestAfterSave) .stop).1).sensors = [1] := by
  decide +kernel

end MySensors.C14
