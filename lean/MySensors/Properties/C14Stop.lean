/-
  C14 / C06 — the shutdown window and the dirty flag.  `clean_stop_window`: whatever lines the pump
  handles before and while stop() runs, whatever periodic saves ran (or were still running a moment)
  before, every change whose reply went out on the wire is in the file when stop() is done — because
  the connection is taken down before the final save, and because `need_save` is cleared before the
  snapshot is taken, never after.  `reversed_order_loses` and `late_clear_loses` show that both
  orders matter.  The harness ties the model to the code by recording the order of
  `transport.disconnect` and `persistence.save_sensors` inside the real `stop()` of both flavours and
  by handling real id requests at every one of the places the model distinguishes (harness/stopwin.py).
-/
import MySensors.Model.StopOrder

namespace MySensors.C14

open MySensors.StopOrder

theorem window_run_append (s : St) (a b : List Ev) : run s (a ++ b) = run (run s a) b := by
  induction a generalizing s with
  | nil => rfl
  | cons e a ih => simp [run, ih]

theorem step_saveEnd_some (s : St) (k : List Nat) (h : s.snap = some k) :
    step s .saveEnd = { s with file := k, snap := none } := by
  simp only [step]; rw [h]

theorem step_saveEnd_none (s : St) (h : s.snap = none) : step s .saveEnd = s := by
  simp only [step]; rw [h]

/-- what every reachable state satisfies: replies went out only for changes made in memory, and when
    the network is marked saved every change is in the snapshot being written, or in the file -/
structure Inv (s : St) : Prop where
  handed : ∀ c ∈ s.handed, c ∈ s.known
  clean : s.dirty = false → ∀ c ∈ s.known, c ∈ s.snap.getD s.file

theorem inv_step (s : St) (e : Ev) (h : Inv s) : Inv (step s e) := by
  cases e with
  | proc c =>
    refine ⟨?_, by simp [step]⟩
    intro x hx
    simp only [step] at hx ⊢
    split at hx
    · rcases List.mem_cons.mp hx with rfl | h'
      · exact List.mem_cons_self
      · exact List.mem_cons_of_mem _ (h.handed x h')
    · exact List.mem_cons_of_mem _ (h.handed x hx)
  | disconnect => exact ⟨by simpa [step] using h.handed, by simpa [step] using h.clean⟩
  | saveStart =>
    simp only [step]
    split
    · exact h
    · split
      · exact ⟨by simpa using h.handed, by simp⟩
      · exact h
  | saveEnd =>
    simp only [step]
    split
    · rename_i k hk
      exact ⟨by simpa using h.handed, by intro hd c hc; simpa [hk] using h.clean hd c hc⟩
    · exact h

theorem inv_run (evs : List Ev) (s : St) (h : Inv s) : Inv (run s evs) := by
  induction evs generalizing s with
  | nil => exact h
  | cons e evs ih => exact ih _ (inv_step s e h)

/-- pump work after the disconnect hands nothing out and touches neither the file nor a running save -/
theorem procs_offline (evs : List Ev) (hp : OnlyProc evs) (s : St) (hc : s.connected = false) :
    (run s evs).handed = s.handed ∧ (run s evs).file = s.file ∧ (run s evs).snap = s.snap ∧
    (run s evs).connected = false ∧ (∀ c ∈ s.known, c ∈ (run s evs).known) := by
  induction evs generalizing s with
  | nil => exact ⟨rfl, rfl, rfl, hc, fun _ h => h⟩
  | cons e evs ih =>
    obtain ⟨c, rfl⟩ := hp e (by simp)
    obtain ⟨h1, h2, h3, h4, h5⟩ := ih (fun e he => hp e (by simp [he])) (step s (.proc c)) (by simp [step, hc])
    refine ⟨by simpa [run, step, hc] using h1, by simpa [run, step] using h2, by simpa [run, step] using h3, h4, ?_⟩
    intro x hx
    exact h5 x (by simp [step, hx])

/-- **the shutdown window is safe**: let anything at all happen first (`pre`: lines, periodic saves,
    complete or not), then stop() — disconnect, final save — with pump work before the final save
    (`mid`), while it writes (`w`) and after it (`post`); if no earlier save is still running when the
    final one starts, every change handed out is in the file at the end. -/
theorem clean_stop_window (pre mid w post : List Ev) (s : St) (hinv : Inv s)
    (hmid : OnlyProc mid) (hw : OnlyProc w) (hpost : OnlyProc post)
    (hidle : (run s (pre ++ .disconnect :: mid)).snap = none) :
    let fin := run s (pre ++ .disconnect :: mid ++ .saveStart :: w ++ .saveEnd :: post)
    ∀ c ∈ fin.handed, c ∈ fin.file := by
  intro fin
  have e1 : fin = run (step (run (step (run s (pre ++ .disconnect :: mid)) .saveStart) w) .saveEnd) post := by
    simp only [fin, window_run_append, run, List.append_assoc, List.cons_append]
  -- the state when the final save starts
  have hI := inv_run (pre ++ .disconnect :: mid) s hinv
  have hoff : (run s (pre ++ .disconnect :: mid)).connected = false := by
    rw [window_run_append]
    exact (procs_offline mid hmid (step (run s pre) .disconnect) (by simp [step])).2.2.2.1
  generalize run s (pre ++ .disconnect :: mid) = s1 at hI hoff hidle e1
  by_cases hd : s1.dirty = true
  · -- the final save writes a snapshot of everything known now
    have hs2 : step s1 .saveStart = { s1 with dirty := false, snap := some s1.known } := by
      simp [step, hidle, hd]
    obtain ⟨a1, a2, a3, a4, _⟩ := procs_offline w hw (step s1 .saveStart) (by simp [hs2, hoff])
    have hsnap : (run (step s1 .saveStart) w).snap = some s1.known := by rw [a3, hs2]
    have hs3 := step_saveEnd_some _ _ hsnap
    obtain ⟨b1, b2, _, _, _⟩ := procs_offline post hpost (step (run (step s1 .saveStart) w) .saveEnd)
      (by simp [hs3, a4])
    intro c hc
    rw [e1, b1, hs3] at hc
    rw [e1, b2, hs3]
    simp only at hc ⊢
    rw [a1, hs2] at hc
    exact hI.handed c hc
  · -- nothing is marked unsaved: the file already holds everything known
    have hd' : s1.dirty = false := by simpa using hd
    have hs2 : step s1 .saveStart = s1 := by simp [step, hidle, hd']
    obtain ⟨a1, a2, a3, a4, _⟩ := procs_offline w hw s1 hoff
    have hsnap : (run s1 w).snap = none := by rw [a3, hidle]
    have hs3 := step_saveEnd_none _ hsnap
    obtain ⟨b1, b2, _, _, _⟩ := procs_offline post hpost (run s1 w) a4
    intro c hc
    rw [e1, hs2, hs3, b1, a1] at hc
    rw [e1, hs2, hs3, b2, a2]
    have := hI.clean hd' c (hI.handed c hc)
    simpa [hidle] using this

/-- the initial state of a fresh gateway satisfies the invariant -/
theorem inv_init : Inv {} := ⟨by simp, by simp⟩

/-- the hypotheses are met by a concrete busy schedule: a periodic save with a line handled while it
    writes, then stop() with pump work in all three places -/
example :
    let pre := [Ev.proc 1, .saveStart, .proc 2, .saveEnd]
    (run {} (pre ++ .disconnect :: [Ev.proc 3])).snap = none ∧
    (run {} (pre ++ .disconnect :: [Ev.proc 3] ++ .saveStart :: [Ev.proc 4] ++ .saveEnd :: [Ev.proc 5])).handed = [2, 1] ∧
    (run {} (pre ++ .disconnect :: [Ev.proc 3] ++ .saveStart :: [Ev.proc 4] ++ .saveEnd :: [Ev.proc 5])).file = [3, 2, 1] := by
  decide

/-- **the order inside stop() matters**: with the final save before the disconnect, a line handled in
    between is answered but not saved. -/
theorem reversed_order_loses :
    ∃ evs, ∃ c ∈ (run {} evs).handed, c ∉ (run {} evs).file :=
  ⟨[.saveStart, .saveEnd, .proc 7, .disconnect], 7, by decide, by decide⟩

/-- **when the flag is cleared matters**: if `need_save` is cleared after the file is swapped in
    instead of before the snapshot is taken, a line handled while a periodic save writes is answered,
    marked saved, and never written — not even by stop(). -/
theorem late_clear_loses :
    ∃ evs, (∃ pre, evs = pre ++ script) ∧ ∃ c ∈ (runLate {} evs).handed, c ∉ (runLate {} evs).file :=
  ⟨[.proc 1, .saveStart, .proc 2, .saveEnd] ++ script, ⟨_, rfl⟩, 2, by decide, by decide⟩

/-- nothing is handed out after the disconnect, whatever else happens -/
theorem nothing_handed_after_disconnect (evs : List Ev) (s : St) (hc : s.connected = false) :
    (run s evs).handed = s.handed := by
  induction evs generalizing s with
  | nil => rfl
  | cons e evs ih =>
    have hboth : (step s e).connected = false ∧ (step s e).handed = s.handed := by
      cases e with
      | proc c => simp [step, hc]
      | disconnect => simp [step]
      | saveStart =>
        simp only [step]
        split
        · exact ⟨hc, rfl⟩
        · split
          · exact ⟨hc, rfl⟩
          · exact ⟨hc, rfl⟩
      | saveEnd =>
        simp only [step]
        split
        · exact ⟨hc, rfl⟩
        · exact ⟨hc, rfl⟩
    obtain ⟨hc', hh⟩ := hboth
    simpa [run, hh] using ih (step s e) hc'

end MySensors.C14
