/-
  C14 / C06 — the shutdown window.  `clean_stop_window`: whatever lines the pump still handles while
  stop() runs, and wherever they fall relative to stop()'s two actions, every change whose reply
  went out on the wire is in the file when stop() is done — because the connection is taken down
  before the final save.  `reversed_order_loses` shows the order matters (the save-then-disconnect
  variant hands out a change that is not in the file).  The harness ties `StopOrder.script` to the
  code by recording the order of `transport.disconnect` and `persistence.save_sensors` inside the
  real `stop()` of both flavours, and by handling a real line at the moment of the disconnect.
-/
import MySensors.Model.StopOrder

namespace MySensors.C14

open MySensors.StopOrder

theorem window_run_append (s : St) (a b : List Ev) : run s (a ++ b) = run (run s a) b := by
  induction a generalizing s with
  | nil => rfl
  | cons e a ih => simp [run, ih]

/-- after the final save: nothing is connected, nothing more is handed out -/
theorem window_phase2 (evs : List Ev) (s : St) (hc : s.connected = false) (hs : ∀ c ∈ s.handed, c ∈ s.file)
    (ha : stopActions evs = []) : ∀ c ∈ (run s evs).handed, c ∈ (run s evs).file := by
  induction evs generalizing s with
  | nil => simpa [run] using hs
  | cons e evs ih =>
    cases e with
    | proc c => exact ih (step s (.proc c)) (by simp [step, hc]) (by simpa [step, hc] using hs) (by simpa [stopActions] using ha)
    | disconnect => simp [stopActions] at ha
    | save => simp [stopActions] at ha

/-- between the disconnect and the save: handed ⊆ known and the connection is down -/
theorem window_phase1 (evs : List Ev) (s : St) (hc : s.connected = false) (hs : ∀ c ∈ s.handed, c ∈ s.known)
    (ha : stopActions evs = [.save]) : ∀ c ∈ (run s evs).handed, c ∈ (run s evs).file := by
  induction evs generalizing s with
  | nil => simp [stopActions] at ha
  | cons e evs ih =>
    cases e with
    | proc c =>
      refine ih (step s (.proc c)) (by simp [step, hc]) ?_ (by simpa [stopActions] using ha)
      intro x hx
      simp only [step, hc] at hx ⊢
      exact List.mem_cons_of_mem _ (hs x (by simpa using hx))
    | disconnect => simp [stopActions] at ha
    | save =>
      simp only [stopActions, List.cons.injEq, true_and] at ha
      exact window_phase2 evs (step s .save) (by simp [step, hc]) (by simpa [step] using hs) ha

/-- **the shutdown window is safe**: for every schedule in which stop() performs `disconnect` and then
    `save` (pump work anywhere before, between and after), every change handed out is in the file. -/
theorem clean_stop_window (evs : List Ev) (s : St) (hs : ∀ c ∈ s.handed, c ∈ s.known)
    (ha : stopActions evs = script) : ∀ c ∈ (run s evs).handed, c ∈ (run s evs).file := by
  induction evs generalizing s with
  | nil => simp [stopActions, script] at ha
  | cons e evs ih =>
    cases e with
    | proc c =>
      refine ih (step s (.proc c)) ?_ (by simpa [stopActions] using ha)
      intro x hx
      simp only [step] at hx ⊢
      split at hx
      · rcases List.mem_cons.mp hx with h | h
        · subst h; exact List.mem_cons_self
        · exact List.mem_cons_of_mem _ (hs x h)
      · exact List.mem_cons_of_mem _ (hs x hx)
    | disconnect =>
      simp only [stopActions, script, List.cons.injEq, true_and] at ha
      exact window_phase1 evs (step s .disconnect) (by simp [step]) (by simpa [step] using hs) ha
    | save => simp [stopActions, script] at ha

/-- the hypothesis is met by the code's own order with pump work in all three places -/
example : stopActions [.proc 1, .disconnect, .proc 2, .save, .proc 3] = script := by decide

example : (run {} [.proc 1, .disconnect, .proc 2, .save, .proc 3]).handed = [1] ∧
    (run {} [.proc 1, .disconnect, .proc 2, .save, .proc 3]).file = [2, 1] := by decide

/-- **the order matters**: with the final save before the disconnect, a line handled in between is
    answered but not saved. -/
theorem reversed_order_loses :
    ∃ evs, stopActions evs = [.save, .disconnect] ∧
      ∃ c ∈ (run {} evs).handed, c ∉ (run {} evs).file :=
  ⟨[.save, .proc 7, .disconnect], by decide, 7, by decide, by decide⟩

/-- nothing is handed out after the disconnect, whatever else happens -/
theorem nothing_handed_after_disconnect (evs : List Ev) (s : St) (hc : s.connected = false) :
    (run s evs).handed = s.handed := by
  induction evs generalizing s with
  | nil => rfl
  | cons e evs ih =>
    cases e with
    | proc c => simpa [run, step, hc] using ih (step s (.proc c)) (by simp [step, hc])
    | disconnect => simpa [run, step] using ih (step s .disconnect) (by simp [step])
    | save => simpa [run, step] using ih (step s .save) (by simp [step, hc])

end MySensors.C14
