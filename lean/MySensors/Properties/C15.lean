/-
  C15 — periodic saving heals itself.

  Model: `MySensors/Model/Sched.lean` (scheduler of both flavours, `need_save` protocol of
  `save_sensors` as now written) over the file store of `MySensors/Model/Fs.lean`.
  Theorems quantify over every flavour, every network state (σ arbitrary), every sequence of
  events (messages between saves; scheduled saves whose outcome is ok / OSError at any file
  operation / permission denied / network changed during the dump with or without the dump
  failing), and every store whose main file is absent or complete.
-/
import MySensors.Model.Sched

namespace MySensors.C15

open MySensors.Fs MySensors.Sched

/-- every scheduled save, whatever its outcome, arms the next one -/
theorem tick_rearms {σ} (fl : Flavour) (o : Outcome σ) (s : Sys σ) :
    (tick fl o s).armed = true ∧ (tick fl o s).rounds = s.rounds + 1 := by
  refine ⟨rfl, ?_⟩
  show (saveSensors o s).1.rounds + 1 = s.rounds + 1
  congr 1
  unfold saveSensors
  cases s.needSave
  · rfl
  · cases o with
    | ok => rfl
    | denied => rfl
    | ioError op => simp only [Bool.not_true, Bool.false_eq_true, if_false]; split <;> rfl
    | mutatedErr s' => rfl
    | mutatedOk snap s' => rfl

def ticks {σ} : List (Event σ) → Nat
  | [] => 0
  | .tick _ :: es => ticks es + 1
  | .msg _ :: es => ticks es

theorem handleMessage_armed {σ} (s' : σ) (s : Sys σ) :
    (handleMessage s' s).armed = s.armed ∧ (handleMessage s' s).rounds = s.rounds := ⟨rfl, rfl⟩

/-- **The schedule never stops**: after any sequence of tick outcomes and messages the
    schedule is still armed, and exactly one new timer / loop round was started per tick. -/
theorem schedule_stays_armed {σ} (fl : Flavour) (es : List (Event σ)) (s : Sys σ) (h : s.armed = true) :
    (runEv fl s es).armed = true ∧ (runEv fl s es).rounds = s.rounds + ticks es := by
  induction es generalizing s with
  | nil => exact ⟨h, rfl⟩
  | cons e es ih =>
    cases e with
    | tick o =>
      have ht := tick_rearms fl o s
      have := ih (tick fl o s) ht.1
      simp only [runEv, stepEv, ticks]
      refine ⟨this.1, ?_⟩
      rw [this.2, ht.2]; omega
    | msg s' =>
      have := ih (handleMessage s' s) h
      simp only [runEv, stepEv, ticks]
      exact ⟨this.1, by rw [this.2]; rfl⟩

/-- the first tick arms the schedule even when it fails (`start_persistence` calls
    `schedule_save_sensors()` directly) -/
theorem first_tick_arms {σ} (fl : Flavour) (empty : σ) (disk : Store σ) (o : Outcome σ) :
    (tick fl o (start empty disk)).armed = true := (tick_rearms fl o _).1

theorem step_mainOk {σ} (new : σ) (st : Store σ) (h : MainOk st) (ops : List FsOp)
    (hops : ops = saveOps (fileExists st)) (op : FsOp) :
    MainOk (run new (before op ops) st) := by
  subst hops
  rcases h with h | ⟨x, b, h⟩
  · cases op <;> simp [MainOk, fileExists, h, saveOps, before, run, step, syncFile]
  · cases op <;> simp [MainOk, fileExists, h, saveOps, before, run, step, syncFile]

theorem save_mainOk {σ} (new : σ) (st : Store σ) : MainOk (save new st) :=
  Or.inr ⟨new, true, by
    cases hm : st.main <;> simp [save, fileExists, hm, saveOps, run, step, syncFile]⟩

/-- `MainOk` is an invariant of every event -/
theorem tick_mainOk {σ} (fl : Flavour) (o : Outcome σ) (s : Sys σ) (h : MainOk s.disk) :
    MainOk (tick fl o s).disk := by
  unfold tick saveSensors
  cases hn : s.needSave
  · simpa using h
  · cases o with
    | ok => simpa using save_mainOk _ _
    | denied => simpa using h
    | ioError op =>
      simp only [Bool.not_true, Bool.false_eq_true, if_false]
      split
      · exact step_mainOk _ _ h _ rfl op
      · exact save_mainOk _ _
    | mutatedErr s' =>
      rcases h with h | ⟨x, b, h⟩ <;> simp [handleMessage, MainOk, run, step, h]
    | mutatedOk snap s' => simpa [handleMessage] using save_mainOk _ _

theorem runEv_mainOk {σ} (fl : Flavour) (es : List (Event σ)) (s : Sys σ) (h : MainOk s.disk) :
    MainOk (runEv fl s es).disk := by
  induction es generalizing s with
  | nil => exact h
  | cons e es ih =>
    cases e with
    | tick o => exact ih _ (tick_mainOk fl o s h)
    | msg s' => exact ih _ h

/-- what a failing file operation leaves loadable: the previous state, except that a failing
    `remove` of the backup leaves the complete new file in place -/
theorem failing_op_loadable {σ} (new : σ) (st : Store σ) (h : MainOk st) (op : FsOp)
    (_hop : op ∈ saveOps (fileExists st)) :
    loadable (run new (before op (saveOps (fileExists st))) st) =
      if op = .rmBak then .state new else loadable st := by
  rcases h with h | ⟨x, b, h⟩
  · cases hb : st.bak with
    | none =>
      cases op <;> simp [fileExists, h, hb, saveOps, before, run, step, loadable, safeLoad, loadBackup, syncFile] at _hop ⊢
    | some fb =>
      cases op <;> simp [fileExists, h, hb, saveOps, before, run, step, loadable, safeLoad, loadBackup, syncFile] at _hop ⊢
      all_goals (cases parse fb.data <;> rfl)
  · cases op <;> simp [fileExists, h, saveOps, before, run, step, loadable, safeLoad, loadBackup, parse, syncFile]

/-- **A failing scheduled save** (OSError at any file operation, or the network changing under
    the dump) leaves the state marked unsaved, the schedule armed, and on disk either exactly
    what was loadable before or (only when it was the final `remove` that failed) the complete
    state that was being saved. -/
theorem failing_tick {σ} (fl : Flavour) (o : Outcome σ) (s : Sys σ) (hn : s.needSave = true)
    (hm : MainOk s.disk) (hf : o.fails s.disk = true) :
    (tick fl o s).needSave = true ∧ (tick fl o s).armed = true ∧
    (loadable (tick fl o s).disk = loadable s.disk ∨
      (o = .ioError .rmBak ∧ loadable (tick fl o s).disk = .state s.cur)) := by
  refine ⟨?_, (tick_rearms fl o s).1, ?_⟩
  · cases o <;> simp_all [tick, saveSensors, Outcome.fails, handleMessage]
  · cases o with
    | ok => simp [Outcome.fails] at hf
    | denied => simp [Outcome.fails] at hf
    | mutatedOk _ _ => simp [Outcome.fails] at hf
    | ioError op =>
      have hop : op ∈ saveOps (fileExists s.disk) := by simpa [Outcome.fails] using hf
      have := failing_op_loadable s.cur s.disk hm op hop
      simp only [tick, saveSensors, hn, Bool.not_true, Bool.false_eq_true, if_false, hop, if_true]
      by_cases hr : op = .rmBak
      · right; exact ⟨by rw [hr], by rw [this, if_pos hr]⟩
      · left; rw [this, if_neg hr]
    | mutatedErr s' =>
      left
      simp only [tick, saveSensors, hn, Bool.not_true, Bool.false_eq_true, if_false, handleMessage]
      exact (load_ignores_tmp' _ _)
where
  load_ignores_tmp' {σ} (st : Store σ) (new : σ) :
      loadable (run new [.openTmp, .write] st) = loadable st := by
    simp only [run, step, loadable, safeLoad, loadBackup]
    cases st.main <;> cases st.bak <;> simp <;> (repeat' split) <;> simp_all

/-- a save refused by the permission check changes nothing and keeps the state marked unsaved -/
theorem denied_tick {σ} (fl : Flavour) (s : Sys σ) (hn : s.needSave = true) :
    (tick fl .denied s).needSave = true ∧ (tick fl .denied s).disk = s.disk ∧
    (tick fl .denied s).cur = s.cur ∧ (tick fl .denied s).armed = true := by
  simp [tick, saveSensors, hn]

/-- a successful save writes the current state and clears the mark -/
theorem ok_tick_writes {σ} (fl : Flavour) (s : Sys σ) (hn : s.needSave = true) :
    loadable (tick fl .ok s).disk = .state s.cur ∧ (tick fl .ok s).needSave = false ∧
    (tick fl .ok s).cur = s.cur := by
  have e : tick fl .ok s = { s with needSave := false, disk := save s.cur s.disk, armed := true, rounds := s.rounds + 1 } := by
    simp [tick, saveSensors, hn]
  rw [e]; exact ⟨save_loads _ _, rfl, rfl⟩
where
  save_loads {σ} (st : Store σ) (cur : σ) : loadable (save cur st) = .state cur := by
    cases hm : st.main <;>
      simp [save, fileExists, hm, saveOps, run, step, loadable, safeLoad, parse, syncFile]

/-- **No lost update**: a message handled *during* a successful dump leaves the state marked
    unsaved (the flag is cleared before the dump, not after it), so the next tick saves again. -/
theorem mutated_during_ok_dump {σ} (fl : Flavour) (snap s' : σ) (s : Sys σ) (hn : s.needSave = true) :
    (tick fl (.mutatedOk snap s') s).needSave = true ∧ (tick fl (.mutatedOk snap s') s).cur = s' ∧
    loadable (tick fl (.mutatedOk snap s') s).disk = .state snap := by
  have e : tick fl (.mutatedOk snap s') s = { s with cur := s', needSave := true, disk := save snap s.disk, armed := true, rounds := s.rounds + 1 } := by
    simp [tick, saveSensors, hn, handleMessage]
  rw [e]; exact ⟨rfl, rfl, ok_tick_writes.save_loads _ _⟩

/-- `Clean` (not marked unsaved ⇒ the disk holds the current state) is an invariant -/
theorem tick_clean {σ} (fl : Flavour) (o : Outcome σ) (s : Sys σ) (hc : Clean s) :
    Clean (tick fl o s) := by
  cases hn : s.needSave
  · have : tick fl o s = { s with armed := true, rounds := s.rounds + 1 } := by
      simp [tick, saveSensors, hn]
    rw [this]; intro h; exact hc hn
  · cases o with
    | ok => intro _; rw [(ok_tick_writes fl s hn).2.2]; exact (ok_tick_writes fl s hn).1
    | denied => intro h; simp [tick, saveSensors, hn] at h
    | ioError op =>
      intro h
      by_cases hop : op ∈ saveOps (fileExists s.disk)
      · simp [tick, saveSensors, hn, hop] at h
      · have e : tick fl (.ioError op) s = { s with needSave := false, disk := save s.cur s.disk, armed := true, rounds := s.rounds + 1 } := by
          simp [tick, saveSensors, hn, hop]
        rw [e]; exact ok_tick_writes.save_loads _ _
    | mutatedErr s' => intro h; simp [tick, saveSensors, hn, handleMessage] at h
    | mutatedOk snap s' => intro h; simp [tick, saveSensors, hn, handleMessage] at h

theorem runEv_clean {σ} (fl : Flavour) (es : List (Event σ)) (s : Sys σ) (hc : Clean s) :
    Clean (runEv fl s es) := by
  induction es generalizing s with
  | nil => exact hc
  | cons e es ih =>
    cases e with
    | tick o => exact ih _ (tick_clean fl o s hc)
    | msg s' => exact ih _ (by intro h; simp [stepEv, handleMessage] at h)

/-- **Healing**: after *any* history of messages, failing saves, refused saves and saves
    disturbed by concurrent messages, the first scheduled save that succeeds leaves on disk
    exactly the network state of that moment, marks it saved, and the schedule goes on. -/
theorem heals {σ} (fl : Flavour) (es : List (Event σ)) (s : Sys σ) (hc : Clean s) :
    let s1 := runEv fl s es
    let s2 := tick fl .ok s1
    loadable s2.disk = .state s1.cur ∧ s2.cur = s1.cur ∧ s2.needSave = false ∧ s2.armed = true := by
  intro s1 s2
  have hc1 : Clean s1 := runEv_clean fl es s hc
  refine ⟨?_, ?_, ?_, (tick_rearms fl .ok s1).1⟩
  · cases hn : s1.needSave
    · have : s2.disk = s1.disk := by simp [s2, tick, saveSensors, hn]
      rw [this]; exact hc1 hn
    · exact (ok_tick_writes fl s1 hn).1
  · cases hn : s1.needSave
    · simp [s2, tick, saveSensors, hn]
    · exact (ok_tick_writes fl s1 hn).2.2
  · cases hn : s1.needSave
    · simp [s2, tick, saveSensors, hn]
    · exact (ok_tick_writes fl s1 hn).2.1

/-- a freshly started gateway satisfies the hypotheses of `heals` (`need_save` starts True) -/
theorem start_clean {σ} (empty : σ) (disk : Store σ) : Clean (start empty disk) := by
  intro h; simp [start] at h

/-- after failures only, the state is still marked unsaved: nothing is forgotten -/
theorem failures_keep_mark {σ} (fl : Flavour) (os : List (Outcome σ)) (s : Sys σ) (hn : s.needSave = true)
    (hall : ∀ o ∈ os, (∃ op, o = .ioError op) ∨ o = .denied ∨ ∃ s', o = .mutatedErr s') :
    (runEv fl s (os.map .tick)).needSave = true ∨
    loadable (runEv fl s (os.map .tick)).disk = .state (runEv fl s (os.map .tick)).cur := by
  induction os generalizing s with
  | nil => exact Or.inl hn
  | cons o os ih =>
    have hrest : ∀ o ∈ os, (∃ op, o = .ioError op) ∨ o = .denied ∨ ∃ s', o = .mutatedErr s' :=
      fun o ho => hall o (List.mem_cons_of_mem _ ho)
    simp only [List.map_cons, runEv, stepEv]
    by_cases hk : (tick fl o s).needSave = true
    · exact ih _ hk hrest
    · -- the only way a tick of this list clears the mark: an `ioError` on an operation the
      -- save does not perform, i.e. a successful save
      have hcl : Clean (tick fl o s) := tick_clean fl o s (by intro h; rw [hn] at h; cases h)
      have hcl' := runEv_clean fl (os.map .tick) _ hcl
      by_cases hk' : (runEv fl (tick fl o s) (os.map .tick)).needSave = true
      · exact Or.inl hk'
      · exact Or.inr (hcl' (by simpa using hk'))

/-- Contrast — the scheduler before the `fix:` commit: one failing save ends the schedule.
    (Shows that `schedule_stays_armed` is a property of the re-arming code, not of the model's
    shape.) -/
theorem unfixed_scheduler_counterexample :
    (tickUnfixed .sync (.ioError .renTmpMain) ({ cur := 1, armed := true } : Sys Nat)).armed = false ∧
    (tickUnfixed .async (.mutatedErr 2) ({ cur := 1, armed := true } : Sys Nat)).armed = false := by
  decide

/-! Non-vacuity: a concrete run (σ = Nat).  Start on an old file holding 1 while memory
    holds 5; the rename fails; a message makes it 6; the dump is disturbed; then a save works. -/
example :
    let s0 : Sys Nat := { cur := 5, disk := { main := some ⟨.whole 1, true⟩ }, armed := true }
    let s1 := runEv .sync s0 [.tick (.ioError .renTmpMain), .msg 6, .tick (.mutatedErr 7), .tick .denied]
    s1.needSave = true ∧ s1.armed = true ∧ s1.rounds = 3 ∧ loadable s1.disk = .state 1 ∧
    loadable (tick .sync .ok s1).disk = .state 7 := by decide

example : (Outcome.ioError .renTmpMain : Outcome Nat).fails { main := some ⟨.whole 1, true⟩ } = true := by decide

end MySensors.C15
