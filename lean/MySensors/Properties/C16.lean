/-
  C16 — sending races safely with connection loss and shutdown.

  Model: `MySensors/Model/Transport.lean` (threads = programs of shared-access steps over the
  cells `Transport.protocol`, `protocol.transport` and the fake connections; interleaving
  semantics `run : Cfg → List Nat → Cfg` where **every** list of thread indices is a schedule).

  How the "for every interleaving" quantifier is discharged.  The thread programs are finite,
  so each scenario has a finite computation tree.  `explored` is a kernel-evaluated
  (`decide +kernel`, no axiom, no `native_decide`) exhaustive exploration of that tree for all
  52 scenarios (4 start states × 13 opposing thread sets); `check_sound` (proved by induction
  over the schedule, Lemmas/Transport.lean) lifts it to schedules of arbitrary length.  The
  queue theorems are ordinary inductions over the schedule, for any number of producers and
  any job lists.

  What the fake connection does on `write`: it appends `(c, true)` to `attempts` when it is
  open at that step and `(c, false)` (and raises `OSError`) when it has been closed — the real
  `ReaderThread.write` / `TCPTransport.write` on a closed port / socket raise
  `serial.PortNotOpenError` / `OSError(EBADF)`, both subclasses of `OSError`.
-/
import MySensors.Lemmas.Transport

namespace MySensors.C16

open MySensors.Tr

/-- the sender has not raised -/
def senderOk (c : Cfg) : Bool :=
  (sender c).st == .running || (sender c).st == .returned

/-- if, when everything has finished, the initial connection is still installed and open, the
    message was not dropped -/
def noSpuriousDrop (c : Cfg) : Bool :=
  !(c.sh.tp && c.sh.pt == some .c0 && c.sh.open0) || c.sh.writeLog.length == 1

/-- what the exploration checks in every reachable configuration -/
def safe (c : Cfg) : Bool :=
  senderOk c && decide (c.sh.attempts.length ≤ 1) &&
  ((sender c).st != .running || (stepAt 0 c).isSome) &&
  (sender (run c [0, 0, 0, 0, 0])).st == .returned &&
  (!(quiescent c) || ((sender c).st == .returned && noSpuriousDrop c))

/-- kernel-evaluated exhaustive exploration of all 52 scenarios -/
theorem explored : allScenarios.all (fun sc => check safe fuel (init sc)) = true := by
  decide +kernel

theorem mem_allScenarios (sc : Scenario) : sc ∈ allScenarios := by
  obtain ⟨s, o⟩ := sc
  cases s <;> cases o <;> (try rename_i e; cases e) <;> decide

theorem safe_run (sc : Scenario) (s : List Nat) : safe (run (init sc) s) = true := by
  have h := List.all_eq_true.mp explored sc (mem_allScenarios sc)
  exact check_sound safe s fuel (init sc) h

/-- **the sender never raises.**  For every scenario (start state × opposing threads: a loss
    with or without error, through the hook or through the reader's `connection_lost`, a user
    disconnect, a loss followed by the reconnect it requested, a first connection, or a loss and
    a disconnect together) and **every** schedule, `Transport.send` is still running or has
    returned normally — never `AttributeError`, and the only exception `write` can raise
    (`OSError`) is handled. -/
theorem send_never_raises (sc : Scenario) (s : List Nat) :
    (sender (run (init sc) s)).st = .running ∨ (sender (run (init sc) s)).st = .returned := by
  have h := safe_run sc s
  simp only [safe, senderOk, Bool.and_eq_true, Bool.or_eq_true, beq_iff_eq] at h
  exact h.1.1.1.1

/-- the sender is never blocked, and from any reachable configuration five more steps of its
    own bring it to `returned` -/
theorem send_terminates (sc : Scenario) (s : List Nat) :
    (sender (run (run (init sc) s) [0, 0, 0, 0, 0])).st = .returned := by
  have h := safe_run sc s
  simp only [safe, Bool.and_eq_true, beq_iff_eq] at h
  exact h.1.2

/-- when nothing can move any more, the sender has returned -/
theorem send_returns (sc : Scenario) (s : List Nat) (hq : quiescent (run (init sc) s) = true) :
    (sender (run (init sc) s)).st = .returned := by
  have h := safe_run sc s
  simp only [safe, Bool.and_eq_true, Bool.or_eq_true, Bool.not_eq_true', beq_iff_eq] at h
  cases h.2 with
  | inl h1 => rw [hq] at h1; cases h1
  | inr h2 => exact h2.1

/-- **at most once.**  In every scenario and schedule `send` calls `write` at most once in
    total (so the message is in the write logs of all connections together at most once), and
    an entry of the write log is by definition a `write` on a connection that was open at that
    step. -/
theorem at_most_once (sc : Scenario) (s : List Nat) :
    (run (init sc) s).sh.attempts.length ≤ 1 ∧ (run (init sc) s).sh.writeLog.length ≤ 1 := by
  have h := safe_run sc s
  simp only [safe, Bool.and_eq_true, decide_eq_true_eq] at h
  refine ⟨h.1.1.1.2, ?_⟩
  have h1 := h.1.1.1.2
  unfold Sh.writeLog
  rw [List.length_map]
  exact Nat.le_trans (List.length_filter_le _ _) h1

/-- **written or dropped, and not dropped without cause.**  When everything has finished the
    message is in the write log exactly once or not at all; and if at that point the initial
    connection is still installed and open (nothing closed or replaced it), it *was* written. -/
theorem written_or_dropped (sc : Scenario) (s : List Nat) (hq : quiescent (run (init sc) s) = true) :
    ((run (init sc) s).sh.writeLog.length = 1 ∨ (run (init sc) s).sh.writeLog = []) ∧
    ((run (init sc) s).sh.tp = true → (run (init sc) s).sh.pt = some .c0 →
      (run (init sc) s).sh.open0 = true → (run (init sc) s).sh.writeLog.length = 1) := by
  have h := safe_run sc s
  simp only [safe, noSpuriousDrop, Bool.and_eq_true, Bool.or_eq_true, Bool.not_eq_true',
    beq_iff_eq] at h
  constructor
  · have := (at_most_once sc s).2
    match hl : (run (init sc) s).sh.writeLog with
    | [] => exact Or.inr rfl
    | [_] => exact Or.inl rfl
    | _ :: _ :: _ => rw [hl] at this; simp at this; omega
  · intro h1 h2 h3
    cases h.2 with
    | inl hnq => rw [hq] at hnq; cases hnq
    | inr hd =>
      cases hd.2 with
      | inl hn => simp [h1, h2, h3] at hn
      | inr hw => exact hw

/-- without interference the message is written exactly once on the open connection -/
theorem sender_alone_writes_once :
    (run (init ⟨.connected, .nothing⟩) [0, 0, 0]).sh.writeLog = [.c0] ∧
    (sender (run (init ⟨.connected, .nothing⟩) [0, 0, 0])).st = .returned := by decide

/-- a write on a connection whose device already fails is caught: the connection is closed and
    exactly one reconnect is requested -/
theorem sender_alone_handles_oserror :
    let c := run (init ⟨.broken, .nothing⟩) [0, 0, 0, 0, 0]
    (sender c).st = .returned ∧ c.sh.writeLog = [] ∧ c.sh.attempts = [(.c0, false)] ∧
    c.sh.open0 = false ∧ c.sh.reconn = 1 := by decide

/-- **regression witness (D14, repaired in /repo by f8a4fc6).**  The same semantics run on the
    `send` of the pinned commit, which re-reads `self.protocol.transport` after testing it,
    does raise `AttributeError`: the model can exhibit the failure the theorems exclude. -/
theorem pinned_send_raises :
    (sender (run (initWith .sendPinned ⟨.connected, .lossHook false⟩) [0, 0, 0, 1, 1, 0, 0])).st
      = .raisedAttr := by decide

/-! ### The job queue: any number of producers against the pump -/

/-- **FIFO.**  For every list of producers with arbitrary job lists and every schedule of
    `append`s and pump steps: the jobs run so far followed by the jobs still queued are exactly
    the jobs appended so far, in the order of the `append` calls (the linearisation order); and
    the pump's check-then-`popleft` never hits an empty deque. -/
theorem queue_fifo (prod : List (List Job)) (ht : tagged prod) (acts : List QAct) :
    let q := qrun (qinit prod) acts
    q.sent ++ q.queue = q.appended ∧ q.raised = false :=
  let h := qinv_run prod acts (qinit prod) (qinv_init prod ht)
  ⟨h.fifo, h.noRaise⟩

/-- **each job exactly once, per producer in program order.**  The appended sequence restricted
    to producer `i`, followed by what producer `i` has not appended yet, is producer `i`'s
    original job list; and nothing else is ever in the queue. -/
theorem queue_exactly_once (prod : List (List Job)) (ht : tagged prod) (acts : List QAct) :
    let q := qrun (qinit prod) acts
    (∀ i, q.appended.filter (fun j => j.1 == i) ++ q.prod.getD i [] = prod.getD i []) ∧
    (∀ j ∈ q.appended, j.1 < prod.length) :=
  let h := qinv_run prod acts (qinit prod) (qinv_init prod ht)
  ⟨h.perProd, h.owners⟩

/-- when all producers are done and the queue has been drained, the sent sequence is the
    linearisation order, and its restriction to each producer is that producer's job list -/
theorem queue_complete (prod : List (List Job)) (ht : tagged prod) (acts : List QAct)
    (hdone : ∀ i, (qrun (qinit prod) acts).prod.getD i [] = [])
    (hempty : (qrun (qinit prod) acts).queue = []) :
    let q := qrun (qinit prod) acts
    q.sent = q.appended ∧ ∀ i, q.sent.filter (fun j => j.1 == i) = prod.getD i [] := by
  intro q
  have h := qinv_run prod acts (qinit prod) (qinv_init prod ht)
  have hs : q.sent = q.appended := by
    have := h.fifo
    show (qrun (qinit prod) acts).sent = _
    rw [hempty, List.append_nil] at this
    exact this
  refine ⟨hs, ?_⟩
  intro i
  have := h.perProd i
  rw [hdone i, List.append_nil] at this
  rw [hs]; exact this

/-! ### Neighbouring races the model exhibits (outside the statement of C16, reported) -/

/-- `Transport.disconnect` has the same test-then-use window as the old `send`: a loss between
    its test and `self.protocol.transport.close()` makes it raise `AttributeError` (into the
    caller of `stop()`, not into the pump). -/
theorem adjacent_disconnect_loss_race_witness :
    ((run (init ⟨.connected, .lossHookDisconnect false⟩) [2, 2, 2, 1, 1, 2, 2]).ths.getD 2 default).st
      = .raisedAttr := by decide

/-- a write error in the sender and a read error in the reader on the same dead connection
    request two reconnects -/
theorem adjacent_double_reconnect_witness :
    (run (init ⟨.broken, .lossHook true⟩) [0, 0, 0, 0, 0, 1, 1, 1]).sh.reconn = 2 := by decide

/-- `_connection_lost` requests the reconnect *before* it clears `protocol.transport`; if the new
    connection is made in between, the late `transport = None` wipes the live connection -/
theorem adjacent_late_clear_witness :
    let c := run (init ⟨.connected, .lossHookReconnect true⟩) [1, 1, 2, 2, 2, 2, 1]
    c.sh.onMade = 1 ∧ c.sh.pt = none ∧ quiescent (run c [0, 0]) = true := by decide

/-! Non-vacuity: the scenarios are real races (both orders of the critical steps are explored
    and give different outcomes), and the queue hypotheses are satisfiable. -/

example : (run (init ⟨.connected, .lossHook true⟩) [0, 0, 1, 1, 1, 0]).sh.writeLog = [.c0] := by decide
example : (run (init ⟨.connected, .lossHook true⟩) [0, 1, 1, 1, 0, 0]).sh.writeLog = [] := by decide
example : (run (init ⟨.connected, .disconnect⟩) [0, 0, 1, 1, 1, 1, 1, 1, 0, 0, 0]).sh.attempts = [(.c0, false)] := by decide
example : (run (init ⟨.connected, .lossFullReconnect true⟩) [1, 1, 1, 1, 1, 1, 2, 0, 0, 0]).sh.writeLog = [.c1] := by decide
example : tagged [[(0, 10), (0, 11)], [(1, 20)]] := by
  intro i j hj
  match i with
  | 0 => simp at hj; rcases hj with h | h <;> subst h <;> rfl
  | 1 => simp at hj; subst hj; rfl
  | n + 2 => simp at hj
example : (qrun (qinit [[(0, 10), (0, 11)], [(1, 20)]])
    [.produce 0, .pump, .produce 1, .pump, .produce 0, .pump, .pump, .pump, .pump, .pump]).sent
    = [(0, 10), (1, 20), (0, 11)] := by decide

end MySensors.C16
