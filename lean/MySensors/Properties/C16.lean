/-
  C16 — sending races safely with connection loss and shutdown.

  Model: `MySensors/Model/Transport.lean` (threads = programs of shared-access steps over the
  cells `Transport.protocol`, `protocol.transport` and the fake connections; interleaving
  semantics `run : Cfg → List Nat → Cfg` where **every** list of thread indices is a schedule).

  How the "for every interleaving" quantifier is discharged.  By a general argument: an
  inductive invariant of the sending thread (`SInv`) that every step of the sender preserves
  (case analysis over its five program points) and every step of any other thread preserves
  (those threads never call `write`, never set `protocol` to an object, never install `c0`
  again, never reopen a connection: `BenignStep`).  Induction over the schedule then gives the
  theorems for schedules of any length and — in `send_safe_general` — for any number of
  opposing threads in any state.  `explored_two_thread` re-derives the safety part for the
  two-thread scenarios by kernel-evaluated exhaustive exploration (`decide +kernel`, no axiom)
  lifted to all schedules by `check_sound`, as an independent cross-check.  The queue theorems
  are ordinary inductions over the schedule, for any number of producers and any job lists.

  What the fake connection does on `write`: it appends `(c, true)` to `attempts` when it is
  open at that step and `(c, false)` (and raises `OSError`) when it has been closed — the real
  `ReaderThread.write` / `TCPTransport.write` on a closed port / socket raise
  `serial.PortNotOpenError` / `OSError(EBADF)`, both subclasses of `OSError`.
-/
import MySensors.Lemmas.Transport

namespace MySensors.C16

open MySensors.Tr

/-- **General form.**  One `Transport.send` against *any number* of threads of the other kinds
    (loss hook, reader `connection_lost`, `disconnect`, `connection_made`; with or without error;
    each in any state of its program) from *any* shared state with an empty write log, under
    **every** schedule (`s : List Nat` of any length; picking a finished or blocked thread is a
    no-op).  Proved by an inductive invariant (`SInv`, Lemmas/Transport.lean), not by
    enumeration:
    * the sender is running or has returned normally — never `AttributeError`; the only
      exception `write` can raise, `OSError`, is handled;
    * `write` is called at most once in total, so the message is in the write logs of all
      connections together at most once (an entry of the write log is, by the definition of the
      fake connection, a write on a connection that was open at that step);
    * five more steps of its own always bring the sender to `returned` (it is never blocked);
    * if it has returned without a logged write, the initial connection is no longer installed
      and open (`¬ Live`): the message is never dropped without a cause. -/
theorem send_safe_general (sh : Sh) (hat : sh.attempts = []) (others : List Th)
    (hb : ∀ o ∈ others, benignKind o.kind = true) (s : List Nat) :
    let c := run { sh := sh, ths := { kind := .send } :: others } s
    ((sender c).st = .running ∨ (sender c).st = .returned) ∧
    c.sh.attempts.length ≤ 1 ∧ c.sh.writeLog.length ≤ 1 ∧
    (sender (run c (List.replicate 5 0))).st = .returned ∧
    ((sender c).st = .returned → c.sh.writeLog.length ≠ 1 → ¬ Live c.sh) := by
  intro c
  have hg0 : Good { sh := sh, ths := { kind := .send } :: others } :=
    ⟨_, others, rfl, sinv_init sh hat, hb⟩
  have hg : Good c := good_run s _ hg0
  have hi := good_sender hg
  refine ⟨hi.ok, hi.att, ?_, ?_, hi.drop⟩
  · unfold Sh.writeLog
    rw [List.length_map]
    exact Nat.le_trans (List.length_filter_le _ _) hi.att
  · apply good_finish 5 c hg
    intro _; omega

theorem good_init (sc : Scenario) : Good (init sc) := by
  refine ⟨_, otherThreads sc.other, rfl, sinv_init _ ?_, ?_⟩
  · show (startSh sc.start).attempts = []
    cases sc.start <;> rfl
  · have : ∀ x ∈ otherThreads sc.other, benignKind x.kind = true := by
      cases sc.other <;> simp [otherThreads, benignKind]
    exact this

theorem good_reach (sc : Scenario) (s : List Nat) : Good (run (init sc) s) :=
  good_run s _ (good_init sc)

/-- **the sender never raises.**  For every scenario (4 start states × 13 opposing thread sets:
    a loss with or without error, through the hook or through the reader's `connection_lost`, a
    user disconnect, a loss followed by the reconnect it requested, a first connection, or a
    loss and a disconnect together) and **every** schedule, `Transport.send` is still running
    or has returned normally. -/
theorem send_never_raises (sc : Scenario) (s : List Nat) :
    (sender (run (init sc) s)).st = .running ∨ (sender (run (init sc) s)).st = .returned :=
  (good_sender (good_reach sc s)).ok

/-- the sender is never blocked: from any reachable configuration five more steps of its own
    bring it to `returned` -/
theorem send_terminates (sc : Scenario) (s : List Nat) :
    (sender (run (run (init sc) s) [0, 0, 0, 0, 0])).st = .returned :=
  good_finish 5 _ (good_reach sc s) (by intro _; omega)

/-- when nothing can move any more, the sender has returned -/
theorem send_returns (sc : Scenario) (s : List Nat) (hq : quiescent (run (init sc) s) = true) :
    (sender (run (init sc) s)).st = .returned := by
  have hg := good_reach sc s
  cases (good_sender hg).ok with
  | inr h => exact h
  | inl hrun =>
    exfalso
    obtain ⟨c', hs, _, _⟩ := good_stepAt_zero hg hrun
    unfold quiescent at hq
    rw [List.all_eq_true] at hq
    have := hq 0 (List.mem_range.mpr (stepAt_lt hs))
    rw [hs] at this; cases this

/-- **at most once.**  In every scenario and schedule `send` calls `write` at most once in
    total, so the message is in the write logs of all connections together at most once. -/
theorem at_most_once (sc : Scenario) (s : List Nat) :
    (run (init sc) s).sh.attempts.length ≤ 1 ∧ (run (init sc) s).sh.writeLog.length ≤ 1 := by
  have h1 := (good_sender (good_reach sc s)).att
  refine ⟨h1, ?_⟩
  unfold Sh.writeLog
  rw [List.length_map]
  exact Nat.le_trans (List.length_filter_le _ _) h1

/-- **written or dropped, and not dropped without cause.**  When everything has finished the
    message is in the write log exactly once or not at all; and if at that point the initial
    connection is still installed and open (nothing closed or replaced it), it *was* written. -/
theorem written_or_dropped (sc : Scenario) (s : List Nat) (hq : quiescent (run (init sc) s) = true) :
    ((run (init sc) s).sh.writeLog.length = 1 ∨ (run (init sc) s).sh.writeLog = []) ∧
    ((run (init sc) s).sh.tp = true → (run (init sc) s).sh.pt = some .c0 →
      (run (init sc) s).sh.open0 = true → (run (init sc) s).sh.writeLog.length = 1) := by
  constructor
  · have := (at_most_once sc s).2
    match hl : (run (init sc) s).sh.writeLog with
    | [] => exact Or.inr rfl
    | [_] => exact Or.inl rfl
    | _ :: _ :: _ => rw [hl] at this; simp at this
  · intro h1 h2 h3
    have hret := send_returns sc s hq
    have hd := (good_sender (good_reach sc s)).drop hret
    by_cases hw : (run (init sc) s).sh.writeLog.length = 1
    · exact hw
    · exact absurd ⟨h1, h2, h3⟩ (hd hw)

/-- cross-check of the invariant proof by kernel evaluation: the exhaustive exploration of all
    two-thread scenarios (`check`, lifted to all schedules by `check_sound`) finds the sender
    never raised and at most one `write` call -/
def light (c : Cfg) : Bool :=
  ((sender c).st == .running || (sender c).st == .returned) && decide (c.sh.attempts.length ≤ 1)

def twoThread : List Scenario :=
  allScenarios.filter fun sc => (otherThreads sc.other).length ≤ 1

theorem explored_two_thread : twoThread.all (fun sc => check light fuel (init sc)) = true := by
  decide +kernel

theorem explored_two_thread_all_schedules (sc : Scenario) (h : sc ∈ twoThread) (s : List Nat) :
    light (run (init sc) s) = true :=
  check_sound light s fuel (init sc) (List.all_eq_true.mp explored_two_thread sc h)

/-- without interference the message is written exactly once on the open connection -/
theorem sender_alone_writes_once :
    (run (init ⟨.connected, .nothing⟩) [0, 0, 0]).sh.writeLog = [.c0] ∧
    (sender (run (init ⟨.connected, .nothing⟩) [0, 0, 0])).st = .returned := by decide

/-- a write on a connection whose device already fails is caught: the connection is closed and
    exactly one reconnect is requested -/
theorem sender_alone_handles_oserror :
    let c := run (init ⟨.broken, .nothing⟩) [0, 0, 0, 0, 0]
    (sender c).st = .returned ∧ c.sh.writeLog = [] ∧ c.sh.attempts = [(.c0, false)] ∧
    c.sh.open0 = false ∧ c.sh.reconn = 1 := by decide

/-- **regression witness (D14, repaired in /repo by f8a4fc6).**  The same semantics run on the
    `send` of the pinned commit, which re-reads `self.protocol.transport` after testing it,
    does raise `AttributeError`: the model can exhibit the failure the theorems exclude. -/
theorem pinned_send_raises :
    (sender (run (initWith .sendPinned ⟨.connected, .lossHook false⟩) [0, 0, 0, 1, 1, 0, 0])).st
      = .raisedAttr := by decide

/-! ### The job queue: any number of producers against the pump -/

/-- **FIFO.**  For every list of producers with arbitrary job lists and every schedule of
    `append`s and pump steps: the jobs run so far followed by the jobs still queued are exactly
    the jobs appended so far, in the order of the `append` calls (the linearisation order); and
    the pump's check-then-`popleft` never hits an empty deque. -/
theorem queue_fifo (prod : List (List Job)) (ht : tagged prod) (acts : List QAct) :
    let q := qrun (qinit prod) acts
    q.sent ++ q.queue = q.appended ∧ q.raised = false :=
  let h := qinv_run prod acts (qinit prod) (qinv_init prod ht)
  ⟨h.fifo, h.noRaise⟩

/-- **each job exactly once, per producer in program order.**  The appended sequence restricted
    to producer `i`, followed by what producer `i` has not appended yet, is producer `i`'s
    original job list; and nothing else is ever in the queue. -/
theorem queue_exactly_once (prod : List (List Job)) (ht : tagged prod) (acts : List QAct) :
    let q := qrun (qinit prod) acts
    (∀ i, q.appended.filter (fun j => j.1 == i) ++ q.prod.getD i [] = prod.getD i []) ∧
    (∀ j ∈ q.appended, j.1 < prod.length) :=
  let h := qinv_run prod acts (qinit prod) (qinv_init prod ht)
  ⟨h.perProd, h.owners⟩

/-- when all producers are done and the queue has been drained, the sent sequence is the
    linearisation order, and its restriction to each producer is that producer's job list -/
theorem queue_complete (prod : List (List Job)) (ht : tagged prod) (acts : List QAct)
    (hdone : ∀ i, (qrun (qinit prod) acts).prod.getD i [] = [])
    (hempty : (qrun (qinit prod) acts).queue = []) :
    let q := qrun (qinit prod) acts
    q.sent = q.appended ∧ ∀ i, q.sent.filter (fun j => j.1 == i) = prod.getD i [] := by
  intro q
  have h := qinv_run prod acts (qinit prod) (qinv_init prod ht)
  have hs : q.sent = q.appended := by
    have := h.fifo
    show (qrun (qinit prod) acts).sent = _
    rw [hempty, List.append_nil] at this
    exact this
  refine ⟨hs, ?_⟩
  intro i
  have := h.perProd i
  rw [hdone i, List.append_nil] at this
  rw [hs]; exact this

/-- **every queued job is sent.**  From every reachable state of the queue (any producers, any
    schedule so far, the pump stopped at any of its program points), once the producers stop
    appending, three pump steps per queued job are enough to empty the queue, whatever the pump
    was doing when they stopped: everything appended has then been run, in the order of the
    `append` calls, and nothing is run that was not appended.  The pump's wait between two
    looks at the queue is a bounded sleep, not a wait for a signal, so no wake-up can be lost. -/
theorem queue_drains (prod : List (List Job)) (ht : tagged prod) (acts : List QAct) (k : Nat)
    (hk : 3 * (qrun (qinit prod) acts).queue.length ≤ k) :
    let q := qrun (qinit prod) (acts ++ pumps k)
    q.queue = [] ∧ q.sent = (qrun (qinit prod) acts).appended ∧ q.raised = false := by
  intro q
  have h := qinv_run prod acts (qinit prod) (qinv_init prod ht)
  obtain ⟨d1, d2, d3, _⟩ := pump_drains (qrun (qinit prod) acts) h.noRaise h.popOk k hk
  have e : q = qrun (qrun (qinit prod) acts) (pumps k) := qrun_append _ _ _
  rw [e]
  exact ⟨d1, by rw [d3, h.fifo], d2⟩

/-- the hypothesis is satisfiable and the conclusion is not empty: two producers, one job still
    queued and the pump asleep when they stop; three more pump steps send it -/
example : (qrun (qinit [[(0, 7)], [(1, 8)]]) ([.produce 0, .pump, .pump, .pump, .pump, .produce 1] ++ pumps 3)).sent
    = [(0, 7), (1, 8)] := by decide

/-! ### Neighbouring races the model exhibits (outside the statement of C16, reported) -/

/-- `Transport.disconnect` has the same test-then-use window as the old `send`: a loss between
    its test and `self.protocol.transport.close()` makes it raise `AttributeError` (into the
    caller of `stop()`, not into the pump). -/
theorem adjacent_disconnect_loss_race_witness :
    ((run (init ⟨.connected, .lossHookDisconnect false⟩) [2, 2, 2, 1, 1, 2, 2]).ths.getD 2 default).st
      = .raisedAttr := by decide

/-- a write error in the sender and a read error in the reader on the same dead connection
    request two reconnects -/
theorem adjacent_double_reconnect_witness :
    (run (init ⟨.broken, .lossHook true⟩) [0, 0, 0, 0, 0, 1, 1, 1]).sh.reconn = 2 := by decide

/-- `_connection_lost` requests the reconnect *before* it clears `protocol.transport`; if the new
    connection is made in between, the late `transport = None` wipes the live connection -/
theorem adjacent_late_clear_witness :
    let c := run (init ⟨.connected, .lossHookReconnect true⟩) [1, 1, 2, 2, 2, 2, 1]
    c.sh.onMade = 1 ∧ c.sh.pt = none ∧ quiescent (run c [0, 0]) = true := by decide

/-! Non-vacuity: the scenarios are real races (both orders of the critical steps are explored
    and give different outcomes), and the queue hypotheses are satisfiable. -/

example : (run (init ⟨.connected, .lossHook true⟩) [0, 0, 1, 1, 1, 0]).sh.writeLog = [.c0] := by decide
example : (run (init ⟨.connected, .lossHook true⟩) [0, 1, 1, 1, 0, 0]).sh.writeLog = [] := by decide
example : (run (init ⟨.connected, .disconnect⟩) [0, 0, 1, 1, 1, 1, 1, 1, 0, 0, 0]).sh.attempts = [(.c0, false)] := by decide
example : (run (init ⟨.connected, .lossFullReconnect true⟩) [1, 1, 1, 1, 1, 1, 2, 0, 0, 0]).sh.writeLog = [.c1] := by decide
example : tagged [[(0, 10), (0, 11)], [(1, 20)]] := by
  intro i j hj
  match i with
  | 0 => simp at hj; rcases hj with h | h <;> subst h <;> rfl
  | 1 => simp at hj; subst hj; rfl
  | n + 2 => simp at hj
example : (qrun (qinit [[(0, 10), (0, 11)], [(1, 20)]])
    [.produce 0, .pump, .produce 1, .pump, .produce 0, .pump, .pump, .pump, .pump, .pump, .pump, .pump]).sent
    = [(0, 10), (1, 20), (0, 11)] := by decide

end MySensors.C16
