/-
  C17 — MQTT topics and commands map one-to-one.

  Everything ranges over EVERY prefix `p : List Char` (empty, containing '/', digit-only levels,
  levels equal to message levels …), every topic / payload string and every QoS
  (`Option Int`, `none` = Python `None`).

  What the code does, precisely:
  * a topic is accepted iff it is `in_prefix ++ "/" ++ l1/l2/l3/l4/l5` with five '/'-free levels
    (`accept_iff`).  The separator is always required: with the EMPTY prefix the accepted topics
    are `"/l1/l2/l3/l4/l5"` (leading '/'), which is also what the gateway subscribes to and
    publishes (`"" + "/+/+/0/+/+"`); a bare `"1/2/3/0/4"` is rejected.  A prefix containing '/'
    (even one that looks like five message levels) is compared as a whole, so
    `in_prefix = "1/2/3/0/4"` accepts exactly `"1/2/3/0/4/" ++ levels`.
  * the levels are not required to be integers at this point: `"p/a/b/c/0/d"` is accepted and
    handed to `logic` as `"a;b;c;0;d;payload"`, which `Message.decode` then rejects (C01/C02).
-/
import MySensors.Lemmas.Mqtt
import MySensors.Lemmas.MqttSubs

namespace MySensors.C17

open MySensors

/-! ### acceptance of received topics -/

/-- a received topic is accepted exactly when it is the configured inbound prefix, a '/', and
    five levels without '/' — for every prefix. -/
theorem accept_iff (p topic payload : Str) (qos : Option Int) :
    (parseMqtt p topic payload qos).isSome ↔
      ∃ ls : List Str, ls.length = 5 ∧ (∀ l ∈ ls, '/' ∉ l) ∧ topic = p ++ '/' :: joinWith '/' ls := by
  constructor
  · intro h
    rcases Option.isSome_iff_exists.mp h with ⟨s, hs⟩
    obtain ⟨hlen, htop, _⟩ := parseMqtt_some p topic payload qos s hs
    refine ⟨lastN 5 (splitOn '/' topic), hlen, ?_, htop⟩
    intro l hl
    exact splitOn_fields_noDelim '/' topic l (mem_of_mem_lastN _ _ _ hl)
  · rintro ⟨ls, hlen, hns, rfl⟩
    rw [parseMqtt_own p ls payload qos hlen hns]; rfl

/-- what is handed to `logic` for an accepted topic: the five levels with the ack level
    replaced by the QoS flag, then the payload, joined by ';' -/
theorem accept_result (p l1 l2 l3 l4 l5 payload : Str) (qos : Option Int)
    (h : '/' ∉ l1 ∧ '/' ∉ l2 ∧ '/' ∉ l3 ∧ '/' ∉ l4 ∧ '/' ∉ l5) :
    mqttRecv p (p ++ '/' :: joinWith '/' [l1, l2, l3, l4, l5]) payload qos
      = some (joinWith ';' [l1, l2, l3, qosAck qos, l5, payload]) := by
  unfold mqttRecv
  rw [parseMqtt_own p [l1, l2, l3, l4, l5] payload qos rfl]
  · rfl
  · intro l hl
    simp at hl
    rcases hl with rfl | rfl | rfl | rfl | rfl
    · exact h.1
    · exact h.2.1
    · exact h.2.2.1
    · exact h.2.2.2.1
    · exact h.2.2.2.2

/-- the five levels of an accepted topic are determined by the topic (one topic, one header) -/
theorem accept_levels_unique (p : Str) (ls ls' : List Str) (h5 : ls.length = 5) (h5' : ls'.length = 5)
    (hns : ∀ l ∈ ls, '/' ∉ l) (hns' : ∀ l ∈ ls', '/' ∉ l)
    (h : p ++ '/' :: joinWith '/' ls = p ++ '/' :: joinWith '/' ls') : ls = ls' := by
  have a := lastN_split_topic p ls h5 hns
  have b := lastN_split_topic p ls' h5' hns'
  rw [h] at a
  exact a.symm.trans b

/-- a topic with fewer than five levels is never accepted, whatever the prefix -/
theorem reject_short (p topic payload : Str) (qos : Option Int)
    (h : (splitOn '/' topic).length < 5) : parseMqtt p topic payload qos = none := by
  unfold parseMqtt
  have := lastN_short 5 _ h
  simp only
  rw [if_neg]
  intro hc
  omega

/-! ### publish, and the round trip -/

/-- a command is published under `/node/child/type/ack/subtype` with its payload and
    `qos = ack` -/
theorem publish_shape (c : Str) (m : Msg) (h : decode c = some m) :
    messageToMqtt c = some ('/' :: joinWith '/' [renderInt m.node, renderInt m.child,
      renderInt m.type, renderInt m.ack, renderInt m.sub], m.payload, m.ack) := by
  simp only [messageToMqtt, h, topicOf_eq m (decode_some c m h).2]

/-- `send` hands something to the publish callback exactly for command strings that decode;
    everything else (`None`, `""`, malformed text) is skipped or dropped -/
theorem send_publishes_iff (outP : Str) (retain raises : Bool) (msg : Option Str) :
    (∃ t pl q, (mqttSend outP retain raises msg).1 = .published t pl q retain) ↔
      ∃ c m, msg = some c ∧ decode c = some m := by
  constructor
  · rintro ⟨t, pl, q, h⟩
    unfold mqttSend at h
    split at h
    · simp at h
    · simp at h
    · rename_i c cs
      unfold messageToMqtt at h
      cases hd : decode (c :: cs) with
      | none => rw [hd] at h; simp at h
      | some m => exact ⟨c :: cs, m, rfl, hd⟩
  · rintro ⟨c, m, rfl, hd⟩
    cases c with
    | nil => rw [decode_nil] at hd; cases hd
    | cons x xs =>
      unfold mqttSend
      simp only [messageToMqtt, hd]
      exact ⟨_, _, _, rfl⟩

/-- ROUND TRIP, for every in-prefix, out-prefix and every command string that decodes: `send`
    publishes `(out_prefix ++ topic, payload, qos = ack)`; receiving that topic under the
    in-prefix with ANY QoS hands `logic` a string that decodes to the same message with
    `ack = 1` iff the QoS is positive.  (The payload needs no hypothesis: a decoded payload is
    always carryable.) -/
theorem roundtrip (inP outP c : Str) (retain raises : Bool) (m : Msg) (h : decode c = some m)
    (qos : Option Int) :
    ∃ topic, mqttSend outP retain raises (some c)
        = (.published (outP ++ topic) m.payload m.ack retain, .returned) ∧
      ∃ s, mqttRecv inP (inP ++ topic) m.payload qos = some s ∧
        decode s = some { m with ack := ackOfQos qos } := by
  obtain ⟨hp, hl⟩ := decode_some c m h
  refine ⟨'/' :: joinWith '/' [renderInt m.node, renderInt m.child, renderInt m.type,
      renderInt m.ack, renderInt m.sub], ?_, ?_⟩
  · cases c with
    | nil => rw [decode_nil] at h; cases h
    | cons x xs =>
      unfold mqttSend
      simp only [publish_shape _ m h]
      cases raises <;> rfl
  · have hns : '/' ∉ renderInt m.node ∧ '/' ∉ renderInt m.child ∧ '/' ∉ renderInt m.type ∧
        '/' ∉ renderInt m.ack ∧ '/' ∉ renderInt m.sub :=
      ⟨renderInt_noSlash _, renderInt_noSlash _, renderInt_noSlash _, renderInt_noSlash _,
        renderInt_noSlash _⟩
    refine ⟨_, accept_result inP _ _ _ _ _ m.payload qos hns, ?_⟩
    rw [qosAck_render]
    have hl' : intsWithinLimit { m with ack := ackOfQos qos } :=
      ⟨hl.1, hl.2.1, hl.2.2.1, numDigits_ackOfQos qos, hl.2.2.2.2⟩
    have := decode_canon { m with ack := ackOfQos qos } hp hl'
    unfold canon at this
    rw [decode_append_nl] at this
    exact this

/-- the same from the message side: every message with a carryable payload and printable
    integers is encoded, published, received back and decoded to itself when its ack is 0 or 1
    and the broker delivers it with the QoS it was published with -/
theorem roundtrip_message (inP outP : Str) (retain raises : Bool) (m : Msg)
    (hp : carryable m.payload) (hl : intsWithinLimit m) (hack : m.ack = 0 ∨ m.ack = 1) :
    ∃ c topic s, encode m = some c ∧
      mqttSend outP retain raises (some c) = (.published (outP ++ topic) m.payload m.ack retain, .returned) ∧
      mqttRecv inP (inP ++ topic) m.payload (some m.ack) = some s ∧ decode s = some m := by
  obtain ⟨topic, hs, s, hr, hd⟩ :=
    roundtrip inP outP (canon m) retain raises m (decode_canon m hp hl) (some m.ack)
  refine ⟨canon m, topic, s, encode_eq_canon m hl, hs, hr, ?_⟩
  rw [hd]
  have : ackOfQos (some m.ack) = m.ack := by
    unfold ackOfQos
    rcases hack with h | h <;> simp [h]
  rw [this]

/-- the published QoS is positive exactly when ack = 1 (headers in range: ack ∈ {0, 1}) -/
theorem qos_iff_ack (c : Str) (m : Msg) (h : decode c = some m) (hack : m.ack = 0 ∨ m.ack = 1) :
    ∃ t pl q, messageToMqtt c = some (t, pl, q) ∧ (q > 0 ↔ m.ack = 1) := by
  refine ⟨_, _, _, publish_shape c m h, ?_⟩
  rcases hack with h0 | h1
  · simp [h0]
  · simp [h1]

/-- on the way in, the ack flag is 1 exactly when the QoS is a positive number (`None`, 0 and
    negative values give 0) -/
theorem received_ack_iff_qos (qos : Option Int) :
    (ackOfQos qos = 1 ↔ ∃ q, qos = some q ∧ q > 0) ∧ (ackOfQos qos = 0 ∨ ackOfQos qos = 1) := by
  unfold ackOfQos
  cases qos with
  | none => simp
  | some q =>
    by_cases h : q > 0
    · simp [h]
    · simp [h]

/-- different commands are published differently (topic, payload and QoS determine the
    message) -/
theorem publish_injective (c₁ c₂ : Str) (m₁ m₂ : Msg) (h₁ : decode c₁ = some m₁)
    (h₂ : decode c₂ = some m₂) (h : messageToMqtt c₁ = messageToMqtt c₂) : m₁ = m₂ := by
  rw [publish_shape c₁ m₁ h₁, publish_shape c₂ m₂ h₂] at h
  simp only [Option.some.injEq, Prod.mk.injEq, List.cons.injEq, true_and] at h
  obtain ⟨ht, hpl, _⟩ := h
  have l₁ := (decode_some c₁ m₁ h₁).2
  have l₂ := (decode_some c₂ m₂ h₂).2
  have hs := congrArg (splitOn '/') ht
  rw [splitOn_join '/' _ (by simp), splitOn_join '/' _ (by simp)] at hs
  · simp only [List.cons.injEq, and_true] at hs
    obtain ⟨e1, e2, e3, e4, e5⟩ := hs
    have inj : ∀ a b : Int, numDigits a ≤ PyTables.intMaxDigits → numDigits b ≤ PyTables.intMaxDigits →
        renderInt a = renderInt b → a = b := by
      intro a b ha hb e
      have := pyInt_renderInt a ha
      rw [e, pyInt_renderInt b hb] at this
      exact (Option.some.inj this).symm
    have := inj _ _ l₁.1 l₂.1 e1
    have := inj _ _ l₁.2.1 l₂.2.1 e2
    have := inj _ _ l₁.2.2.1 l₂.2.2.1 e3
    have := inj _ _ l₁.2.2.2.1 l₂.2.2.2.1 e4
    have := inj _ _ l₁.2.2.2.2 l₂.2.2.2.2 e5
    cases m₁; cases m₂; simp_all
  · intro f hf
    simp at hf
    rcases hf with rfl | rfl | rfl | rfl | rfl <;> exact renderInt_noSlash _
  · intro f hf
    simp at hf
    rcases hf with rfl | rfl | rfl | rfl | rfl <;> exact renderInt_noSlash _

/-! ### callbacks -/

/-- a publish or subscribe callback that raises never propagates: `send` returns normally
    whatever the publish callback does, and `handle_subscription` returns normally and still
    offers EVERY topic to the callback, in order, whatever the callback does — for all topic
    lists whose full topics contain a '/' (all topics the gateway itself builds do). -/
theorem callbacks_total (outP inP : Str) (retain pubRaises : Bool) (msg : Option Str)
    (subRaises : Str → Bool) (topics : List Str) (ht : ∀ t ∈ topics, '/' ∈ inP ++ t) :
    (mqttSend outP retain pubRaises msg).2 = .returned ∧
    (subscribeAll inP subRaises topics).2 = .returned ∧
    (subscribeAll inP subRaises topics).1.map (·.1) = topics.map (inP ++ ·) ∧
    (mqttSend outP retain pubRaises msg).1 = (mqttSend outP retain false msg).1 ∧
    (subscribeAll inP subRaises topics).1 = (subscribeAll inP (fun _ => false) topics).1 :=
  ⟨mqttSend_returned _ _ _ _, (subscribeAll_total inP subRaises topics ht).1,
    (subscribeAll_total inP subRaises topics ht).2, mqttSend_pub_indep _ _ _ _,
    subscribeAll_indep inP subRaises topics ht⟩

/-- every topic the gateway subscribes itself ends in `…/+/+`, so it is subscribed with
    QoS 0 whatever the prefix (the QoS is read from the second-to-last level) -/
theorem subscription_qos_zero (p a b c : Str) (ha : '/' ∉ a) (hb : '/' ∉ b) (hc : '/' ∉ c) :
    subQos (p ++ slashJoin [a, b, c, plus, plus]) = some 0 :=
  subQos_plus p a b c ha hb hc

/-! ### subscription coverage -/

/-- AFTER START: the two fixed topics `p/+/+/0/+/+`, `p/+/+/3/+/+` are subscribed, and — when
    persistence is enabled — for every child `c` of every node `n` of the restored tree
    `p/n/c/1/+/+`, `p/n/c/2/+/+` and `p/n/+/4/+/+` (set / req / stream are 1 / 2 / 4 in every
    protocol version), whatever the subscribe callback does.  `WellKeyed`: nodes and children
    are stored under their own ids (true of every tree the library builds or saves).
    With persistence disabled `init_topics` does not look at the tree at all; then nothing
    can have been restored (`restart` yields the empty tree), which is the second case. -/
theorem start_covers (p : Str) (subRaises : Str → Bool) (g : GW) (hw : WellKeyed g)
    (hp : g.persist = true ∨ g.sensors = []) :
    Covers p ((startSubs p subRaises g).1.map (·.1)) g ∧ (startSubs p subRaises g).2 = .returned :=
  startSubs_covers p subRaises g hw hp

/-- INVARIANT OVER HISTORIES: start an MQTT gateway in any well-keyed state (fresh, or
    restored with persistence enabled) and run ANY list of operations — inbound lines
    (presentations, sets, requests, internal, stream, garbage), controller calls, firmware
    updates, clock, save ticks, stop — with any subscribe-callback behaviour: at the end the
    subscription set still covers the fixed topics and the set / req / stream topics of every
    child in the tree.  (A restart is a new process and a new start: it is the theorem again
    from the restored state.) -/
theorem subscriptions_cover (p : Str) (subRaises : Str → Bool) (g : GW) (ops : List Op)
    (hk : g.kind = .mqtt) (hw : WellKeyed g) (hp : g.persist = true ∨ g.sensors = [])
    (hnr : Op.restart ∉ ops) :
    Covers p ((runSubs p subRaises g ((startSubs p subRaises g).1) ops).2.map (·.1))
      (runSubs p subRaises g ((startSubs p subRaises g).1) ops).1 :=
  runSubs_covers p subRaises g ops _ hk hnr (startSubs_covers p subRaises g hw hp).1

/-! ### non-vacuity -/

/-- the D10 replay: a prefix that looks like five message levels accepts its own topic … -/
example : mqttRecv "1/2/3/0/4".toList "1/2/3/0/4/1/2/3/0/4".toList "pl".toList (some 1)
    = some "1;2;3;1;4;pl".toList := by decide

/-- … and nothing else that merely ends in the same levels -/
example : mqttRecv "1/2/3/0/4".toList "9/2/3/0/4/1/2/3/0/4".toList "pl".toList (some 1) = none := by
  decide

/-- empty prefix: the leading '/' is required -/
example : mqttRecv [] "/1/2/3/0/4".toList [] none = some "1;2;3;0;4;".toList ∧
    mqttRecv [] "1/2/3/0/4".toList [] none = none := by decide

/-- a nested prefix, a prefix ending in '/', four and six levels -/
example : (parseMqtt "a/b".toList "a/b/1/2/3/0/4".toList [] (some 0)).isSome ∧
    (parseMqtt "a/".toList "a//1/2/3/0/4".toList [] (some 0)).isSome ∧
    parseMqtt "a".toList "a/1/2/3/0".toList [] (some 0) = none ∧
    parseMqtt "a".toList "a/1/2/3/0/4/5".toList [] (some 0) = none := by decide

/-- a concrete command decodes, so `roundtrip` applies to it -/
example : decode "1;2;1;1;2;21.5\n".toList = some ⟨1, 2, 1, 1, 2, "21.5".toList⟩ := by decide

/-- `send` drops what is not a command and skips `None` / `""` -/
example : (mqttSend "out".toList true false (some "1;2;1;0;2;a;b\n".toList)).1 = .dropped ∧
    (mqttSend "out".toList true false none).1 = .skipped ∧
    (mqttSend "out".toList true true (some [])).1 = .skipped := by decide

/-- a fresh MQTT gateway meets the hypotheses of `subscriptions_cover` … -/
def freshMqtt : GW := { const := .v22, kind := .mqtt }

example : freshMqtt.kind = .mqtt ∧ WellKeyed freshMqtt ∧
    (freshMqtt.persist = true ∨ freshMqtt.sensors = []) :=
  ⟨rfl, by intro k nd h; simp [freshMqtt] at h, Or.inr rfl⟩

/-- … and with a subscribe callback that ALWAYS raises, presenting node 1 and then its child 3
    leaves exactly the two fixed topics and the three topics of the child subscribed -/
example : (runSubs "p".toList (fun _ => true) freshMqtt (startSubs "p".toList (fun _ => true) freshMqtt).1
      [.line "1;255;0;0;17;2.2\n".toList, .line "1;3;0;0;6;\n".toList]).2.map (·.1)
    = ["p/+/+/0/+/+".toList, "p/+/+/3/+/+".toList, "p/1/3/1/+/+".toList, "p/1/3/2/+/+".toList,
       "p/1/+/4/+/+".toList] := by decide +kernel

/-- a restored tree (persistence on, node 7 with child 2) is well keyed, and `init_topics`
    under the nested prefix `a/b` subscribes its topics after the two fixed ones, all with QoS 0 -/
def restoredMqtt : GW :=
  { const := .v20, kind := .mqtt, persist := true, sensors := [(7, { id := 7, children := [(2, ⟨2, 3, [], []⟩)] })] }

example : WellKeyed restoredMqtt := by
  intro k nd h
  simp [restoredMqtt] at h
  obtain ⟨rfl, rfl⟩ := h
  refine ⟨rfl, ?_⟩
  intro c ch hc
  simp at hc
  obtain ⟨rfl, rfl⟩ := hc
  rfl

example : (startSubs "a/b".toList (fun _ => false) restoredMqtt).1
    = [("a/b/+/+/0/+/+".toList, 0), ("a/b/+/+/3/+/+".toList, 0), ("a/b/7/2/1/+/+".toList, 0),
       ("a/b/7/2/2/+/+".toList, 0), ("a/b/7/+/4/+/+".toList, 0)] := by decide +kernel

end MySensors.C17
