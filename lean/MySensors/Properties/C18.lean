/-
  C18 — documented configuration is accepted and honoured; protocol version floor selection.

  Version part.  `selectConst s` models `get_const(safe_is_version(s))`, the function that picks
  the protocol tables of a gateway (`Gateway.__init__`) and of a node
  (`Sensor.protocol_version` setter → `validate_child_state` → `get_const`).  The theorems
  range over ALL natural numbers major / minor / patch whose decimal rendering stays within
  CPython's integer digit limit (a longer section makes the real `int()` raise), rendered as
  the strings `"M.m"` and `"M.m.p"`, and state the floor rule with plain lexicographic
  comparison (`verLt`), not with the library's section comparison.

  Options part.  `construct c kw` threads a keyword set through the cooperative `__init__`
  chain of gateway class `c` (Model/Options.lean).  `options` covers every sub-list of the
  documented optional keywords of each of the six classes.
-/
import MySensors.Lemmas.Version
import MySensors.Model.SpecC18

namespace MySensors.C18

open MySensors

/-! ### version floor -/

/-- a rendered dotted version is read back as exactly its numeric sections (so leading
    zeros, section count and digit blocks are the only things the strings add) -/
theorem parse_render (v : List Nat) (hv : v ≠ []) (hl : sectionsWithinLimit v) :
    parseVersion (renderSections v) = some v :=
  parseVersion_renderSections v hv hl

theorem sectionsLt_two (M m c1 c2 : Nat) :
    sectionsLt [M, m] [c1, c2] = true ↔ verLt (M, m, 0) (c1, c2, 0) := by
  simp only [sectionsLt, verLt]
  by_cases h1 : M < c1
  · simp [h1]
  · by_cases h2 : c1 < M
    · simp [h1, h2]; omega
    · have : M = c1 := by omega
      subst this
      by_cases h3 : m < c2
      · simp [h3]
      · by_cases h4 : c2 < m
        · simp [h3, h4]
        · simp [h3, h4]

theorem sectionsLt_three (M m p c1 c2 : Nat) :
    sectionsLt [M, m, p] [c1, c2] = true ↔ verLt (M, m, p) (c1, c2, 0) := by
  simp only [sectionsLt, verLt]
  by_cases h1 : M < c1
  · simp [h1]
  · by_cases h2 : c1 < M
    · simp [h1, h2]; omega
    · have : M = c1 := by omega
      subst this
      by_cases h3 : m < c2
      · simp [h3]
      · by_cases h4 : c2 < m
        · simp [h3, h4]
        · have : m = c2 := by omega
          subst this
          simp

/-- awesomeversion's padded section comparison of `M.m[.p]` with a two-section constant is
    the numeric order of the triples -/
theorem sectionsLt_iff (M m : Nat) (p : Option Nat) (c1 c2 : Nat) :
    sectionsLt (versionSections M m p) [c1, c2] = true ↔ verLt (M, m, p.getD 0) (c1, c2, 0) := by
  cases p with
  | none => exact sectionsLt_two M m c1 c2
  | some k => exact sectionsLt_three M m k c1 c2

/-- `is_version` accepts `M.m[.p]` exactly when it is not below 1.4 numerically -/
theorem is_version_iff (M m : Nat) (p : Option Nat) (hl : sectionsWithinLimit (versionSections M m p)) :
    isVersion (renderSections (versionSections M m p)) = some true ↔ verLe (1, 4, 0) (M, m, p.getD 0) := by
  rw [isVersion_renderSections _ (by cases p <;> simp [versionSections]) hl]
  have := sectionsLt_iff M m p 1 4
  simp only [verLe]
  cases h : sectionsLt (versionSections M m p) [1, 4] with
  | true => simp [← this, h]
  | false => simp [← this, h]

/-- **Floor rule.**  For every major, minor and optional patch, the tables selected for the
    version string `M.m[.p]` are those of the greatest supported version (1.4, 1.5, 2.0, 2.1,
    2.2) that is `≤ (M, m, p)` numerically — and 1.4 when there is none. -/
theorem floor (M m : Nat) (p : Option Nat) (hl : sectionsWithinLimit (versionSections M m p)) :
    ∃ c, selectConst (renderSections (versionSections M m p)) = some c ∧ IsFloor (M, m, p.getD 0) c := by
  rw [selectConst_renderSections _ (by cases p <;> simp [versionSections]) hl]
  refine ⟨_, rfl, ?_⟩
  have h14 := sectionsLt_iff M m p 1 4
  have h15 := sectionsLt_iff M m p 1 5
  have h20 := sectionsLt_iff M m p 2 0
  have h21 := sectionsLt_iff M m p 2 1
  have h22 := sectionsLt_iff M m p 2 2
  generalize p.getD 0 = k at *
  generalize versionSections M m p = secs at *
  simp only [selectConstSections]
  cases e14 : sectionsLt secs [1, 4] <;> cases e15 : sectionsLt secs [1, 5] <;>
    cases e20 : sectionsLt secs [2, 0] <;> cases e21 : sectionsLt secs [2, 1] <;>
    cases e22 : sectionsLt secs [2, 2] <;>
    simp only [e14, e15, e20, e21, e22, Bool.false_eq_true, false_iff, true_iff, verLt]
      at h14 h15 h20 h21 h22 <;>
    simp only [Bool.not_true, Bool.not_false, Bool.false_eq_true, ↓reduceIte] <;>
    first
    | omega
    | (left
       refine ⟨by simp only [verLe, verLt, constTriple]; omega, ?_⟩
       intro c' hc'
       cases c' <;> simp only [verLe, verLt, constTriple] at hc' ⊢ <;> omega)
    | (right
       refine ⟨?_, rfl⟩
       intro c'
       cases c' <;> simp only [verLe, verLt, constTriple] <;> omega)

/-- the floor is unique, so `floor` determines the selected tables completely -/
theorem floor_unique (v : Triple) (c c' : ConstId) (h : IsFloor v c) (h' : IsFloor v c') : c = c' := by
  obtain ⟨a, b, k⟩ := v
  rcases h with ⟨h1, h2⟩ | ⟨h1, rfl⟩ <;> rcases h' with ⟨h3, h4⟩ | ⟨h3, rfl⟩
  · have ha := h2 c' h3
    have hb := h4 c h1
    cases c <;> cases c' <;> first | rfl | (exfalso; simp [verLe, verLt, constTriple] at ha hb)
  · exact absurd h1 (h3 c)
  · exact absurd h3 (h1 c')
  · rfl

/-- a string that `is_version` rejects (numerically below 1.4) selects the 1.4 tables, for
    every string of the modelled domain — not only rendered ones -/
theorem rejected_falls_back (s : Str) (h : isVersion s = some false) : selectConst s = some .v14 := by
  unfold selectConst safeVersion
  rw [h]
  have h1 : versionString ['1', '.', '4'] = ['1', '.', '4'] := by decide
  have h2 : isContainerWord ['1', '.', '4'] = false := by decide
  simp [h1, h2, parseVersion_14, selectConstSections_14]

/-- **Invalid strings.**  Every string without a decimal digit — "abc", "", "None", any text — other
    than awesomeversion's four container words is rejected and selects the 1.4 tables. -/
theorem nonnumeric_falls_back (s : Str) (hd : hasDigit (versionString s) = false)
    (hc : isContainerWord (versionString s) = false) : selectConst s = some .v14 :=
  rejected_falls_back s (isVersion_noDigit s hd hc)

/-! ### the corollaries the property names -/

theorem v2_0 : selectConst "2.0".toList = some .v20 := by
  have hr : renderSections [2, 0] = "2.0".toList := by
    simp [renderSections, joinWith, renderNat_small]; decide
  have := selectConst_renderSections [2, 0] (by simp) (sectionsWithinLimit_small _ (by decide))
  rw [hr] at this
  simpa [selectConstSections, sectionsLt] using this

theorem v2_0_0 : selectConst "2.0.0".toList = some .v20 := by
  have hr : renderSections [2, 0, 0] = "2.0.0".toList := by
    simp [renderSections, joinWith, renderNat_small]; decide
  have := selectConst_renderSections [2, 0, 0] (by simp) (sectionsWithinLimit_small _ (by decide))
  rw [hr] at this
  simpa [selectConstSections, sectionsLt] using this

theorem v2_0_5 : selectConst "2.0.5".toList = some .v20 := by
  have hr : renderSections [2, 0, 5] = "2.0.5".toList := by
    simp [renderSections, joinWith, renderNat_small]; decide
  have := selectConst_renderSections [2, 0, 5] (by simp) (sectionsWithinLimit_small _ (by decide))
  rw [hr] at this
  simpa [selectConstSections, sectionsLt] using this

theorem v2_3 : selectConst "2.3".toList = some .v22 := by
  have hr : renderSections [2, 3] = "2.3".toList := by
    simp [renderSections, joinWith, renderNat_small]; decide
  have := selectConst_renderSections [2, 3] (by simp) (sectionsWithinLimit_small _ (by decide))
  rw [hr] at this
  simpa [selectConstSections, sectionsLt] using this

theorem v2_2_0 : selectConst "2.2.0".toList = some .v22 := by
  have hr : renderSections [2, 2, 0] = "2.2.0".toList := by
    simp [renderSections, joinWith, renderNat_small]; decide
  have := selectConst_renderSections [2, 2, 0] (by simp) (sectionsWithinLimit_small _ (by decide))
  rw [hr] at this
  simpa [selectConstSections, sectionsLt] using this

theorem v1_3 : selectConst "1.3".toList = some .v14 := by
  have hr : renderSections [1, 3] = "1.3".toList := by
    simp [renderSections, joinWith, renderNat_small]; decide
  have := selectConst_renderSections [1, 3] (by simp) (sectionsWithinLimit_small _ (by decide))
  rw [hr] at this
  simpa [selectConstSections, sectionsLt] using this

/-- every `0.x` and `0.x.y` selects 1.4 -/
theorem v0_x (m : Nat) (p : Option Nat) (hl : sectionsWithinLimit (versionSections 0 m p)) :
    selectConst (renderSections (versionSections 0 m p)) = some .v14 := by
  obtain ⟨c, hc, hf⟩ := floor 0 m p hl
  rw [hc]
  congr
  rcases hf with ⟨h1, _⟩ | ⟨_, rfl⟩
  · cases c <;> simp only [verLe, verLt, constTriple] at h1 <;> omega
  · rfl

/-- every version from 2.2 upwards (2.2, 2.3, 2.10, 3.0, 2.2.7, …) selects 2.2 -/
theorem v_ge_2_2 (M m : Nat) (p : Option Nat) (hl : sectionsWithinLimit (versionSections M m p))
    (h : verLe (2, 2, 0) (M, m, p.getD 0)) :
    selectConst (renderSections (versionSections M m p)) = some .v22 := by
  obtain ⟨c, hc, hf⟩ := floor M m p hl
  rw [hc]
  congr
  rcases hf with ⟨_, h2⟩ | ⟨h1, _⟩
  · have := h2 .v22 h
    cases c <;> first | rfl | (exfalso; simp [verLe, verLt, constTriple] at this)
  · exact absurd h (h1 .v22)

/-! ### constructor options -/

theorem pick_of_sublist {α} (s l : List α) (h : s.Sublist l) :
    ∃ mask, mask < 2 ^ l.length ∧ pick mask l = s := by
  induction h with
  | slnil => exact ⟨0, by simp, rfl⟩
  | cons a _ ih =>
    obtain ⟨mask, hm, hp⟩ := ih
    refine ⟨2 * mask, by simp [Nat.pow_succ]; omega, ?_⟩
    simp only [pick]
    have h1 : 2 * mask % 2 = 0 := by omega
    have h2 : 2 * mask / 2 = mask := by omega
    simp [h1, h2, hp]
  | cons_cons a _ ih =>
    obtain ⟨mask, hm, hp⟩ := ih
    refine ⟨2 * mask + 1, by simp [Nat.pow_succ]; omega, ?_⟩
    simp only [pick]
    have h1 : (2 * mask + 1) % 2 = 1 := by omega
    have h2 : (2 * mask + 1) / 2 = mask := by omega
    simp [h1, h2, hp]

theorem options_masks (c : GwClass) :
    ∀ mask, mask < 128 → honoured c ((classDesc c).required ++ pick mask (documentedKeys c)) = true := by
  cases c <;> decide +kernel

/-- **Options.**  For each of the six gateway classes and every sub-list `s` of its documented
    optional keywords (given together with the required arguments), the constructor chain
    raises no TypeError — no unconsumed key reaches `Gateway.__init__` — every given key is
    bound exactly once, and it is bound to the attribute the documentation promises. -/
theorem options (c : GwClass) (s : List Key) (h : s.Sublist (documentedKeys c)) :
    honoured c ((classDesc c).required ++ s) = true := by
  obtain ⟨mask, hm, hp⟩ := pick_of_sublist s _ h
  have hlen : (documentedKeys c).length = 7 := by cases c <;> rfl
  rw [hlen] at hm
  rw [← hp]
  exact options_masks c mask hm

/-- what `honoured` gives for one key: the constructor returns normally and the key's value
    is stored in the documented attribute -/
theorem options_lands (c : GwClass) (s : List Key) (h : s.Sublist (documentedKeys c)) (k : Key) (hk : k ∈ s) :
    ∃ asg, construct c ((classDesc c).required ++ s) = .ok asg ∧
      alookup k asg = alookup k (classDesc c).documented ∧ (alookup k asg).isSome = true ∧
      (asg.filter fun a => a.1 == k).length = 1 := by
  have ho := options c s h
  unfold honoured at ho
  cases hc : construct c ((classDesc c).required ++ s) with
  | typeError st key => simp [hc] at ho
  | ok asg =>
    simp only [hc, List.all_eq_true, Bool.and_eq_true, beq_iff_eq] at ho
    have := ho k (by simp [hk])
    refine ⟨asg, rfl, ?_, this.2, this.1.1⟩
    rw [this.1.2]
    -- an optional key is never one of the required ones
    have hmem : k ∈ documentedKeys c := h.subset hk
    cases c <;> simp [documentedKeys, classDesc, commonDocumented] at hmem <;>
      rcases hmem with rfl | rfl | rfl | rfl | rfl | rfl | rfl <;> rfl

/-- `Gateway.__init__` accepts only `event_callback` and `protocol_version`: any other key
    that reaches it is a TypeError (this is what made `timeout=` fail before the fix) -/
theorem gateway_strict (k : Key) (h1 : k ≠ .event_callback) (h2 : k ≠ .protocol_version) :
    runChain [stGateway] [k] = .typeError "Gateway" k := by
  cases k <;> first | exact absurd rfl h1 | exact absurd rfl h2 | rfl

/-! ### non-vacuity -/

/-- the full README example of the serial gateway -/
example : construct .serial [.port, .baud, .timeout, .reconnect_timeout, .event_callback, .persistence, .persistence_file, .protocol_version] =
    .ok [(.timeout, .tr_timeout), (.reconnect_timeout, .tr_reconnect_timeout), (.persistence, .tasks_persistence),
      (.persistence_file, .tasks_persistence_file), (.port, .gw_port), (.baud, .gw_baud),
      (.event_callback, .gw_event_callback), (.protocol_version, .gw_protocol_version)] := by decide

/-- the model can fail: the MQTT chain does not consume `timeout`, so it reaches `Gateway.__init__` -/
example : construct .mqtt [.pub_callback, .sub_callback, .timeout] = .typeError "Gateway" .timeout := by decide

/-- without the `pop`s in the serial base class the README example would fail (the pre-fix code) -/
example : runChain [stLeaf "SerialGateway", stBaseGw "BaseSyncGateway", { stBaseSerial with pops := [] }, stGateway]
    [.port, .timeout] = .typeError "Gateway" .timeout := by decide

example : selectConst "None".toList = some .v14 := nonnumeric_falls_back _ (by decide) (by decide)
example : selectConst [] = some .v14 := nonnumeric_falls_back _ (by decide) (by decide)

example : IsFloor (2, 0, 5) .v20 := by
  left
  refine ⟨by simp [verLe, verLt, constTriple], ?_⟩
  intro c' hc'
  cases c' <;> simp [verLe, verLt, constTriple] at hc' ⊢

example : sectionsWithinLimit (versionSections 2 9 (some 3)) :=
  sectionsWithinLimit_small _ (by decide)

end MySensors.C18
