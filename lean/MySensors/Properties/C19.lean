/-
  C19 — behaviour depends only on the lines received.

  Part 1 (segmentation).  `feedAll` is a sequence of `data_received` calls of the pyserial
  `Packetizer`/`LineReader` the MySensors protocol classes inherit (`TERMINATOR = b"\n"`), the
  decoder `dec` is an ARBITRARY function applied to each complete packet (the code applies
  `bytes.decode('utf-8', 'replace')` per packet), so a cut inside a multi-byte character or
  between CR and LF cannot matter: bytes are only interpreted once the line is complete, and
  the CR is removed later by `Message.decode`'s `rstrip`.

  Part 2 (flavours).  The asyncio pump runs a job at once (`runInline`); the threaded pump
  is a FIFO of jobs (`runSched` over arrival/pump events).  The full property
  `FlavoursAgree gwSplit` is FALSE for the code as it is (finding D12: a job added by a job
  goes behind the lines that were already waiting) — `flavours_counterexample`.  What does hold
  for EVERY schedule is proved as `flavours_partial_*`.
-/
import MySensors.Lemmas.Framing
import MySensors.Lemmas.Pump

namespace MySensors.C19

open MySensors

/-! ## Part 1 — segmentation -/

/-- SEGMENTATION INDEPENDENCE.  For every decoder, every list of chunks and every protocol
    object whose buffer holds no terminator (a fresh one, or any state `data_received` leaves
    behind): feeding the chunks one by one delivers the same lines, in the same order, and
    leaves the same residue as feeding their concatenation in one call. -/
theorem segmentation (dec : Bytes → Str) (f : Framer) (chunks : List Bytes) (hf : nl ∉ f.buffer) :
    feedAll dec f chunks = dataReceived dec f chunks.flatten :=
  feedAll_eq dec f chunks hf

/-- two segmentations of the same byte stream are indistinguishable -/
theorem segmentation_any_two (dec : Bytes → Str) (c₁ c₂ : List Bytes) (h : c₁.flatten = c₂.flatten) :
    feedAll dec {} c₁ = feedAll dec {} c₂ := by
  rw [feedAll_eq dec {} c₁ (by simp), feedAll_eq dec {} c₂ (by simp), h]

/-- a cut at ANY position of a stream (inside a multi-byte character, between CR and LF, in the
    middle of a frame, before or after the terminator) changes nothing -/
theorem cut_anywhere (dec : Bytes → Str) (a b : Bytes) :
    feedAll dec {} [a, b] = dataReceived dec {} (a ++ b) := by
  rw [feedAll_eq dec {} [a, b] (by simp)]; simp

/-- the buffer never holds a terminator between calls (the hypothesis of `segmentation` is an
    invariant of the protocol object) -/
theorem buffer_invariant (dec : Bytes → Str) (f : Framer) (data : Bytes) :
    nl ∉ (dataReceived dec f data).1.buffer :=
  dataReceived_buffer_noNl dec f data

/-- WHAT IS DELIVERED: exactly the '\n'-terminated segments, decoded one by one, and the
    residue is exactly the unterminated tail.  If the stream is `p₁ \n p₂ \n … pₖ \n r` with no
    terminator inside the `pᵢ` and `r`, then — however it is chunked — the lines delivered are
    `dec p₁ … dec pₖ` and the buffer afterwards is `r`. -/
theorem delivered_exact (dec : Bytes → Str) (chunks : List Bytes) (ps : List Bytes) (r : Bytes)
    (hps : ∀ p ∈ ps, nl ∉ p) (hr : nl ∉ r)
    (hs : chunks.flatten = (ps.map (· ++ [nl])).flatten ++ r) :
    feedAll dec {} chunks = ({ buffer := r }, ps.map dec) := by
  rw [feedAll_eq dec {} chunks (by simp), dataReceived_eq, hs]
  simp only [List.nil_append, segments_unique ps r hps hr]

/-- … and every stream has exactly one such decomposition (so `delivered_exact` always
    applies) -/
theorem decomposition_exists_unique (stream : Bytes) :
    ∃ (ps : List Bytes) (r : Bytes), ((∀ p ∈ ps, nl ∉ p) ∧ nl ∉ r ∧ stream = (ps.map (· ++ [nl])).flatten ++ r) ∧
      ∀ (ps' : List Bytes) (r' : Bytes), (∀ p ∈ ps', nl ∉ p) → nl ∉ r' → stream = (ps'.map (· ++ [nl])).flatten ++ r' →
        ps' = ps ∧ r' = r := by
  refine ⟨(segments stream).1, (segments stream).2,
    ⟨segments_fst_noNl stream, segments_snd_noNl stream, segments_rebuild stream⟩, ?_⟩
  intro ps' r' h1 h2 h3
  have := segments_unique ps' r' h1 h2
  rw [← h3] at this
  rw [this]; exact ⟨rfl, rfl⟩

/-- the TCP reader thread hands the stream over in pieces of at most 120 bytes
    (`sock.recv(120)`): same lines, same residue as one call; stated for every piece size -/
theorem tcp_chunking (dec : Bytes → Str) (n : Nat) (hn : 0 < n) (stream : Bytes) :
    feedAll dec {} (chunksOf n stream) = dataReceived dec {} stream ∧
    ∀ c ∈ chunksOf n stream, c.length ≤ n := by
  refine ⟨?_, chunksAux_length n hn stream [] (by simpa using hn)⟩
  rw [feedAll_eq dec {} _ (by simp), chunksOf_flatten]

/-- consequently the gateway's state and everything it sends are a function of the byte
    stream, not of its segmentation (inline pump on the delivered lines) -/
theorem behaviour_independent_of_segmentation (dec : Bytes → Str) (g : GW) (c₁ c₂ : List Bytes)
    (h : c₁.flatten = c₂.flatten) :
    runInline gwSplit g [] (feedAll dec {} c₁).2 = runInline gwSplit g [] (feedAll dec {} c₂).2 := by
  rw [segmentation_any_two dec c₁ c₂ h]

/-! ## Part 1b — connection events between the chunks

  Every gateway class gives the same protocol object to every connection it makes, and neither
  `connection_lost` nor `connection_made` touches the Packetizer buffer (`keep = true` in
  `Model/Framing.lean`; the correspondence feeds real protocol objects of the three classes
  with `connection_lost(None | OSError)` / `connection_made` between the chunks). -/

/-- RECONNECTS ARE INVISIBLE TO THE FRAMING.  For every decoder and every sequence of
    `data_received`, `connection_lost` and `connection_made` calls on a fresh protocol object:
    the lines delivered and the residue are those of ONE call with all the bytes. -/
theorem reconnect_is_concatenation (dec : Bytes → Str) (evs : List ConnEv) :
    feedEvents true dec {} evs = dataReceived dec {} (dataOf evs).flatten := by
  rw [feedEvents_keep, feedAll_eq dec {} _ (by simp)]

/-- … so two event sequences that carry the same bytes are indistinguishable, wherever the
    chunk and connection boundaries fall -/
theorem events_any_two (dec : Bytes → Str) (e₁ e₂ : List ConnEv)
    (h : (dataOf e₁).flatten = (dataOf e₂).flatten) :
    feedEvents true dec {} e₁ = feedEvents true dec {} e₂ := by
  rw [reconnect_is_concatenation, reconnect_is_concatenation, h]

/-- consequently the gateway's state and everything it sends do not depend on where the chunk
    and connection boundaries fall either (inline pump on the delivered lines) -/
theorem behaviour_independent_of_connection_events (dec : Bytes → Str) (g : GW) (e₁ e₂ : List ConnEv)
    (h : (dataOf e₁).flatten = (dataOf e₂).flatten) :
    runInline gwSplit g [] (feedEvents true dec {} e₁).2 = runInline gwSplit g [] (feedEvents true dec {} e₂).2 := by
  rw [events_any_two dec e₁ e₂ h]

/-- the policy the code does NOT follow (buffer emptied at `connection_lost`), stated so that
    the correspondence can name which of the two a protocol class implements: the lines are the
    complete segments of each connection's own stream -/
theorem reconnect_drop_policy (dec : Bytes → Str) (evs : List ConnEv) :
    (feedEvents false dec {} evs).2 = sessLines dec [] (sessions evs) :=
  feedEvents_drop dec {} evs (by simp)

/-- ONLY COMPLETE LINES ARE EVER DELIVERED.  Under either policy, whatever the events: every
    line handed to `handle_line` is the decoding of a terminator-free packet (one that was
    followed by a terminator); closing or opening a connection delivers nothing, so an
    unterminated tail never becomes a line by itself. -/
theorem events_deliver_complete_lines (keep : Bool) (dec : Bytes → Str) (evs : List ConnEv) :
    ∀ l ∈ (feedEvents keep dec {} evs).2, ∃ p, nl ∉ p ∧ l = dec p := by
  cases keep with
  | true =>
    rw [reconnect_is_concatenation, dataReceived_eq]
    intro l hl
    simp only [List.mem_map] at hl
    obtain ⟨p, hp, rfl⟩ := hl
    exact ⟨p, segments_fst_noNl _ p hp, rfl⟩
  | false =>
    rw [reconnect_drop_policy]
    exact sessLines_complete dec [] _

theorem lost_and_made_deliver_nothing (keep : Bool) (dec : Bytes → Str) (f : Framer) :
    (connStep keep dec f .lost).2 = [] ∧ (connStep keep dec f .made).2 = [] := ⟨rfl, rfl⟩

/-- the two policies agree whenever every connection ends on a terminator (no tail to keep or
    drop): `sessions` all terminator-ended ⇒ same lines.  Stated on the smallest shape that
    matters — one reconnect. -/
theorem policies_agree_without_tail (dec : Bytes → Str) (a b : Bytes)
    (ha : (segments a).2 = []) :
    (feedEvents true dec {} [.data a, .lost, .made, .data b]).2
      = (feedEvents false dec {} [.data a, .lost, .made, .data b]).2 := by
  simp [feedEvents, connStep, dataReceived_eq, ha]

def byteDec (b : Bytes) : Str := b.map Char.ofNat
def ascii (s : String) : Bytes := s.toList.map Char.toNat

/-- ADJACENT OBSERVATION (outside C19's quantifier, which has no reconnect; not raised): the
    unterminated tail of a dead connection is glued to the first line of the next one, so that
    line — here the gateway's start-up message — is lost to the decoder. -/
theorem adjacent_tail_glued_across_reconnect :
    (feedEvents true byteDec {}
        [.data (ascii "12;6;1;0;0;3"), .lost, .made, .data (ascii "0;255;3;0;14;ready\n")]).2
      = ["12;6;1;0;0;30;255;3;0;14;ready".toList] := by decide +kernel

/-- … and in general: if the connection that is lost had delivered `a` (complete lines plus a
    tail) and the next one starts with the line `p`, the first line after the reconnect is the
    old tail followed by `p` — one line, not two, and not `p`. -/
theorem adjacent_tail_glued_general (dec : Bytes → Str) (a p rest : Bytes) (hp : nl ∉ p) :
    (feedEvents true dec {} [.data a, .lost, .made, .data (p ++ nl :: rest)]).2
      = (segments a).1.map dec ++ dec ((segments a).2 ++ p) :: (segments rest).1.map dec := by
  rw [reconnect_is_concatenation, dataReceived_eq]
  simp only [dataOf, List.flatten_cons, List.flatten_nil, List.append_nil, List.nil_append]
  rw [segments_append a (p ++ nl :: rest), ← List.append_assoc,
    segments_line ((segments a).2 ++ p) rest (by
      intro h
      rcases List.mem_append.mp h with h | h
      · exact segments_snd_noNl a h
      · exact hp h)]
  simp

/-- non-vacuity: a history with two reconnects, a tail and complete lines on both sides -/
example : (feedEvents true byteDec {} [.data [49, 10, 50], .lost, .made, .data [51, 10], .lost, .data [52]])
    = ({ buffer := [52] }, [[Char.ofNat 49], [Char.ofNat 50, Char.ofNat 51]]) := by decide +kernel
example : (feedEvents false byteDec {} [.data [49, 10, 50], .lost, .made, .data [51, 10], .lost, .data [52]])
    = ({ buffer := [52] }, [[Char.ofNat 49], [Char.ofNat 51]]) := by decide +kernel

/-! ## Part 1c — the TCP reader thread (`TCPTransport.run`, gateway_tcp.py) -/

/-- THE READER LOOP ADDS NOTHING AND LOSES NOTHING.  Whatever the successive `recv(120)` calls
    return — pieces of any size, empty reads, iterations in which the socket was not readable —
    the lines delivered are the complete segments of the bytes the socket delivered, in order,
    and the residue is their unterminated tail. -/
theorem tcp_reader_loop (dec : Bytes → Str) (reads : List (Option Bytes)) :
    tcpReader dec {} reads = dataReceived dec {} (readBytes reads) :=
  tcpReader_eq dec {} reads (by simp)

theorem tcp_reader_any_two (dec : Bytes → Str) (r₁ r₂ : List (Option Bytes))
    (h : readBytes r₁ = readBytes r₂) : tcpReader dec {} r₁ = tcpReader dec {} r₂ := by
  rw [tcp_reader_loop, tcp_reader_loop, h]

/-- the reader loop on the greedy `recv(n)` pieces of a stream is one `data_received` of the stream -/
theorem tcp_reader_chunks (dec : Bytes → Str) (n : Nat) (stream : Bytes) :
    tcpReader dec {} ((chunksOf n stream).map some) = dataReceived dec {} stream := by
  rw [tcp_reader_loop]
  congr 1
  have h : ∀ cs : List Bytes, readBytes (cs.map some) = cs.flatten := by
    intro cs
    induction cs with
    | nil => rfl
    | cons c cs ih => simp [readBytes, ih]
  rw [h, chunksOf_flatten]

/-- non-vacuity, and the case a "skip blank reads" shortcut gets wrong: the terminator arriving in
    a read of its own (between an idle iteration and an empty read) completes the line -/
example : tcpReader byteDec {} [some [49, 59], none, some [10], some [], some [50]]
    = ({ buffer := [50] }, [[Char.ofNat 49, Char.ofNat 59]]) := by decide +kernel

/-! ## Part 2 — the two pumps -/

/-- the inline pump of this file is the gateway model's own `run` on the lines -/
theorem inline_is_model_run (g : GW) (lines : List Str) :
    (runInline gwSplit g [] lines).1 = run g (lines.map Op.line) := by
  rw [runInline_eq]
  simp only
  induction lines generalizing g with
  | nil => rfl
  | cons s ss ih => simp only [inlineSt, List.map_cons, run, gwSplit_state, ih]

/-- what the inline pump sends for one line is what the model's `step` sends -/
theorem inline_output_is_model_step (g : GW) (s : Str) :
    (runInline gwSplit g [] [s]).2 = (step g (.line s)).2.sent := by
  simp [runInline, gwSplit_sent]

/-! ## Part 2a — end to end: bytes in, gateway state out -/

/-- THE PROPERTY'S FIRST SENTENCE, END TO END (asyncio flavour).  Whatever the reader loop gets
    from the socket per read, and wherever connections are lost and re-made in between, the
    gateway's state afterwards is the model's `run` on the complete newline-terminated lines of
    the bytes received — a function of those lines alone. -/
theorem state_is_function_of_lines_reader (dec : Bytes → Str) (g : GW) (reads : List (Option Bytes)) :
    (runInline gwSplit g [] (tcpReader dec {} reads).2).1
      = run g (((segments (readBytes reads)).1.map dec).map Op.line) := by
  rw [inline_is_model_run, tcp_reader_loop, dataReceived_eq]
  simp

theorem state_is_function_of_lines_events (dec : Bytes → Str) (g : GW) (evs : List ConnEv) :
    (runInline gwSplit g [] (feedEvents true dec {} evs).2).1
      = run g (((segments (dataOf evs).flatten).1.map dec).map Op.line) := by
  rw [inline_is_model_run, reconnect_is_concatenation, dataReceived_eq]
  simp

def l1 : Str := "5;1;1;0;2;1\n".toList
def l2 : Str := "255;255;3;0;3;\n".toList
def fresh22 : GW := { const := .v22 }
def d12Schedule : List Ev := [.arrive l1, .arrive l2, .pump, .pump, .pump]

/-- THE FULL PROPERTY IS FALSE (D12).  Fresh 2.2 gateway; a set message from the unknown node 5
    and an id request are both waiting when the poll thread runs.  The first job adds the
    presentation request `5;255;3;0;19;` with `add_job` — behind the id request — so the
    threaded gateway sends the id response first, the asyncio gateway sends it last. -/
theorem flavours_counterexample : ¬ FlavoursAgree gwSplit := by
  intro h
  have h1 := h fresh22 d12Schedule (by decide +kernel)
  have h2 := congrArg Prod.snd h1
  exact absurd h2 (by decide +kernel)

/-- what the two flavours send in the counterexample -/
theorem flavours_counterexample_outputs :
    (runSched gwSplit { st := fresh22 } d12Schedule).emitted
      = ["255;255;3;0;4;1\n".toList, "5;255;3;0;19;\n".toList] ∧
    (runInline gwSplit fresh22 [] (arrivals d12Schedule)).2
      = ["5;255;3;0;19;\n".toList, "255;255;3;0;4;1\n".toList] := by
  constructor <;> decide +kernel

/-- the state D12 was first seen in: node 1 with child 1 (value reported) went to smart sleep
    and a value request of it was answered into its hold queue -/
def sleepy : GW :=
  run fresh22 (["1;255;0;0;17;2.2\n".toList, "1;1;0;0;3;\n".toList, "1;1;1;0;2;1\n".toList,
    "1;255;3;0;32;500\n".toList, "1;1;2;0;2;\n".toList].map Op.line)

def wake : Str := "1;255;3;0;32;500\n".toList

/-- the same with a WAKE-UP BURST: node 1 wakes up while an id request is already waiting; the
    flush of its hold queue is emitted after the id response by the threaded pump and before it
    by the asyncio pump -/
theorem flavours_counterexample_wakeup :
    (runSched gwSplit { st := sleepy } [.arrive wake, .arrive l2, .pump, .pump, .pump]).queue = [] ∧
    (runSched gwSplit { st := sleepy } [.arrive wake, .arrive l2, .pump, .pump, .pump]).emitted
      = ["255;255;3;0;4;2\n".toList, "1;1;1;0;2;1\n".toList] ∧
    (runInline gwSplit sleepy [] [wake, l2]).2
      = ["1;1;1;0;2;1\n".toList, "255;255;3;0;4;2\n".toList] := by
  refine ⟨by decide +kernel, by decide +kernel, by decide +kernel⟩

/-- PARTIAL 1 — STATE.  For EVERY schedule that ends with an empty queue, from every state:
    the threaded gateway ends in exactly the state of the asyncio gateway on the same lines
    (which is the gateway model's `run`). -/
theorem flavours_partial_state (g : GW) (sched : List Ev)
    (hq : (runSched gwSplit { st := g } sched).queue = []) :
    (runSched gwSplit { st := g } sched).st = (runInline gwSplit g [] (arrivals sched)).1 ∧
    (runSched gwSplit { st := g } sched).st = run g ((arrivals sched).map Op.line) := by
  have h := (sync_final gwSplit g sched hq).1
  have e : (runInline gwSplit g [] (arrivals sched)).1 = inlineSt gwSplit g (arrivals sched) := by
    rw [runInline_eq]
  exact ⟨by rw [h, e], by rw [← inline_is_model_run, h, e]⟩

/-- PARTIAL 2 — OUTPUT UP TO ORDER.  For every schedule that ends with an empty queue the
    threaded gateway sends exactly the texts the asyncio gateway sends, each as often
    (a permutation), and more precisely an order-preserving interleaving of the handlers'
    return values (in line order) with the texts of the jobs they added (in line order): the
    only freedom is how the second sequence is shifted against the first. -/
theorem flavours_partial_output (g : GW) (sched : List Ev)
    (hq : (runSched gwSplit { st := g } sched).queue = []) :
    Interleave (inlineReplies gwSplit g (arrivals sched)) (inlineNested gwSplit g (arrivals sched))
      (runSched gwSplit { st := g } sched).emitted ∧
    (runSched gwSplit { st := g } sched).emitted.Perm (runInline gwSplit g [] (arrivals sched)).2 := by
  have h := (sync_final gwSplit g sched hq).2
  refine ⟨h, ?_⟩
  rw [runInline_eq]
  simp only [List.nil_append]
  exact h.perm.trans (inlineEm_perm gwSplit g _).symm

/-- PARTIAL 3 — NO NESTED JOBS.  If no line of the history makes a handler add a job (no
    wake-up of a smart-sleep node, no traffic from unknown nodes or children), the flavours
    agree completely under EVERY schedule. -/
theorem flavours_partial_no_nested (g : GW) (sched : List Ev)
    (hq : (runSched gwSplit { st := g } sched).queue = [])
    (hn : inlineNested gwSplit g (arrivals sched) = []) :
    ((runSched gwSplit { st := g } sched).st, (runSched gwSplit { st := g } sched).emitted)
      = runInline gwSplit g [] (arrivals sched) := by
  obtain ⟨hs, hi⟩ := sync_final gwSplit g sched hq
  rw [hn] at hi
  have hem : (runSched gwSplit { st := g } sched).emitted = inlineReplies gwSplit g (arrivals sched) := by
    generalize (runSched gwSplit { st := g } sched).emitted = c at hi
    generalize inlineReplies gwSplit g (arrivals sched) = a at hi
    generalize hb : ([] : List Str) = b at hi
    induction hi with
    | nil => rfl
    | left x _ ih => rw [ih hb]
    | right x _ _ => cases hb
  have hne : ∀ (st : GW) (ls : List Str), inlineNested gwSplit st ls = [] →
      inlineEm gwSplit st ls = inlineReplies gwSplit st ls := by
    intro st ls
    induction ls generalizing st with
    | nil => intro _; rfl
    | cons s ss ih =>
      intro h
      simp only [inlineNested, List.append_eq_nil_iff] at h
      simp only [inlineEm, inlineReplies, h.1, List.nil_append, ih _ h.2]
  rw [runInline_eq, hs, hem, hne g _ hn]; simp

/-- PARTIAL 4 — ORDER.  Full agreement (state AND emitted sequence) for every schedule in
    which a line job that adds jobs never runs while something waits behind it
    (`Quiet`) — exactly the situation D12 needs is excluded, nothing else. -/
theorem flavours_partial_quiet (g : GW) (sched : List Ev)
    (hquiet : Quiet gwSplit { st := g } sched)
    (hq : (runSched gwSplit { st := g } sched).queue = []) :
    ((runSched gwSplit { st := g } sched).st, (runSched gwSplit { st := g } sched).emitted)
      = runInline gwSplit g [] (arrivals sched) :=
  quiet_final gwSplit gwSplit_oneSided g sched hquiet hq

/-- PARTIAL 5 — DRAINED.  In particular the flavours agree whenever the pump is drained
    between lines (a line only ever arrives at an empty queue), whatever happens in between. -/
theorem flavours_partial_drained (g : GW) (sched : List Ev)
    (hd : Drained gwSplit { st := g } sched)
    (hq : (runSched gwSplit { st := g } sched).queue = []) :
    ((runSched gwSplit { st := g } sched).st, (runSched gwSplit { st := g } sched).emitted)
      = runInline gwSplit g [] (arrivals sched) :=
  quiet_final gwSplit gwSplit_oneSided g sched
    (quiet_of_drained gwSplit _ sched (Or.inl rfl) hd) hq

/-! ## non-vacuity -/

/-- a stream with CRLF, LF, an invalid UTF-8 byte and an unterminated tail, cut in the middle
    of everything: lines and residue as `delivered_exact` says (decoder = one char per byte) -/
example : feedAll (fun b => b.map Char.ofNat) {} [[49, 59], [50, 13], [10, 255, 10, 10, 51], [52]]
    = ({ buffer := [51, 52] }, [[Char.ofNat 49, Char.ofNat 59, Char.ofNat 50, Char.ofNat 13],
        [Char.ofNat 255], []]) := by decide

example : chunksOf 3 [1, 2, 3, 4, 5, 6, 7] = [[1, 2, 3], [4, 5, 6], [7]] := by decide

/-- the drained version of the counterexample schedule satisfies the hypotheses of
    `flavours_partial_drained` (and ends with an empty queue): the partial theorems are not
    vacuous, and the same two lines then produce the asyncio order -/
example : Drained gwSplit { st := fresh22 } [.arrive l1, .pump, .pump, .arrive l2, .pump] ∧
    (runSched gwSplit { st := fresh22 } [.arrive l1, .pump, .pump, .arrive l2, .pump]).queue = [] ∧
    (runSched gwSplit { st := fresh22 } [.arrive l1, .pump, .pump, .arrive l2, .pump]).emitted
      = ["5;255;3;0;19;\n".toList, "255;255;3;0;4;1\n".toList] := by
  refine ⟨⟨by decide +kernel, by decide +kernel, trivial⟩, by decide +kernel, by decide +kernel⟩

/-- the counterexample schedule is NOT quiet (the hypothesis of partial 4 is what fails) -/
example : ¬ Quiet gwSplit { st := fresh22 } d12Schedule := by
  intro h
  have h1 : (gwSplit fresh22 l1).2.nested = [] ∨ [Job.line l2] = [] := h.1
  rcases h1 with h1 | h1
  · exact absurd h1 (by decide +kernel)
  · cases h1

end MySensors.C19
