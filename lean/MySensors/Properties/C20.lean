/-
  C20 — connections are supervised and the callbacks are exact.

  Model: `MySensors/Model/Supervisor.lean` — one event automaton per gateway class
  (serial/TCP × threaded/asyncio) mirroring the code as it is, and `check_connection` over a
  `Nat`-millisecond clock.  All theorems quantify over **every** event sequence (`List Ev`, any
  length, all four gateway classes) or over every admissible timed trace with the reconnect
  timeout `rt`, the check gap `G` and the refresh delay `d` universally quantified.

  Two parts of the property were false of the tree before two repairs (`fx = false` in the
  model; the old definitions are kept so the failures stay on record as
  `…_unfixed_counterexample`) and are proved in full for the code as it is now:

  * `ReconnectFollowsLoss` — before: an orderly close by the peer reached
    `AsyncTCPMySensorsProtocol.connection_lost(None)`; `_connection_lost` only reconnects `if exc`
    and the watchdog timer had just been cancelled, so the link stayed down for ever.  Now
    `eof_received` requests the reconnect.
  * `QuietAfterStop` — before: `AsyncTasks.stop` cancels `transport.connect_task`, which is
    only set by *re*connects, and the dial loop of `await gateway.start()` was `while True`: it
    kept dialling every `rt` after `stop()`.  Now both `async_connect` loops test
    `while transport.protocol` like the threaded ones.

  Also visible in the model and not hidden: a connect attempt that succeeds after
  `disconnect()/stop()` hands the new connection to `protocol_factory() == None`; the reader
  thread / connect task dies with `AttributeError` (`Out.crash`), no callback fires, the port
  or socket is never closed.
-/
import MySensors.Lemmas.Supervisor

namespace MySensors.C20

open MySensors.Sup

/-! ### Callbacks are exact -/

/-- one event: `on_conn_made` fires exactly when a connection comes up in this step (once),
    `on_conn_lost` exactly when one goes away (once) — for every gateway class, state, event -/
theorem callbacks_exact_step (f : Flavour) (s : L) (e : Ev) :
    (lstep f s e).2.countP isMade = edgeMade (isUp s.link) (isUp (lstep f s e).1.link) ∧
    (lstep f s e).2.countP isLost = edgeLost (isUp s.link) (isUp (lstep f s e).1.link) :=
  ⟨step_made f s e, step_lost f s e⟩

/-- **every event sequence**: the number of `on_conn_made` calls is the number of connections
    established, the number of `on_conn_lost` calls the number of connections lost -/
theorem callbacks_exact (f : Flavour) (evs : List Ev) : ∀ s : L,
    (outsOf f s evs).countP isMade = rises f s evs ∧
    (outsOf f s evs).countP isLost = falls f s evs := by
  induction evs with
  | nil => intro s; exact ⟨rfl, rfl⟩
  | cons e es ih =>
    intro s
    have h := ih (lstep f s e).1
    simp only [outsOf, rises, falls, List.countP_append, step_made, step_lost, h.1, h.2]
    exact ⟨rfl, rfl⟩

/-- **every event sequence**: the callbacks alternate made, lost, made, … and end in the state
    of the link (so `#made = #lost` or `#lost + 1`) -/
theorem callbacks_alternate (f : Flavour) (evs : List Ev) : ∀ s : L,
    alt (isUp s.link) (outsOf f s evs) = some (isUp (final f s evs).link) := by
  induction evs with
  | nil => intro s; rfl
  | cons e es ih =>
    intro s
    simp only [outsOf, final, alt_append, step_alt, Option.bind_some]
    exact ih _

/-! ### A reconnect follows every loss the user did not request -/

/-- the full statement: whenever an event other than `userDisconnect` / `stop` takes the link
    down, the same step dials again, a connect loop stays alive and the protocol is kept -/
def ReconnectFollowsLoss (f : Flavour) : Prop :=
  ∀ (pre : List Ev) (e : Ev),
    isUp (final f linit pre).link = true →
    isUp (lstep f (final f linit pre) e).1.link = false → userEv e = false →
    Out.connectAttempt ∈ (lstep f (final f linit pre) e).2 ∧
    (lstep f (final f linit pre) e).1.proto = true ∧
    ∃ tr, (lstep f (final f linit pre) e).1.link = .attempting tr

/-- **every event sequence, every gateway class**: a loss the user did not request is followed
    in the same step by a connect attempt, a live connect loop and an intact protocol -/
theorem reconnect_follows_loss (f : Flavour) : ReconnectFollowsLoss f := by
  intro pre e hup hdown hu
  have hi : inv (final f linit pre) = true := final_inv f pre linit rfl
  have h := reconnOk_all f (final f linit pre) e
  simp only [reconnOk, hi, hup, hdown, hu, Bool.not_false, Bool.and_self, Bool.not_true,
    Bool.false_or, Bool.and_eq_true] at h
  obtain ⟨⟨h1, h2⟩, h3⟩ := h
  refine ⟨by simpa using h1, h2, ?_⟩
  cases hl : (lstep f (final f linit pre) e).1.link with
  | attempting tr => exact ⟨tr, rfl⟩
  | idle => rw [hl] at h3; cases h3
  | up => rw [hl] at h3; cases h3
  | upEof => rw [hl] at h3; cases h3

/-- the same statement about the tree before the repairs -/
def ReconnectFollowsLossUnfixed (f : Flavour) : Prop :=
  ∀ (pre : List Ev) (e : Ev),
    isUp (finalG false f linit pre).link = true →
    isUp (lstepG false f (finalG false f linit pre) e).1.link = false → userEv e = false →
    Out.connectAttempt ∈ (lstepG false f (finalG false f linit pre) e).2

/-- before the repair, asyncio TCP: connect, then the peer closes in an orderly way —
    `on_conn_lost(None)` and nothing else, no connect loop, although the user asked for nothing -/
theorem reconnect_follows_loss_unfixed_counterexample : ¬ ReconnectFollowsLossUnfixed .tcpAsync := by
  intro h
  have := h [.connectOk] .peerCloseOrderly rfl rfl rfl
  revert this; decide

/-- the repaired asyncio TCP gateway on the same events: the dial starts, then `on_conn_lost(None)` -/
theorem tcp_async_orderly_close_redials :
    outsOf .tcpAsync linit [.connectOk, .peerCloseOrderly, .connectOk] =
      [.connMade, .connectAttempt, .connLost false, .connMade] := by decide

/-- the threaded TCP reader does not notice an orderly close at all (`recv() == b""` is
    ignored); the loss is only found by the watchdog or the next failing write -/
theorem tcp_sync_orderly_close_unnoticed :
    lstep .tcpSync { proto := true, link := .up } .peerCloseOrderly = ({ proto := true, link := .upEof }, []) ∧
    (lstep .tcpSync { proto := true, link := .upEof } .probeTimeout).2 =
      [.write, .connLost true, .connectAttempt] := by decide

/-- **repeating at the configured interval until it succeeds**: from a live connect loop at time
    `t0`, `n` failed attempts give `n` further attempts exactly `rt` apart, and the success then
    fires `on_conn_made` — for every `n`, `rt`, `t0`, gateway class -/
theorem retry_until_success (f : Flavour) (rt t0 n : Nat) (tr : Bool) :
    trun f rt { l := { proto := true, link := .attempting tr }, now := t0 } (List.replicate n .connectFail) =
      ({ l := { proto := true, link := .attempting tr }, now := t0 + n * rt }, expectAttempts rt t0 n) ∧
    tstep f rt { l := { proto := true, link := .attempting tr }, now := t0 + n * rt } .connectOk =
      ({ l := { proto := true, link := .up }, now := t0 + n * rt }, [(t0 + n * rt, .connMade)]) :=
  ⟨trun_fails f rt tr n t0, tstep_ok f rt (t0 + n * rt) tr⟩

/-! ### Nothing after stop() -/

/-- the full statement: after a `stop` event no later event produces a callback, a write or a
    connect attempt -/
def QuietAfterStop (f : Flavour) : Prop :=
  ∀ (pre post : List Ev), ∀ o ∈ outsOf f (final f linit (pre ++ [.stop])) post, loud o = false

/-- **every event sequence, every gateway class**: after `stop()` nothing but (possibly) the
    crash of an attempt that was already in flight -/
theorem quiet_after_stop (f : Flavour) : QuietAfterStop f := by
  intro pre post
  have hi : inv (final f linit pre) = true := final_inv f pre linit rfl
  have hs := stopOk_all f (final f linit pre)
  have hd : dead f (lstep f (final f linit pre) .stop).1 = true := by
    simp only [stopOk, hi, Bool.not_true, Bool.false_or] at hs
    exact hs
  rw [final_append]
  exact dead_quiet f post _ hd

/-- the same statement about the tree before the repairs -/
def QuietAfterStopUnfixed (f : Flavour) : Prop :=
  ∀ (pre post : List Ev), ∀ o ∈ outsOfG false f (finalG false f linit (pre ++ [.stop])) post, loud o = false

/-- before the repair, both asyncio gateways: `stop()` while the first connect is still being
    retried, then the attempt in flight fails — a new connect attempt is made `rt` later -/
theorem quiet_after_stop_unfixed_counterexample :
    ¬ QuietAfterStopUnfixed .serialAsync ∧ ¬ QuietAfterStopUnfixed .tcpAsync := by
  constructor <;> intro h <;> have := h [] [.connectFail] .connectAttempt (by decide) <;> cases this

/-- not hidden: a connect attempt that completes after `disconnect()` / `stop()` makes the new
    reader thread / the connect task die with `AttributeError`; no callback fires -/
theorem connect_after_disconnect_crashes (f : Flavour) :
    outsOf f linit [.userDisconnect, .connectOk] = [.crash] := by
  cases f <;> rfl

/-! ### Watchdog -/

/-- **no false drop, threaded reader.**  `rt` the reconnect timeout, `G` the largest gap between
    two `check_connection` calls (the reader's polling period), `d` the largest delay from the
    check that queues a probe to the refresh of `tcp_disconnect_timer` by its answer.  If
    `d + G ≤ rt`, then on every timed trace of checks and answers that respects `G` and `d` the
    link is never dropped.  The slack is `g = G` on top of `d`; see `threaded_refresh_delay`
    for `d ≤ L + 3·p`, which makes the condition on the network latency `L ≤ rt − 4·p`. -/
theorem watchdog_no_false_drop (rt G d t0 : Nat) (h : d + G ≤ rt) (evs : List WEv)
    (ha : AdmDense rt G d (wsInit t0) evs) : (wrun rt (wsInit t0) evs).dropped = false :=
  (dinv_run rt G d h evs (wsInit t0) (dinv_init rt G t0) ha).nd

/-- **no false drop, asyncio timer.**  Checks come more than `rt` and at most `2·rt` after the
    previous one (the timer period is `rt + 100 ms`, so this needs `100 ms ≤ rt`) and every probe
    is answered before the next check (any latency `≤ rt` qualifies): never dropped. -/
theorem watchdog_no_false_drop_periodic (rt t0 : Nat) (evs : List WEv)
    (ha : AdmSparse rt (wsInit t0) evs) : (wrun rt (wsInit t0) evs).dropped = false :=
  (pinv_run rt evs (wsInit t0) (pinv_init t0) ha).nd

/-- with `rt < 100 ms` the asyncio flavour drops a healthy link at its first timer check, before
    any probe was sent (precondition of `watchdog_no_false_drop_periodic`, made explicit) -/
theorem watchdog_async_small_rt_drops (rt t0 : Nat) (h : rt < 100) :
    (check rt (wconnect t0) (t0 + (rt + 100))).2 = .drop := by
  rcases check_cases rt (wconnect t0) (t0 + (rt + 100)) with ⟨_, hc⟩ | ⟨a, _, _⟩ | ⟨a, _, _⟩
  · rw [hc]
  · simp [wconnect] at a; omega
  · simp [wconnect] at a; omega

/-- **a silent link is dropped.**  `w.tDisc` is the last refresh; the checks `ts` continue at
    most `G` apart from the last one `l` (which had not dropped yet) and go on beyond
    `tDisc + 2·rt`.  Then one of them drops the link, the first one that does is later than
    `tDisc + 2·rt` and no later than `tDisc + 2·rt + G`.  Threaded: `G = p` (20 ms);
    asyncio: `G = rt + 100 ms`, and exactly `2·rt + 200 ms` after the connect for a link that never
    answers (`async_silent_from_connect`).  The re-dial is in the same step
    (`drop_redials`). -/
theorem watchdog_drop (rt G : Nat) (w : W) (l : Nat) (ts : List Nat) (hg : Gaps G l ts)
    (hl : l ≤ w.tDisc + 2 * rt) (hbeyond : ∃ t ∈ ts, w.tDisc + 2 * rt < t) :
    ∃ c, firstDrop rt w ts = some c ∧ w.tDisc + 2 * rt < c ∧ c ≤ w.tDisc + 2 * rt + G :=
  firstDrop_spec rt G w.tDisc ts w l rfl hg hl hbeyond

/-- asyncio, never answered: dropped exactly at the second timer check, `2·rt + 200 ms` after the
    connection was made (needs `100 ms ≤ rt`) -/
theorem async_silent_from_connect (rt t0 : Nat) (h : 100 ≤ rt) :
    firstDrop rt (wconnect t0) [t0 + (rt + 100), t0 + 2 * (rt + 100), t0 + 3 * (rt + 100)]
      = some (t0 + 2 * (rt + 100)) := by
  rcases check_cases rt (wconnect t0) (t0 + (rt + 100)) with ⟨a, _⟩ | ⟨_, a, _⟩ | ⟨_, _, hc⟩
  · simp [wconnect] at a; omega
  · simp [wconnect] at a; omega
  · simp only [firstDrop, hc]
    rcases check_cases rt { wconnect t0 with tCheck := t0 + (rt + 100) } (t0 + 2 * (rt + 100)) with ⟨_, hc2⟩ | ⟨a, _, _⟩ | ⟨a, _, _⟩
    · simp only [hc2]
    · simp [wconnect] at a; omega
    · simp [wconnect] at a; omega

/-- the watchdog's drop is followed by a new connect attempt in the same step, in both TCP
    flavours (threaded: `connection_lost(exc)`; asyncio: `close()` + `conn_lost_callback()`) -/
theorem drop_redials :
    (lstep .tcpSync { proto := true, link := .up } .probeTimeout).2 = [.write, .connLost true, .connectAttempt] ∧
    (lstep .tcpAsync { proto := true, link := .up } .probeTimeout).2 = [.write, .connLost false, .connectAttempt] := by
  decide

/-- where the delay `d` of the threaded flavour comes from: the probe queued by the check at `c`
    is written by the pump within one polling period `p`, the answer arrives `L` later, is
    received by the reader within `p` and handled by the pump within another `p` -/
theorem threaded_refresh_delay (c w a r h p L : Nat) (h1 : w ≤ c + p) (h2 : a = w + L)
    (h3 : r ≤ a + p) (h4 : h ≤ r + p) : h ≤ c + (L + 3 * p) := by omega

/-- so a network latency `L ≤ rt − 4·p` meets the hypothesis of `watchdog_no_false_drop` with
    `G = p`, `d = L + 3·p` -/
theorem threaded_slack (rt p L : Nat) (h : L + 4 * p ≤ rt) : (L + 3 * p) + p ≤ rt := by omega

/-- not hidden: inside the slack the threaded flavour does drop a link whose probe is answered
    within `rt`.  `rt = 200`, first probe at 220 (first check after `rt`), its answer is due at
    220 + 200 = 420 + handling, the check at 420 already finds `0 + 2·200 < 420`. -/
theorem watchdog_boundary_drop_witness :
    (wrun 200 (wsInit 0) [.check 220, .check 420]).dropped = true ∧
    (wrun 200 (wsInit 0) [.check 220]).pend = some 220 := by decide

/-! Non-vacuity -/

/-- an admissible dense trace: rt = 60, G = 20, d = 40 (d + G ≤ rt): probe at 80, refreshed at 120 -/
example : AdmDense 60 20 40 (wsInit 0)
    [.check 20, .check 40, .check 60, .check 80, .check 100, .check 120, .answer 120, .check 140] ∧
    (wrun 60 (wsInit 0) [.check 20, .check 40, .check 60, .check 80]).pend = some 80 := by decide

/-- the asyncio timer trace for rt = 200 with every probe answered after exactly rt: admissible -/
example : AdmSparse 200 (wsInit 0)
    [.check 300, .answer 500, .check 600, .answer 800, .check 900, .answer 1100, .check 1200] := by decide

example : outsOf .tcpSync linit [.connectFail, .connectOk, .send, .readError, .connectOk, .stop, .connectOk]
    = [.connectAttempt, .connMade, .write, .connLost true, .connectAttempt, .connMade, .connLost false] := by decide

example : rises .tcpSync linit [.connectFail, .connectOk, .send, .readError, .connectOk, .stop] = 2 ∧
    falls .tcpSync linit [.connectFail, .connectOk, .send, .readError, .connectOk, .stop] = 2 := by decide

example : Gaps 20 400 [420, 440] ∧ (∃ t ∈ [420, 440], 0 + 2 * 200 < t) := by
  refine ⟨by simp [Gaps], 420, by simp, by omega⟩

end MySensors.C20
