/-
  `float(str)` of CPython as far as accept / reject and range tests need it: the exact
  decimal value as a rational (or ±inf / nan).  No Lean `Float` is used anywhere.

  Grammar (after skipping the same white space as `int()`, Unicode decimal digits already
  mapped to ASCII by CPython):  [sign] ( "inf" | "infinity" | "nan"
      | (digits ["." [digits]] | "." digits) [("e"|"E") [sign] digits] ),
  underscores allowed only between two digits.
-/
import MySensors.Py.Int

namespace MySensors

inductive FVal
  | nan
  | inf (neg : Bool)
  | fin (q : Rat)
  deriving DecidableEq

/-- characters after CPython's transformation: a digit value, or the character itself -/
inductive FTok | dig (d : Nat) | chr (c : Char)
  deriving DecidableEq

def ftoks (s : Str) : List FTok :=
  s.map fun c => match digitVal c with
    | some d => .dig d
    | none => .chr c

/-- drop underscores; each must sit between two digits -/
def dropUnderscores : Option FTok → List FTok → Option (List FTok)
  | prev, [] => if prev = some (.chr '_') then none else some []
  | prev, t :: ts =>
    if t = .chr '_' then
      match prev with
      | some (.dig _) => dropUnderscores (some t) ts
      | _ => none
    else
      match prev, t with
      | some (.chr '_'), .chr _ => none
      | _, _ => (dropUnderscores (some t) ts).map (t :: ·)

def takeDigits : List FTok → List Nat × List FTok
  | .dig d :: ts => let (ds, r) := takeDigits ts; (d :: ds, r)
  | ts => ([], ts)

def lowerAscii (c : Char) : Char :=
  if 'A'.toNat ≤ c.toNat ∧ c.toNat ≤ 'Z'.toNat then Char.ofNat (c.toNat + 32) else c

def tokWord (ts : List FTok) : Option Str :=
  ts.mapM fun t => match t with | .chr c => some (lowerAscii c) | .dig _ => none

def pow10 (e : Int) : Rat :=
  if e ≥ 0 then ((10 ^ e.toNat : Nat) : Rat) else 1 / ((10 ^ (-e).toNat : Nat) : Rat)

/-- clamp a decimal exponent: beyond ±(7000 + number of mantissa digits) the value is already
    far outside every double and every threshold the rules compare with -/
def clampExp (e : Int) (nd : Nat) : Int :=
  let b : Int := 7000 + nd
  if e > b then b else if e < -b then -b else e

def parseDecimal (ts : List FTok) : Option Rat :=
  let (ip, r1) := takeDigits ts
  let (fp, r2) := match r1 with
    | .chr '.' :: r => takeDigits r
    | r => ([], r)
  if ip.isEmpty && fp.isEmpty then none else
  let mant : Nat := ofDigits (ip ++ fp)
  let scale : Int := - (fp.length : Int)
  match r2 with
  | [] => some ((mant : Rat) * pow10 scale)
  | .chr e :: r3 =>
    if e = 'e' || e = 'E' then
      let (neg, r4) := match r3 with
        | .chr '-' :: r => (true, r)
        | .chr '+' :: r => (false, r)
        | r => (false, r)
      let (ed, r5) := takeDigits r4
      if ed.isEmpty || !r5.isEmpty then none else
      let ev : Int := ofDigits ed
      let ex := clampExp ((if neg then -ev else ev) + scale) (ip.length + fp.length)
      some ((mant : Rat) * pow10 ex)
    else none
  | _ => none

/-- `float(s)`: `none` = ValueError -/
def pyFloat (s : Str) : Option FVal :=
  let body := rstripBy isIntSpace (lstripBy isIntSpace s)
  let (neg, rest) := match body with
    | '-' :: r => (true, r)
    | '+' :: r => (false, r)
    | r => (false, r)
  let toks := ftoks rest
  match tokWord toks with
  | some w =>
    if w = "inf".toList || w = "infinity".toList then some (.inf neg)
    else if w = "nan".toList then some .nan
    else none
  | none =>
    match dropUnderscores none toks with
    | none => none
    | some ts =>
      match parseDecimal ts with
      | some q => some (.fin (if neg then -q else q))
      | none => none

end MySensors
