/-
  `str(int)` and `int(str)` of CPython 3.12, over `List Char`.

  int(s):  skip white space (25 code points) at both ends, one optional sign, then decimal
  digits of *any* Unicode Nd block, single underscores allowed between digits; more than
  `intMaxDigits` digit characters (leading zeros count, underscores do not) is a ValueError.
  str(n):  ValueError when n has more than `intMaxDigits` digits.
-/
import MySensors.Py.Str

namespace MySensors

/-- decimal value of a character of any Unicode Nd block -/
def digitVal (c : Char) : Option Nat :=
  match PyTables.digitZeros.find? (fun z => z ≤ c.toNat && c.toNat < z + 10) with
  | some z => some (c.toNat - z)
  | none => none

def digitChar (d : Nat) : Char := Char.ofNat (48 + d)

/-- most significant digit first -/
def natDigits (n : Nat) : List Nat :=
  if n < 10 then [n] else natDigits (n / 10) ++ [n % 10]

def ofDigits (ds : List Nat) : Nat := ds.foldl (fun a d => 10 * a + d) 0

def renderNat (n : Nat) : Str := (natDigits n).map digitChar

/-- `str(n)` ignoring the digit limit -/
def renderInt (n : Int) : Str :=
  match n with
  | Int.ofNat k => renderNat k
  | Int.negSucc k => '-' :: renderNat (k + 1)

def numDigits (n : Int) : Nat := (natDigits n.natAbs).length

/-- `str(n)`: `none` is the ValueError of the digit limit -/
def pyStrInt (n : Int) : Option Str :=
  if numDigits n ≤ PyTables.intMaxDigits then some (renderInt n) else none

/-- digits with single underscores between them; `prev` = the previous character was a digit -/
def parseDigits (prev : Bool) : Str → Option (List Nat)
  | [] => if prev then some [] else none
  | c :: cs =>
    match digitVal c with
    | some d => (parseDigits true cs).map (d :: ·)
    | none => if c = '_' && prev then parseDigits false cs else none

def parseUnsigned (s : Str) : Option Nat :=
  match parseDigits false s with
  | some ds => if ds.length ≤ PyTables.intMaxDigits then some (ofDigits ds) else none
  | none => none

/-- `int(s)`: `none` is ValueError -/
def pyInt (s : Str) : Option Int :=
  match rstripBy isIntSpace (lstripBy isIntSpace s) with
  | '-' :: body => (parseUnsigned body).map fun n => - (Int.ofNat n)
  | '+' :: body => (parseUnsigned body).map Int.ofNat
  | body => (parseUnsigned body).map Int.ofNat

end MySensors
