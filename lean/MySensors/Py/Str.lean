/-
  Python string semantics used by pymysensors, over `List Char`.
  Executable, total, Mathlib-free (the driver imports this).

  Mirrors: `str.rstrip()`, `str.split(d)`, `d.join(fields)`.
  The white-space table is *generated* from the running interpreter
  (`MySensors/Generated/PyTables.lean`).
-/
import MySensors.Generated.PyTables

namespace MySensors

abbrev Str := List Char

/-- `str.isspace` for one character (29 code points in CPython 3.12 / Unicode 15). -/
def isSpace (c : Char) : Bool := PyTables.spaceTable.contains c.toNat

/-- white space as `int()` / `float()` skip it (`str.isspace` minus U+001C..U+001F). -/
def isIntSpace (c : Char) : Bool := PyTables.intSpaceTable.contains c.toNat

/-- drop a trailing run of characters satisfying `p` -/
def rstripBy (p : Char → Bool) : Str → Str
  | [] => []
  | c :: cs => if (rstripBy p cs).isEmpty && p c then [] else c :: rstripBy p cs

def lstripBy (p : Char → Bool) : Str → Str
  | [] => []
  | c :: cs => if p c then lstripBy p cs else c :: cs

/-- `s.rstrip()` -/
def rstrip (s : Str) : Str := rstripBy isSpace s

/-- `s.strip()` -/
def strip (s : Str) : Str := rstripBy isSpace (lstripBy isSpace s)

/-- `s.split(d)` for a one-character delimiter: always at least one field. -/
def consHead (c : Char) : List Str → List Str
  | [] => [[c]]
  | h :: t => (c :: h) :: t

def splitOn (d : Char) : Str → List Str
  | [] => [[]]
  | c :: cs => if c = d then [] :: splitOn d cs else consHead c (splitOn d cs)

/-- `d.join(fields)` -/
def joinWith (d : Char) : List Str → Str
  | [] => []
  | [f] => f
  | f :: g :: fs => f ++ d :: joinWith d (g :: fs)

/-- last element and the rest, Python `list.pop()` on a non-empty list -/
def popLast {α} : List α → Option (List α × α)
  | [] => none
  | [x] => some ([], x)
  | x :: y :: ys => (popLast (y :: ys)).map fun (i, l) => (x :: i, l)

def endsNonSpace (s : Str) : Prop := ∀ c, s.getLast? = some c → isSpace c = false

def strOfString (s : String) : Str := s.toList

end MySensors
