"""Adjacent observation next to C06 / C14 (DESIGN 11.14), not raised by any check.

SyncTasks.stop() does not wait for the poll thread.  When the user's stop() lands between the poll loop's look
at the stop event and its run_job(), the job still runs after stop() has written the final file.  The serial
and TCP transports have disconnected by then, so nothing goes out; the MQTT transport has no connection to
close, so an id response is published for an id that is not in the file.  One job wide, needs that exact
interleaving of two threads; the properties quantify over histories, not schedules.

Run:  PYTHONPATH=/repo /venv/bin/python notes/mqtt_stop_slip.py
"""
import logging
import os
import shutil
import tempfile

logging.disable(logging.CRITICAL)
from mysensors.gateway_mqtt import MQTTGateway  # noqa: E402

work = tempfile.mkdtemp(prefix="verif-note-")
try:
    path = os.path.join(work, "p.json")
    pubs = []
    gw = MQTTGateway(lambda t, p, q, r: pubs.append((t, p)), lambda *a: None, persistence=True,
                     persistence_file=path, protocol_version="2.2")
    gw.tasks.transport.recv("/255/255/3/0/3", "", 0)          # an id request is queued
    real = gw.tasks._stop_event

    class Event:
        looks = 0

        def is_set(self):
            Event.looks += 1
            seen = real.is_set()
            if Event.looks == 1:
                gw.stop()            # the user's stop() runs right after the loop looked at the event
            return seen

        def set(self):
            real.set()
    gw.tasks._stop_event = Event()
    gw.tasks._poll_queue()           # what the poll thread does
    print("published after stop():", pubs)
    print("file stop() left      :", open(path, encoding="utf-8").read())
finally:
    shutil.rmtree(work, ignore_errors=True)
