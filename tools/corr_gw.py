import sys, logging, random, collections, time
sys.path.insert(0,'/verif'); logging.disable(logging.CRITICAL)
from harness import gw, gw_spec, common
N=int(sys.argv[1]); 
lines=[]; impl=[]; meta=[]
t=time.time()
for seed in range(N):
    rng=random.Random(seed)
    ver=rng.choice(gw.VERSIONS)
    kind=rng.choice(["base","base","tcp","mqtt"])
    persist=rng.choice(["none","none","json","pickle"])
    h=gw.gen_history(rng,ver,rng.choice([10,25,40]),persist=persist!="none")
    obs,g=gw.run_history(h,ver,kind,persist)
    lines.append(gw.gw_wire(ver,kind,persist)); impl.append("ok"); meta.append((seed,-1,None))
    for i,(op,o) in enumerate(zip(h,obs)):
        lines.append(gw.op_wire(op)); impl.append(o.line()); meta.append((seed,i,op))
print("real",time.time()-t, len(lines))
t=time.time()
model=common.Driver().run(lines)
print("model",time.time()-t)
bad=0; seen=set()
for m,i,(seed,idx,op) in zip(model,impl,meta):
    if m!=i and seed not in seen:
        seen.add(seed); bad+=1
        if bad<=4:
            print("DIFF seed",seed,"op",idx,op if op and op[0]!='U' else (op[:4] if op else None))
            ms=m.split(" "); is_=i.split(" ")
            for a,b in zip(ms,is_):
                if a!=b: print("  model:",a[:300]); print("  impl :",b[:300]); break
print("histories with diff:",bad,"of",N)
