#!/bin/bash
# Diagnostic: line/branch coverage of /repo/mysensors reached by the correspondence and oracle runs
# of every check (quick tier unless VERIF_TIER says otherwise).  Not a registered check.
#   tools/coverage_report.sh [C01 C02 ...]
set -u
cd "$(dirname "$0")/.."
OUT=$(mktemp -d /tmp/verif_cov.XXXXXX)
PROPS=${@:-C01 C02 C03 C04 C05 C06 C07 C08 C09 C10 C11 C12 C13 C14 C15 C16 C17 C18 C19 C20}
for P in $PROPS; do
  VERIF_COVERAGE=$OUT ./check $P --tier ${VERIF_TIER:-quick} 2>&1 | grep -E "tier=|VIOLATION"
done
cd $OUT
/venv/bin/python -m coverage combine --keep -q .coverage.* >/dev/null 2>&1
/venv/bin/python -m coverage report --data-file=$OUT/.coverage -m --skip-empty 2>/dev/null
rm -rf $OUT
