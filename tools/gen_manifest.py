#!/venv/bin/python
"""Writes MANIFEST.json from the table below (kept as code so it is always schema-valid)."""
import json
import os

HERE = os.path.dirname(os.path.dirname(os.path.abspath(__file__)))

CHECKS = {
    "C02": dict(
        technique="Lean 4 proof (algebraic round-trip laws over all Int / all List Char) + differential correspondence of the codec model against Message",
        text="Theorems decode_encode, encode_decode_canonical, canonical_unique, copy_spec (and corollaries) are proved in "
             "Lean for every integer and every payload string; the executable model they are about is compared with "
             "mysensors.message.Message on generated and corpus spellings (every Unicode Nd block, every isspace "
             "character, underscores, signs, the 4300-digit limit) on every run.",
        note="Trusted: Lean kernel (+ propext/Quot.sound/Classical.choice), the hand-written Py/Str, Py/Int and "
             "Model/Codec definitions as a model of CPython str/int and message.py (sampled by the correspondence, not "
             "proved), the generated PyTables. Lone surrogates are outside the model.",
        design_ref="DESIGN.md §6 C02"),
}

CHECKS["C14"] = dict(
    technique="Lean 4 proof: invariant by induction over all op histories of the gateway model (one case per handler via a generic combinator induction) + differential correspondence of the model against the real gateway + oracle on real save/stop/restart",
    text="Theorem clean_stop_loses_nothing: for every history of inbound lines, controller calls, save ticks and restarts, "
         "stop() followed by a fresh start reproduces the persisted projection; change_marks_dirty: every step that changes "
         "what persistence keeps sets need_save (the induction has one case per handler, so a handler that forgets the dirty "
         "mark is an unprovable case). The model is diffed against the real gateway (need_save flag and tree after every op) "
         "on generated histories with real json/pickle files (the real stop() is called, its last line handled at the "
         "moment of the disconnect; gateways with and without an event callback). Shutdown window "
         "(Properties/C14Stop.lean): clean_stop_window — for every placement of the pump's work relative to stop()'s "
         "disconnect and final save, after any earlier history of lines and periodic saves (need_save cleared before the "
         "snapshot, one save at a time), every change whose reply went out is in the file; reversed_order_loses / "
         "late_clear_loses — with the save first, or need_save cleared after the write, it is not. The order of the two "
         "actions inside the real stop() of both flavours is recorded and compared with the model's script; real id "
         "requests are handled before / while a periodic save writes / at the disconnect / before the final save / while "
         "it writes / after stop, also while the asyncio gateway is re-dialling.",
    note="Trusted: Lean kernel; Model/Gateway.lean as a model of __init__.py/handler.py/sensor.py/ota.py (validated by the "
         "correspondence, not proved); persistence abstracted to 'file = persisted projection of last successful save' "
         "(formats: C11, atomicity: C12); tables regenerated from /repo.",
    design_ref="DESIGN.md §6 C14")
CHECKS["C06"] = dict(
    technique="Lean 4 proof: history induction (known-node set grows, allocator picks max+1 <= 254, clean restart restores the set by C14's invariant) + differential correspondence + oracle on real id responses across restarts",
    text="Theorem allocs_spec / ids_never_twice: over every history (any ops, clean stop/restart cycles with persistence) the "
         "ids allocated for accepted id requests are pairwise distinct, in 1..254 and unknown when allocated; alloc_reply ties "
         "the allocation to the id-response line; no response when no id is free. Correspondence compares emitted lines and the "
         "known-id set per op; the oracle collects id-response payloads across real restarts sharing one file. "
         "stop_window_ids (Properties/C06Stop.lean): an id response that goes out while stop() runs is in the file stop() "
         "leaves, for every interleaving of the pump with stop()'s disconnect-then-save (order recorded on the real stop()). "
         "mqtt_stop_window: on the thread-based MQTT gateway (nothing to disconnect) commands still queued when stop() sets the "
         "stop event are not run, so every id published is in the file (real MQTTGateway with a backlog, real _poll_queue).",
    note="Trusted: Lean kernel; Model/Gateway.lean (validated by correspondence); persistence abstraction as in C14; the ghost "
         "definition allocs (ties to the emitted line by theorem alloc_reply).",
    design_ref="DESIGN.md §6 C06")

GW_NOTE = ("Trusted: Lean kernel; Model/Gateway.lean (+Validate, Version, Ota, Codec) as a model of __init__.py / handler.py / "
           "sensor.py / ota.py / message.py — validated on every run by the correspondence (real gateway in-process vs model "
           "driver, op by op, through this property's projection), not proved; tables regenerated from /repo; inline pump "
           "(threaded pump ordering is C19); version strings outside the modelled awesomeversion domain treated as rejected.")
CHECKS["C01"] = dict(
    technique="Lean 4 proof: invariant (Safe) preserved by every op via generic per-handler induction + exception-freedom of logic under it; differential correspondence on exception kind per op; oracle on the real pump incl. a live poll thread (thorough)",
    text="pump_total_run: after ANY history of inbound lines and well-formed controller calls (all versions, base/TCP/MQTT kinds, "
         "smart-sleep and OTA sessions, saves, restarts) processing any text as the next line raises nothing and the invariant "
         "still holds; rejected_noop: a malformed or invalid line leaves state, outputs and callbacks untouched; "
         "mqtt_publish_total: only decodable lines reach the MQTT publish path. Every Python construct that can raise inside "
         "logic is an explicit `fail` in the model, and each is shown unreachable (table facts re-checked against the "
         "generated tables).",
    note=GW_NOTE + " That no *other* Python construct raises is sampled (exception kind per op compared), not proved.",
    design_ref="DESIGN.md §6 C01")
CHECKS["C07"] = dict(
    technique="Lean 4 proof: output-aware generic per-handler induction (Hold relation: destinations of every emitted line, sleeping flags monotone, hold-queue invariant) over all histories; differential correspondence; oracle on destinations of real transport.send calls",
    text="nothing_to_sleeping_node(_run): in every reachable state, a step emits a line for node k only if it is a stream "
         "response, k is not sleeping, or the step processes k's own wake-up announcement; sleeping_persists; "
         "others_not_delayed / withheld_only_if_sleeping: a reply is withheld only when its own destination sleeps.",
    note=GW_NOTE + " Controller calls are atomic events (no pre-emption inside set_child_value).",
    design_ref="DESIGN.md §6 C07")
CHECKS["C08"] = dict(
    technique="Lean 4 proof: characterisation of the wake-up burst (queue ++ pending sets, in order), desired-value bookkeeping relation over all steps, call-time refusal theorems; differential correspondence; oracle with an independent spec of hold queue and desired map",
    text="wake_burst: the burst is exactly the withheld lines oldest first followed by one set per (child, reported value type) "
         "with a pending desired value, the queue is empty afterwards; line_step_desired / report_clears / "
         "desired_survives_wake: a desired value is re-sent at every wake-up until a report of exactly that type, inbound "
         "lines never create one; queue_only_appended: withheld lines are neither dropped nor duplicated between wake-ups; "
         "req_sees_desired; refused_call_changes_nothing / accepted_value_is_sendable: a value that cannot be sent is refused "
         "at call time, an accepted one builds a valid command (with C01's invariant the wake-up cannot fail).",
    note=GW_NOTE,
    design_ref="DESIGN.md §6 C08")
CHECKS["C09"] = dict(
    technique="Lean 4 proof: algebraic laws of padding, block slicing, hex/word packing, CRC bound and Intel-HEX write/load round trip for all byte images; differential correspondence against ota.py, crcmod and intelhex; independent reassembly oracle on real sessions",
    text="ota_serves_advertised: for every image the advertised block count B and CRC C are such that blocks 0..B-1 (any order, "
         "repetition, node) concatenate to image + 1..128 bytes 0xFF, length 16*B, multiple of 128, CRC-16/MODBUS = C, each "
         "response echoes type/version/index; hex_load: hexLoad (hexWrite base recLen img) = img up to 2^32; gateway-level "
         "update_from_file (Properties/C09File.lean): Gateway.update_fw with the Intel HEX file of an image is make_update "
         "with exactly that image, bad_file_noop / dataless_file: an unreadable, rejected or data-less file changes "
         "nothing — every update in the generated histories reaches the model as the text of the file the real call "
         "reads (good, damaged, truncated, reordered, missing); "
         "theorems show the handlers' replies are these pure functions independent of other nodes.",
    note="Trusted: Lean kernel; Model/Ota.lean, Model/IntelHex.lean and the OTA handlers of Model/Gateway.lean as models of "
         "ota.py, crcmod 'modbus', struct/binascii and intelhex 2.3 (sampled by the correspondence, not proved).",
    design_ref="DESIGN.md §6 C09")

CHECKS["C05"] = dict(
    technique="Lean 4 proof: reply table per message kind (exact message handed to route); global invariant proof that every emitted line is the canonical encoding of a message valid for the configured version (dedicated per-handler pass with one wire-validity lemma per reply kind, table facts re-checked against the generated tables); differential correspondence on emitted text per step; oracle re-decoding and re-validating every emitted string on the real code",
    text="Reply table (Properties/C05Table.lean): value_request_reply, config_reply, time_reply, gateway_ready_reply, "
         "unknown_gets_presentation_request, internal_without_handler_silent, set_without_reboot_silent (+ C06.alloc_reply) "
         "for all states and messages. Global (Properties/C05.lean): emitted_valid_run — from a fresh gateway of any version "
         "and kind, after any history of inbound lines and controller calls with ids in range and carryable values, every "
         "line the next step emits (replies, flushed hold-queue entries, wake-up sets, reboot / presentation / discover "
         "requests, stream responses, controller commands) is encLine x with validate x, equals canon x and decodes to x.",
    note=GW_NOTE + " Controller ids in protocol range, values carryable, clock within the digit limit (Op.carry).",
    design_ref="DESIGN.md §6 C05, §11.3")

CHECKS["C04"] = dict(
    technique="Lean 4 proof: refinement of the gateway model to an independent tree specification (specStep/specNotifies) per handler and over all histories, exact callback lists, callback-after-state on a provably conservative instrumented model; differential correspondence of model AND spec against the real gateway; real rerun with raising callbacks",
    text="refines_step / refines_run: for every state, version and history the persisted tree equals the abstract reading of "
         "the accepted messages; callbacks_exact / callbacks_run: the callback list equals the spec's (once each, in order, "
         "own fields); callback_after_state on an instrumented model proved to erase to the model; rejected lines and "
         "controller calls leave the tree and fire nothing. 'A raising callback changes nothing else' is decided by rerunning "
         "every history on the real code with a raising callback (not a theorem: the model has no data flow from the callback).",
    note=GW_NOTE + " Per-line theorems assume the two fallible-first handlers do not raise (C01 discharges it).",
    design_ref="DESIGN.md §6 C04")
CHECKS["C10"] = dict(
    technique="Lean 4 proof: refinement of the three OTA stores to a four-state per-node session automaton for every state/message, lifted to logic and to histories (store invariants, gating, reboot flag persistence); differential correspondence; two oracles on real sessions",
    text="config_refines / block_refines / update_refines: the responders are the automaton (reply = automaton output, other "
         "nodes untouched); gated(_history): responses only for scheduled nodes with firmware; "
         "config_repeated_then_withheld; update_restarts; malformed_noop(_logic): malformed requests give no reply and no "
         "session change; reboot_until_presented: every set from a known child of a rebooting node gets exactly the I_REBOOT reply "
         "until the node presents itself.",
    note=GW_NOTE + " 'Malformed' = payload does not unpack to the required 16-bit words; out-of-range block index gets header + "
         "empty block; sessions and reboot flags do not survive a restart (interpretations fixed in DESIGN.md).",
    design_ref="DESIGN.md §6 C10")
CHECKS["C11"] = dict(
    technique="Lean 4 proof: round-trip laws of the JSON encoder/decoder hooks and pickle get/setstate over an abstract value tree, with the reachability invariant derived from the gateway model by induction over every history; differential correspondence of save/load against the real files in both formats",
    text="json_round_trip, pickle_round_trip, formats_agree, persisted_exact, transient_not_restored for every state meeting the "
         "invariant (non-negative keys, battery 0..100, version fixed under safe_is_version); negative_key_counterexample shows "
         "the invariant is needed. round_trip_run (Properties/C11Reach.lean): for a fresh gateway of any version and kind and "
         "every history of inbound lines and controller calls, the network it holds satisfies the invariant, so saving it as "
         "JSON or pickle and loading it yields exactly the persisted projection and the two formats agree. Real save/load of "
         "generated and real-gateway states compared with the model and with each other.",
    note="Trusted: Lean kernel; json/pickle text layers (round-trip of plain trees); Model/Persist.lean as a model of the hooks "
         "and Model/Gateway.lean as a model of the handlers (both validated by correspondence every run); controller set calls "
         "with node ids in protocol range and carryable values (Op.carry).",
    design_ref="DESIGN.md §6 C11, §11.3")
CHECKS["C12"] = dict(
    technique="Lean 4 proof: complete case analysis of the save's operation list over an abstract three-file store (all prior configurations x all crash prefixes / failing ops x all damage choices, symbolic contents); real operation sequence compared; every crash/fail point enumerated on the real code",
    text="crash_atomic, fail_atomic, crash_never_empty, save_then_load, crash_restart_save_load: after a crash at any point or any "
         "single failing operation the next start-up loads the complete old or complete new state and the next save succeeds; "
         "unsynced_rename_would_lose shows the crash model is not vacuous. The harness records the real op sequence (must equal "
         "the model's) and replays every (configuration, point, loss) combination on real files.",
    note="Trusted: Lean kernel; the POSIX model (data durable only after fsync, renames atomic and ordered, no directory fsync "
         "needed) — real power loss is not exhibited; Model/Fs.lean as model of persistence.py (op sequence compared every run).",
    design_ref="DESIGN.md §6 C12")
CHECKS["C13"] = dict(
    technique="Lean 4 proof: case analysis of safe_load over main x backup file classes with an abstract parser classification; the classification is discharged by enumerating every truncation and zero-fill of real files",
    text="startup_result, startup_never_raises, startup_whole_or_empty, startup_files, startup_idempotent; hostile_*_raises show "
         "the classification assumption matters. Harness: every truncation length and zero-fill of generated json/pickle files x "
         "backup absent/intact/damaged, exception classes recorded and checked to be the caught ones.",
    note="Trusted: Lean kernel; the assumption that damaged content raises a caught exception class (checked by enumeration, not "
         "proved; other kinds of damage not covered).",
    design_ref="DESIGN.md §6 C13")
CHECKS["C15"] = dict(
    technique="Lean 4 proof: induction over arbitrary tick-outcome sequences of the save scheduler and the need_save protocol (both flavours); fault injection at every file operation / object visit on the real timer chain and asyncio loop",
    text="schedule_stays_armed, failing_tick, ok_tick_writes, mutated_during_ok_dump, heals: after any sequence of outcomes the "
         "schedule is armed, a failing tick keeps the previous file loadable and the state marked unsaved, the first later "
         "successful tick writes the then-current state; unfixed_scheduler_counterexample documents the repaired defect.",
    note="Trusted: Lean kernel; Model/Sched.lean; real timer/executor threads and timing not modelled (fake Timer, gated "
         "asyncio.sleep); concurrent messages injected at object-visit granularity.",
    design_ref="DESIGN.md §6 C15")
CHECKS["C17"] = dict(
    technique="Lean 4 proof: string algebra over all prefixes/topics/payloads for topic acceptance, publish/receive round trip, QoS; subscription coverage as an invariant over the gateway model's step; exhaustive prefix grid on the real MQTT gateways",
    text="accept_iff, roundtrip, roundtrip_message, qos_iff_ack, publish_injective, subscriptions_cover, start_covers, "
         "callbacks_total for every prefix (any List Char incl. '/', digits, empty).",
    note="Trusted: Lean kernel; Model/Mqtt.lean (sampled on an exhaustive prefix grid up to length 5/6); callbacks modelled by "
         "whether they raise; payloads are str; coverage theorems assume persistence on or an empty tree at start.",
    design_ref="DESIGN.md §6 C17")
CHECKS["C19"] = dict(
    technique="Lean 4 proof: segmentation independence by induction over chunk lists for an arbitrary per-line decoder; pump equivalence: negation proved from a witness (known finding D12) plus partial theorems (state equality, output permutation, equality when drained/quiet); connection events (lost / made on the one protocol object every connection shares) and the TCP reader loop (idle iterations, empty reads) by induction over event / read lists; real protocol classes cut at every position and across reconnects made by the real connect functions, recorded recv results of the real TCPTransport.run, scripted pump schedules",
    text="segmentation, cut_anywhere, delivered_exact, tcp_chunking, behaviour_independent_of_segmentation hold for every byte "
         "stream and chunking; reconnect_is_concatenation, events_any_two, events_deliver_complete_lines, reconnect_drop_policy for every "
         "sequence of data_received / connection_lost / connection_made calls; tcp_reader_loop for every sequence of recv results. flavours_agree is FALSE on the current code: flavours_counterexample; flavours_partial_state / "
         "_output / _quiet / _drained are what holds for every schedule. The check prints KNOWN-FINDING for the D12 shape and "
         "reports any other flavour difference as a violation.",
    note="Trusted: Lean kernel; Model/Framing.lean, Model/Pump.lean; the UTF-8 decoder is a parameter; either tail policy at a connection loss is accepted (both proved to deliver complete lines only); the split of handler "
         "output into returned reply vs queued jobs is correspondence-checked; real thread timing not modelled (scripted schedules).",
    design_ref="DESIGN.md §6 C19")

CHECKS["C03"] = dict(
    technique="Lean 4 proof: validate <-> SpecHeader /\\ SpecRule for all Int headers and all payload strings over tables regenerated from /repo and kernel-checked equal to a frozen reference spec; rule-class semantics, monotonicity, totality; exhaustive header-space correspondence against the real Message.validate; independent JSON-spec oracle; corpus and child-schema cases repeated in processes that have built the tables of all five versions",
    text="tables_eq_spec (decide +kernel per version), header_iff, rule_semantics (+ per-class clauses), monotone, total_rules, "
         "validate_iff. The translator output is re-proved equal to spec/serial_api.json on every run, so a dropped row, a shifted "
         "range or a changed validator is a broken obligation; the harness then finds the concrete line with the spec oracle.",
    note="Trusted: Lean kernel; tools/gen_tables.py + tools/gen_spec.py (both covered by the correspondence); voluptuous "
         "accept/reject, CPython int()/float() (float ranges as exact rationals with half-ulp thresholds) and awesomeversion on "
         "dotted-numeric / container-word / digit-free strings are modelled and sampled; spec/serial_api.json is a reviewed "
         "snapshot of the same source, not a second source.",
    design_ref="DESIGN.md §6 C03")
CHECKS["C18"] = dict(
    technique="Lean 4 proof: floor selection for all naturals major.minor[.patch] via section-wise comparison lemmas; keyword-threading model of the six constructor chains decided over all option subsets; real constructions of every subset and the version grid",
    text="floor / floor_unique: selectConst of a rendered version is the greatest supported version not above it (1.4 when none); "
         "rejected_falls_back, nonnumeric_falls_back; options: for each class and every sub-list of documented keywords no key "
         "reaches Gateway.__init__ unconsumed and each lands on the documented attribute. The chain model is checked against "
         "__mro__, signatures and real constructions (2^7 per class quick, up to 2^13 thorough); README constructor examples "
         "are evaluated.",
    note="Trusted: Lean kernel; Model/Version.lean (awesomeversion 24.6 on the numeric grammar; container words accepted and "
         "select 2.2; SemVer pre-releases / hex unjudged), Model/Options.lean (keyword-set threading), both sampled.",
    design_ref="DESIGN.md §6 C18")

CHECKS["C16"] = dict(
    technique="Lean 4 proof: interleaving semantics over shared-access steps of Transport.send / _connection_lost / disconnect / connection_made with an inductive invariant for every schedule (kernel exploration as cross-check); queue FIFO and drain (liveness) by induction over schedules; real methods on real threads under a deterministic cooperative scheduler, all interleavings replayed",
    text="send_safe_general: one send against any number of loss / disconnect / reconnect threads under every schedule never "
         "raises, calls write at most once, and returns without a write only if the connection it saw is gone; "
         "queue_fifo / queue_exactly_once for any producers and schedule; queue_drains: once the producers stop, three pump "
         "steps per queued job empty the queue from any state the pump can be in (every job is sent); pinned_send_raises "
         "documents the repaired race.",
    note="Trusted: Lean kernel; Model/Transport.lean; atomic steps = the instrumented shared accesses (reads/writes of "
         "Transport.protocol, protocol.transport, write/close, deque append/popleft) of the unmodified methods — real "
         "pre-emptive scheduling below that granularity is not modelled; three-thread scenarios with more than 2500 "
         "schedules are sampled in the correspondence (the theorems cover all). Adjacent races outside the statement "
         "(disconnect vs loss, double reconnect, late transport=None) are reported with witnesses, not raised.",
    design_ref="DESIGN.md §6 C16, §11.6")
CHECKS["C20"] = dict(
    technique="Lean 4 proof: supervisor event automaton per gateway class (callbacks exact, reconnect until success, quiet after stop) by induction over event sequences; watchdog arithmetic over a millisecond clock with explicit slack; real connect loops / TCPTransport.run / check_connection on fake devices and a simulated clock",
    text="callbacks_exact, callbacks_alternate, reconnect_follows_loss, retry_until_success, quiet_after_stop for all event "
         "sequences and all four classes (the last two hold since the two fix: commits; unfixed counterexample theorems kept); "
         "watchdog_no_false_drop (threaded: latency <= rt - 80 ms; asyncio: rt >= 0.1 s and answer before the next timer), "
         "watchdog_drop (silent link dropped within 2rt + G, G explicit), drop_redials.",
    note="Partial by nature. Trusted: Lean kernel; Model/Supervisor.lean; events are atomic (interleavings are C16); pyserial / "
         "asyncio transport contracts, thread scheduling, sockets and the clock are fakes with an exact simulated clock; the "
         "slack g and the asyncio rt >= 0.1 s precondition are explicit in the theorems; 'about twice the timeout' for a link "
         "that goes silent after an answer is up to ~3rt + 0.1 s on asyncio (stated, not raised).",
    design_ref="DESIGN.md §6 C20, §11.6")

NOT_YET = {
}


def main():
    props = [json.loads(l) for l in open(os.path.join(HERE, "properties.jsonl"), encoding="utf-8")]
    checks = []
    not_applicable = []
    for p in props:
        pid = p["id"]
        if pid in CHECKS:
            c = CHECKS[pid]
            checks.append({
                "property_id": pid,
                "quick_cmd": f"./check {pid} --tier quick",
                "thorough_cmd": f"./check {pid} --tier thorough",
                "evidence_file": f"evidence/{pid}.json",
                "replay_cmd_template": f"./check {pid} --replay {{path}}",
                "engine": "lean4-model+correspondence",
                "level_claimed": {"category": "proof", "text": c["text"], "design_ref": c["design_ref"]},
                "level_note": c["note"],
                "technique": c["technique"],
            })
        else:
            not_applicable.append({
                "property_id": pid,
                "reason": NOT_YET.get(pid, "not claimed yet: the Lean model, theorems and correspondence for this "
                                           "property are still being built (DESIGN.md §6 gives the plan); "
                                           "no other technique is substituted")})
    manifest = {
        "version": 1,
        "setup_cmd": "./check --setup",
        "hooks": {
            "guard": "PYMYSENSORS_VERIF",
            "enable": "no source hooks are needed: the harness observes the public API, patches module attributes "
                      "from outside and subclasses; the variable is set by ./check for completeness",
            "baseline_off_cmd": "cd /repo && /venv/bin/python -m pytest -q -p no:cacheprovider --timeout=900",
            "source_commits": [],
            "add_only": True,
        },
        "engines": [{
            "name": "lean4-model+correspondence",
            "path": "lean/ (lake library MySensors), tools/gen_tables.py, harness/",
            "serves_properties": [c["property_id"] for c in checks],
            "kind_free_text": "Lean 4.33 proofs about an executable model; tables regenerated from /repo on every "
                              "run; model driver diffed against the real code in-process; per-property oracle on "
                              "the real code searches for the failing input",
        }],
        "checks": checks,
        "not_applicable": not_applicable,
        "notes": "See DESIGN.md. Every check: regenerate tables from /repo, lake build the property's theorems, "
                 "#print axioms audit, correspondence model-vs-code, oracle on the real code, evidence.",
    }
    with open(os.path.join(HERE, "MANIFEST.json"), "w", encoding="utf-8") as fh:
        json.dump(manifest, fh, indent=1)
        fh.write("\n")


if __name__ == "__main__":
    main()
