#!/venv/bin/python
"""Writes MANIFEST.json from the table below (kept as code so it is always schema-valid)."""
import json
import os

HERE = os.path.dirname(os.path.dirname(os.path.abspath(__file__)))

CHECKS = {
    "C02": dict(
        technique="Lean 4 proof (algebraic round-trip laws over all Int / all List Char) + differential correspondence of the codec model against Message",
        text="Theorems decode_encode, encode_decode_canonical, canonical_unique, copy_spec (and corollaries) are proved in "
             "Lean for every integer and every payload string; the executable model they are about is compared with "
             "mysensors.message.Message on generated and corpus spellings (every Unicode Nd block, every isspace "
             "character, underscores, signs, the 4300-digit limit) on every run.",
        note="Trusted: Lean kernel (+ propext/Quot.sound/Classical.choice), the hand-written Py/Str, Py/Int and "
             "Model/Codec definitions as a model of CPython str/int and message.py (sampled by the correspondence, not "
             "proved), the generated PyTables. Lone surrogates are outside the model.",
        design_ref="DESIGN.md §6 C02"),
}

CHECKS["C14"] = dict(
    technique="Lean 4 proof: invariant by induction over all op histories of the gateway model (one case per handler via a generic combinator induction) + differential correspondence of the model against the real gateway + oracle on real save/stop/restart",
    text="Theorem clean_stop_loses_nothing: for every history of inbound lines, controller calls, save ticks and restarts, "
         "stop() followed by a fresh start reproduces the persisted projection; change_marks_dirty: every step that changes "
         "what persistence keeps sets need_save (the induction has one case per handler, so a handler that forgets the dirty "
         "mark is an unprovable case). The model is diffed against the real gateway (need_save flag and tree after every op) "
         "on generated histories with real json/pickle files.",
    note="Trusted: Lean kernel; Model/Gateway.lean as a model of __init__.py/handler.py/sensor.py/ota.py (validated by the "
         "correspondence, not proved); persistence abstracted to 'file = persisted projection of last successful save' "
         "(formats: C11, atomicity: C12); tables regenerated from /repo.",
    design_ref="DESIGN.md §6 C14")
CHECKS["C06"] = dict(
    technique="Lean 4 proof: history induction (known-node set grows, allocator picks max+1 <= 254, clean restart restores the set by C14's invariant) + differential correspondence + oracle on real id responses across restarts",
    text="Theorem allocs_spec / ids_never_twice: over every history (any ops, clean stop/restart cycles with persistence) the "
         "ids allocated for accepted id requests are pairwise distinct, in 1..254 and unknown when allocated; alloc_reply ties "
         "the allocation to the id-response line; no response when no id is free. Correspondence compares emitted lines and the "
         "known-id set per op; the oracle collects id-response payloads across real restarts sharing one file.",
    note="Trusted: Lean kernel; Model/Gateway.lean (validated by correspondence); persistence abstraction as in C14; the ghost "
         "definition allocs (ties to the emitted line by theorem alloc_reply).",
    design_ref="DESIGN.md §6 C06")

GW_NOTE = ("Trusted: Lean kernel; Model/Gateway.lean (+Validate, Version, Ota, Codec) as a model of __init__.py / handler.py / "
           "sensor.py / ota.py / message.py — validated on every run by the correspondence (real gateway in-process vs model "
           "driver, op by op, through this property's projection), not proved; tables regenerated from /repo; inline pump "
           "(threaded pump ordering is C19); version strings outside the modelled awesomeversion domain treated as rejected.")
CHECKS["C01"] = dict(
    technique="Lean 4 proof: invariant (Safe) preserved by every op via generic per-handler induction + exception-freedom of logic under it; differential correspondence on exception kind per op; oracle on the real pump incl. a live poll thread (thorough)",
    text="pump_total_run: after ANY history of inbound lines and well-formed controller calls (all versions, base/TCP/MQTT kinds, "
         "smart-sleep and OTA sessions, saves, restarts) processing any text as the next line raises nothing and the invariant "
         "still holds; rejected_noop: a malformed or invalid line leaves state, outputs and callbacks untouched; "
         "mqtt_publish_total: only decodable lines reach the MQTT publish path. Every Python construct that can raise inside "
         "logic is an explicit `fail` in the model, and each is shown unreachable (table facts re-checked against the "
         "generated tables).",
    note=GW_NOTE + " That no *other* Python construct raises is sampled (exception kind per op compared), not proved.",
    design_ref="DESIGN.md §6 C01")
CHECKS["C07"] = dict(
    technique="Lean 4 proof: output-aware generic per-handler induction (Hold relation: destinations of every emitted line, sleeping flags monotone, hold-queue invariant) over all histories; differential correspondence; oracle on destinations of real transport.send calls",
    text="nothing_to_sleeping_node(_run): in every reachable state, a step emits a line for node k only if it is a stream "
         "response, k is not sleeping, or the step processes k's own wake-up announcement; sleeping_persists; "
         "others_not_delayed / withheld_only_if_sleeping: a reply is withheld only when its own destination sleeps.",
    note=GW_NOTE + " Controller calls are atomic events (no pre-emption inside set_child_value).",
    design_ref="DESIGN.md §6 C07")
CHECKS["C08"] = dict(
    technique="Lean 4 proof: characterisation of the wake-up burst (queue ++ pending sets, in order), desired-value bookkeeping relation over all steps, call-time refusal theorems; differential correspondence; oracle with an independent spec of hold queue and desired map",
    text="wake_burst: the burst is exactly the withheld lines oldest first followed by one set per (child, reported value type) "
         "with a pending desired value, the queue is empty afterwards; line_step_desired / report_clears / "
         "desired_survives_wake: a desired value is re-sent at every wake-up until a report of exactly that type, inbound "
         "lines never create one; queue_only_appended: withheld lines are neither dropped nor duplicated between wake-ups; "
         "req_sees_desired; refused_call_changes_nothing / accepted_value_is_sendable: a value that cannot be sent is refused "
         "at call time, an accepted one builds a valid command (with C01's invariant the wake-up cannot fail).",
    note=GW_NOTE,
    design_ref="DESIGN.md §6 C08")
CHECKS["C09"] = dict(
    technique="Lean 4 proof: algebraic laws of padding, block slicing, hex/word packing, CRC bound and Intel-HEX write/load round trip for all byte images; differential correspondence against ota.py, crcmod and intelhex; independent reassembly oracle on real sessions",
    text="ota_serves_advertised: for every image the advertised block count B and CRC C are such that blocks 0..B-1 (any order, "
         "repetition, node) concatenate to image + 1..128 bytes 0xFF, length 16*B, multiple of 128, CRC-16/MODBUS = C, each "
         "response echoes type/version/index; hex_load: hexLoad (hexWrite base recLen img) = img up to 2^32; gateway-level "
         "theorems show the handlers' replies are these pure functions independent of other nodes.",
    note="Trusted: Lean kernel; Model/Ota.lean, Model/IntelHex.lean and the OTA handlers of Model/Gateway.lean as models of "
         "ota.py, crcmod 'modbus', struct/binascii and intelhex 2.3 (sampled by the correspondence, not proved).",
    design_ref="DESIGN.md §6 C09")

CHECKS["C05"] = dict(
    technique="Lean 4 proof: reply table per message kind (exact message handed to route); global invariant proof that every emitted line is the canonical encoding of a message valid for the configured version (dedicated per-handler pass with one wire-validity lemma per reply kind, table facts re-checked against the generated tables); differential correspondence on emitted text per step; oracle re-decoding and re-validating every emitted string on the real code",
    text="Reply table (Properties/C05Table.lean): value_request_reply, config_reply, time_reply, gateway_ready_reply, "
         "unknown_gets_presentation_request, internal_without_handler_silent, set_without_reboot_silent (+ C06.alloc_reply) "
         "for all states and messages. Global (Properties/C05.lean): emitted_valid_run — from a fresh gateway of any version "
         "and kind, after any history of inbound lines and controller calls with ids in range and carryable values, every "
         "line the next step emits (replies, flushed hold-queue entries, wake-up sets, reboot / presentation / discover "
         "requests, stream responses, controller commands) is encLine x with validate x, equals canon x and decodes to x.",
    note=GW_NOTE + " Controller ids in protocol range, values carryable, clock within the digit limit (Op.carry).",
    design_ref="DESIGN.md §6 C05, §11.3")

NOT_YET = {
}


def main():
    props = [json.loads(l) for l in open(os.path.join(HERE, "properties.jsonl"), encoding="utf-8")]
    checks = []
    not_applicable = []
    for p in props:
        pid = p["id"]
        if pid in CHECKS:
            c = CHECKS[pid]
            checks.append({
                "property_id": pid,
                "quick_cmd": f"./check {pid} --tier quick",
                "thorough_cmd": f"./check {pid} --tier thorough",
                "evidence_file": f"evidence/{pid}.json",
                "replay_cmd_template": f"./check {pid} --replay {{path}}",
                "engine": "lean4-model+correspondence",
                "level_claimed": {"category": "proof", "text": c["text"], "design_ref": c["design_ref"]},
                "level_note": c["note"],
                "technique": c["technique"],
            })
        else:
            not_applicable.append({
                "property_id": pid,
                "reason": NOT_YET.get(pid, "not claimed yet: the Lean model, theorems and correspondence for this "
                                           "property are still being built (DESIGN.md §6 gives the plan); "
                                           "no other technique is substituted")})
    manifest = {
        "version": 1,
        "setup_cmd": "./check --setup",
        "hooks": {
            "guard": "PYMYSENSORS_VERIF",
            "enable": "no source hooks are needed: the harness observes the public API, patches module attributes "
                      "from outside and subclasses; the variable is set by ./check for completeness",
            "baseline_off_cmd": "cd /repo && /venv/bin/python -m pytest -q -p no:cacheprovider --timeout=900",
            "source_commits": [],
            "add_only": True,
        },
        "engines": [{
            "name": "lean4-model+correspondence",
            "path": "lean/ (lake library MySensors), tools/gen_tables.py, harness/",
            "serves_properties": [c["property_id"] for c in checks],
            "kind_free_text": "Lean 4.33 proofs about an executable model; tables regenerated from /repo on every "
                              "run; model driver diffed against the real code in-process; per-property oracle on "
                              "the real code searches for the failing input",
        }],
        "checks": checks,
        "not_applicable": not_applicable,
        "notes": "See DESIGN.md. Every check: regenerate tables from /repo, lake build the property's theorems, "
                 "#print axioms audit, correspondence model-vs-code, oracle on the real code, evidence.",
    }
    with open(os.path.join(HERE, "MANIFEST.json"), "w", encoding="utf-8") as fh:
        json.dump(manifest, fh, indent=1)
        fh.write("\n")


if __name__ == "__main__":
    main()
