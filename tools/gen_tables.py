#!/venv/bin/python
"""Translator: /repo's const modules + the running interpreter -> Lean tables.

Writes lean/MySensors/Generated/{PyTables,Tables}.lean.  Files are rewritten only when
their content changes so that a no-op run keeps `lake build` a no-op.

What is translated (DESIGN.md section 4.2):
  * CPython tables: str.isspace code points, int()/float() white space, Unicode decimal
    zero code points, int digit limit;
  * per protocol version: enum member values, VALID_MESSAGE_TYPES, VALID_PAYLOADS as the
    two-level rule form `Any of All of atoms`, VALID_TYPES, VALID_SETREQ, MAX_NODE_ID,
    handler dispatch (value -> handler function, resolved through the canonical member
    name exactly as `BaseConst.get_handler` does);
  * CONST_VERSIONS, SYSTEM_CHILD_ID, BROADCAST_ID, FIRMWARE_BLOCK_SIZE.
Anything the translator cannot express becomes an `opaque` atom / handler, so theorems
that need that entry stop elaborating (a broken obligation, not a silent default).
"""
import importlib
import os
import sys
from fractions import Fraction
import math

REPO = os.environ.get("VERIF_REPO", "/repo")
sys.path.insert(0, REPO)
HERE = os.path.dirname(os.path.abspath(__file__))
OUT = os.path.join(HERE, "..", "lean", "MySensors", "Generated")

VERSIONS = [("1.4", "v14"), ("1.5", "v15"), ("2.0", "v20"), ("2.1", "v21"), ("2.2", "v22")]

KNOWN_HANDLERS = [
    "handle_presentation", "handle_set", "handle_req", "handle_internal", "handle_stream",
    "handle_firmware_config_request", "handle_firmware_request", "handle_id_request",
    "handle_config", "handle_time", "handle_battery_level", "handle_sketch_name",
    "handle_sketch_version", "handle_log_message", "handle_gateway_ready",
    "handle_gateway_ready_20", "handle_heartbeat_response", "handle_discover_response",
    "handle_heartbeat_response_22", "handle_pre_sleep_notification",
]
KNOWN_FNS = {"is_version": "isVersion", "validate_hex": "hex", "validate_v_rgb": "rgb",
             "validate_v_rgbw": "rgbw", "validate_gps": "gps"}


def lstr(s):
    """Lean `Str` literal (List Char) from a Python str."""
    return "[" + ", ".join(f"Char.ofNat {ord(c)}" for c in s) + "]"


def lint(n):
    return f"({n})" if n < 0 else str(n)


def lrat(q):
    q = Fraction(q)
    if q.denominator == 1:
        return f"({q.numerator} : Rat)"
    return f"(({q.numerator} : Rat) / {q.denominator})"


def float_thresholds(lo, hi):
    """Exact rational acceptance interval of `lo <= float(s) <= hi` in terms of the exact
    decimal value q of s (round-half-even, monotone): returns (loThr, loIncl, hiThr, hiIncl)."""
    def upper(h):
        h = float(h)
        nxt = math.nextafter(h, math.inf)
        tie = (Fraction(h) + Fraction(nxt)) / 2
        # tie rounds to the neighbour with even mantissa
        m, _ = math.frexp(h)
        even = int(m * 2 ** 53) % 2 == 0
        return tie, even

    def lower(l):
        l = float(l)
        if l == 0.0:
            # negative values rounding to -0.0 are accepted (-0.0 >= 0.0)
            tiny = Fraction(math.nextafter(0.0, -math.inf))
            return tiny / 2, True  # tie rounds to even = 0
        prv = math.nextafter(l, -math.inf)
        tie = (Fraction(l) + Fraction(prv)) / 2
        m, _ = math.frexp(l)
        even = int(abs(m) * 2 ** 53) % 2 == 0
        return tie, even
    lt, li = lower(lo)
    ht, hi_ = upper(hi)
    return lt, li, ht, hi_


class Opaque(Exception):
    pass


def atoms_of(v, vol):
    """Flatten a validator into a list of atoms (an `All` chain)."""
    if v is str:
        return ["Atom.str"]
    if isinstance(v, str):
        return [f"Atom.lit {lstr(v)}"]
    if isinstance(v, vol.All):
        out = []
        for sub in v.validators:
            out.extend(atoms_of(sub, vol))
        return out
    if isinstance(v, vol.In):
        items = list(v.container)
        if not all(isinstance(i, str) for i in items):
            raise Opaque(repr(v))
        return ["Atom.inn [" + ", ".join(lstr(i) for i in items) + "]"]
    if isinstance(v, vol.Coerce):
        if v.type is int:
            return ["Atom.coerceInt"]
        if v.type is float:
            return ["Atom.coerceFloat"]
        if v.type is str:
            return ["Atom.coerceStr"]
        raise Opaque(repr(v))
    if isinstance(v, vol.Range):
        if not (v.min_included and v.max_included) or v.min is None or v.max is None:
            raise Opaque(repr(v))
        if isinstance(v.min, float) or isinstance(v.max, float):
            lt, li, ht, hi = float_thresholds(v.min, v.max)
            return [f"Atom.frange {lrat(lt)} {str(li).lower()} {lrat(ht)} {str(hi).lower()} "
                    f"{lrat(Fraction(v.min))} {lrat(Fraction(v.max))}"]
        return [f"Atom.range {lint(int(v.min))} {lint(int(v.max))}"]
    if callable(v) and getattr(v, "__name__", None) in KNOWN_FNS and \
            getattr(v, "__module__", "").startswith("mysensors."):
        return [f"Atom.fn FnId.{KNOWN_FNS[v.__name__]}"]
    raise Opaque(repr(v))


def rule_of(v, vol):
    """Validator -> `Rule` (Any of All of atoms)."""
    try:
        if isinstance(v, vol.Any):
            alts = [atoms_of(a, vol) for a in v.validators]
        else:
            alts = [atoms_of(v, vol)]
    except Opaque as exc:
        return f"[[Atom.opaque {lstr(str(exc)[:60])}]]"
    return "[" + ", ".join("[" + ", ".join(a) + "]" for a in alts) + "]"


def py_tables():
    space = [c for c in range(0x110000) if chr(c).isspace()]

    def okint(s):
        try:
            int(s)
            return True
        except ValueError:
            return False

    def dig(c):
        try:
            return int(chr(c))
        except ValueError:
            return None
    scal = [c for c in range(0x110000) if not 0xD800 <= c <= 0xDFFF]
    digits = {c: dig(c) for c in scal if dig(c) is not None}
    zeros = sorted(c for c, v in digits.items() if v == 0)
    assert all(digits.get(z + i) == i for z in zeros for i in range(10))
    assert len(digits) == 10 * len(zeros)
    int_space = [c for c in scal if c not in digits and chr(c) not in "+-" and okint(chr(c) + "1")]
    assert int_space == [c for c in scal if c not in digits and chr(c) != "_" and okint("1" + chr(c))]

    def okfloat(s):
        try:
            float(s)
            return True
        except ValueError:
            return False
    flt_space = [c for c in scal if c not in digits and chr(c) not in "+-." and okfloat(chr(c) + "1")]
    assert flt_space == int_space, "float() and int() white space differ"
    import unicodedata
    lines = [
        "/- GENERATED by tools/gen_tables.py from the running CPython — do not edit. -/",
        "namespace MySensors.PyTables",
        f"/-- code points with `str.isspace()`; Unicode {unicodedata.unidata_version}, "
        f"CPython {sys.version_info.major}.{sys.version_info.minor} -/",
        "def spaceTable : List Nat := [" + ", ".join(map(str, space)) + "]",
        "/-- white space skipped by `int()` and `float()` -/",
        "def intSpaceTable : List Nat := [" + ", ".join(map(str, int_space)) + "]",
        "/-- code point of digit zero of every Unicode decimal-digit block (Nd) -/",
        "def digitZeros : List Nat := [" + ", ".join(map(str, zeros)) + "]",
        f"def intMaxDigits : Nat := {sys.get_int_max_str_digits()}",
        "end MySensors.PyTables",
        "",
    ]
    return "\n".join(lines)


def handler_id(func):
    name = getattr(func, "__name__", None)
    mod = getattr(func, "__module__", "")
    if name in KNOWN_HANDLERS and mod == "mysensors.handler":
        return f"HandlerId.{name}"
    return "HandlerId.opaque"


def version_tables():
    import voluptuous as vol
    const_mod = importlib.import_module("mysensors.const")
    msg_mod = importlib.import_module("mysensors.message")
    ota_mod = importlib.import_module("mysensors.ota")
    out = [
        "/- GENERATED by tools/gen_tables.py from /repo's const modules — do not edit. -/",
        "import MySensors.Model.Rule",
        "namespace MySensors.Tables",
        "open MySensors",
        "",
        f"def systemChildId : Int := {const_mod.SYSTEM_CHILD_ID}",
        f"def broadcastId : Int := {msg_mod.BROADCAST_ID}",
        f"def firmwareBlockSize : Nat := {ota_mod.FIRMWARE_BLOCK_SIZE}",
        "def constVersions : List (Str × ConstId) := [" + ", ".join(
            f"({lstr(k)}, ConstId.{'v' + v.rsplit('_', 1)[1]})"
            for k, v in const_mod.CONST_VERSIONS.items()) + "]",
        "",
    ]
    for ver, vid in VERSIONS:
        const = importlib.import_module(const_mod.CONST_VERSIONS[ver])
        mt = const.MessageType
        out.append(f"/-! ### protocol {ver} -/")
        out.append(f"def {vid}_maxNodeId : Int := {const.MAX_NODE_ID}")
        # message types and named values used by the handlers
        out.append(f"def {vid}_messageTypes : List Int := [" +
                   ", ".join(str(m.value) for m in const.VALID_MESSAGE_TYPES) + "]")
        names = {
            "presentation": mt.presentation, "set": mt.set, "req": mt.req,
            "internal": mt.internal, "stream": mt.stream,
        }
        for n, m in names.items():
            out.append(f"def {vid}_mt_{n} : Int := {m.value}")
        internal = const.Internal
        for n in ["I_ID_REQUEST", "I_ID_RESPONSE", "I_REBOOT", "I_VERSION", "I_PRESENTATION",
                  "I_DISCOVER", "I_CONFIG", "I_TIME", "I_HEARTBEAT_RESPONSE",
                  "I_PRE_SLEEP_NOTIFICATION", "I_GATEWAY_READY", "I_BATTERY_LEVEL",
                  "I_SKETCH_NAME", "I_SKETCH_VERSION", "I_LOG_MESSAGE", "I_DISCOVER_RESPONSE"]:
            val = getattr(internal, n, None)
            out.append(f"def {vid}_{n} : Option Int := " +
                       ("none" if val is None else f"some {val.value}"))
        stream = const.Stream
        for n in ["ST_FIRMWARE_CONFIG_REQUEST", "ST_FIRMWARE_CONFIG_RESPONSE",
                  "ST_FIRMWARE_REQUEST", "ST_FIRMWARE_RESPONSE"]:
            val = getattr(stream, n, None)
            out.append(f"def {vid}_{n} : Option Int := " +
                       ("none" if val is None else f"some {val.value}"))
        pres = const.Presentation
        for n in ["S_CUSTOM", "S_ARDUINO_NODE", "S_ARDUINO_RELAY"]:
            val = getattr(pres, n, None)
            out.append(f"def {vid}_{n} : Option Int := " +
                       ("none" if val is None else f"some {val.value}"))
        # sub types per message type
        rows = []
        for m, members in const.VALID_MESSAGE_TYPES.items():
            rows.append(f"({m.value}, [" + ", ".join(str(x.value) for x in members) + "])")
        out.append(f"def {vid}_subTypes : List (Int × List Int) := [\n  " + ",\n  ".join(rows) + "]")
        # payload rules
        rows = []
        for m, table in const.VALID_PAYLOADS.items():
            for sub, rule in table.items():
                rows.append(f"(({int(m)}, {int(sub)}), {rule_of(rule, vol)})")
        out.append(f"def {vid}_payloads : List ((Int × Int) × Rule) := [\n  " + ",\n  ".join(rows) + "]")
        # child-value schema tables
        rows = []
        for p, members in const.VALID_TYPES.items():
            rows.append(f"({int(p)}, [" + ", ".join(str(int(x)) for x in members) + "])")
        out.append(f"def {vid}_validTypes : List (Int × List Int) := [\n  " + ",\n  ".join(rows) + "]")
        rows = []
        for s, rule in const.VALID_SETREQ.items():
            rows.append(f"({int(s)}, {rule_of(rule, vol)})")
        out.append(f"def {vid}_setreq : List (Int × Rule) := [\n  " + ",\n  ".join(rows) + "]")
        # handler dispatch, resolved as the code resolves it: value -> canonical name -> registry
        reg = const.get_handler_registry()
        rows = []
        for m in mt:
            h = reg.get(mt(m.value).name)
            if h is not None:
                rows.append(f"({m.value}, {handler_id(h)})")
        out.append(f"def {vid}_typeHandlers : List (Int × HandlerId) := [" + ", ".join(rows) + "]")
        rows = []
        for m in internal:
            h = reg.get(internal(m.value).name)
            if h is not None:
                rows.append(f"({m.value}, {handler_id(h)})")
        out.append(f"def {vid}_internalHandlers : List (Int × HandlerId) := [" + ", ".join(rows) + "]")
        rows = []
        for m in stream:
            h = reg.get(stream(m.value).name)
            if h is not None:
                rows.append(f"({m.value}, {handler_id(h)})")
        out.append(f"def {vid}_streamHandlers : List (Int × HandlerId) := [" + ", ".join(rows) + "]")
        out.append("")
    # the per-version record
    out.append("def tables : ConstId → VTables")
    fields = [("maxNodeId", "maxNodeId"), ("messageTypes", "messageTypes"),
              ("mtPresentation", "mt_presentation"), ("mtSet", "mt_set"), ("mtReq", "mt_req"),
              ("mtInternal", "mt_internal"), ("mtStream", "mt_stream"),
              ("iIdRequest", "I_ID_REQUEST"), ("iIdResponse", "I_ID_RESPONSE"),
              ("iReboot", "I_REBOOT"), ("iVersion", "I_VERSION"),
              ("iPresentation", "I_PRESENTATION"), ("iDiscover", "I_DISCOVER"),
              ("stConfigRequest", "ST_FIRMWARE_CONFIG_REQUEST"),
              ("stConfigResponse", "ST_FIRMWARE_CONFIG_RESPONSE"),
              ("stRequest", "ST_FIRMWARE_REQUEST"), ("stResponse", "ST_FIRMWARE_RESPONSE"),
              ("sCustom", "S_CUSTOM"), ("subTypes", "subTypes"), ("payloads", "payloads"),
              ("validTypes", "validTypes"), ("setreq", "setreq"),
              ("typeHandlers", "typeHandlers"), ("internalHandlers", "internalHandlers"),
              ("streamHandlers", "streamHandlers")]
    for ver, vid in VERSIONS:
        out.append(f"  | ConstId.{vid} => {{")
        for f, g in fields:
            out.append(f"      {f} := {vid}_{g}")
        out.append("    }")
    out.append("")
    out.append("end MySensors.Tables")
    out.append("")
    return "\n".join(out)


def write_if_changed(path, text):
    try:
        with open(path, encoding="utf-8") as fh:
            if fh.read() == text:
                return False
    except FileNotFoundError:
        pass
    tmp = path + ".tmp"
    with open(tmp, "w", encoding="utf-8") as fh:
        fh.write(text)
    os.replace(tmp, path)
    return True


def main():
    os.makedirs(OUT, exist_ok=True)
    changed = []
    if write_if_changed(os.path.join(OUT, "PyTables.lean"), py_tables()):
        changed.append("PyTables")
    if write_if_changed(os.path.join(OUT, "Tables.lean"), version_tables()):
        changed.append("Tables")
    changed += ["SerialApi"] if __import__("gen_spec").main() else []  # frozen reference spec (C03)
    print("gen_tables: changed=" + (",".join(changed) or "none"))


if __name__ == "__main__":
    main()
