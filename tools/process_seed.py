#!/venv/bin/python
"""Confirm a seeded change and run the checks against it (isolated copy of /verif, patched worktree).
usage: tools/process_seed.py <PROP> <A|B> [more props to run ...]
Writes /verif/seeded/<PROP>-<X>/{patch.diff,demo.py,meta.json}."""
import json
import os
import shutil
import subprocess
import sys

prop, which = sys.argv[1], sys.argv[2]
props = [prop] + sys.argv[3:]
wt = f"/tmp/mut_{prop}"
src = f"{wt}/_seed/{which}"
dst = f"/verif/seeded/{prop}-{which}"


def run(cmd, **kw):
    p = subprocess.run(cmd, shell=True, capture_output=True, text=True, **kw)
    return p.returncode, (p.stdout + p.stderr)


os.makedirs(dst, exist_ok=True)
for f in ("patch.diff", "demo.py", "meta.json"):
    shutil.copy(os.path.join(src, f), os.path.join(dst, f))
meta = json.load(open(os.path.join(dst, "meta.json")))
rc, out = run(f"cd {wt} && git checkout -q -- mysensors && git apply --check _seed/{which}/patch.diff")
assert rc == 0, out
rc0, out0 = run(f"cd {wt} && MYS_REPO={wt} /venv/bin/python _seed/{which}/demo.py")
run(f"cd {wt} && git apply _seed/{which}/patch.diff")
rct, outt = run(f"cd {wt} && /venv/bin/python -m pytest -q -p no:cacheprovider 2>&1 | tail -1")
rc1, out1 = run(f"cd {wt} && MYS_REPO={wt} /venv/bin/python _seed/{which}/demo.py")
rcc, outc = run(f"/verif/tools/run_seed.sh {wt} quick {' '.join(props)}")
run(f"cd {wt} && git checkout -q -- mysensors")
confirmed = rc0 == 0 and rc1 != 0 and "730 passed" in outt
detected = {p: (f"VIOLATION property={p}" in outc) for p in props}
meta.update({
    "confirmed_by_coordinator": {
        "demo_unchanged_exit": rc0, "demo_changed_exit": rc1, "demo_changed_output": out1.strip()[-300:],
        "test_suite_with_change": outt.strip(), "confirmed": confirmed},
    "checks_run": [f"VERIF_REPO=<patched worktree> ./check {p} --tier quick (isolated copy of /verif)" for p in props],
    "detected_by": [p for p, d in detected.items() if d],
    "check_output": [l for l in outc.splitlines() if "VIOLATION" in l or "tier=" in l][:12],
})
json.dump(meta, open(os.path.join(dst, "meta.json"), "w"), indent=1)
print(prop, which, "confirmed" if confirmed else "NOT CONFIRMED", "| detected by:", meta["detected_by"])
print(outc[-2500:])
