#!/venv/bin/python
"""Re-run the checks against every stored seeded change (seeded/<id>/patch.diff) on scratch worktrees of
/repo and refresh `detected_by` / `check_output` in its meta.json.
usage: tools/recheck_seeds.py [-j N] [seed-dir-name ...]      (nothing is applied to /repo itself)"""
import glob
import json
import os
import subprocess
import sys
from concurrent.futures import ThreadPoolExecutor

HERE = os.path.dirname(os.path.dirname(os.path.abspath(__file__)))


def sh(cmd):
    p = subprocess.run(cmd, shell=True, capture_output=True, text=True)
    return p.returncode, p.stdout + p.stderr


def work(args):
    slot, names = args
    wt = f"/tmp/recheck_wt_{slot}"
    sh(f"git -C /repo worktree remove --force {wt}; rm -rf {wt}; git -C /repo worktree prune")
    rc, out = sh(f"git -C /repo worktree add -q --detach {wt} HEAD")
    assert rc == 0, out
    results = []
    try:
        for name in names:
            d = os.path.join(HERE, "seeded", name)
            meta = json.load(open(os.path.join(d, "meta.json"), encoding="utf-8"))
            prop = name.split("-")[0]
            props = [prop] + [p for p in meta.get("detected_by", []) if p != prop]
            rc, out = sh(f"cd {wt} && git checkout -q -- . && git apply {d}/patch.diff")
            if rc != 0:
                results.append((name, "PATCH DOES NOT APPLY", []))
                continue
            rc, out = sh(f"SEED_REPLAY_DIR=/tmp/seed_replays/{name} {HERE}/tools/run_seed.sh {wt} quick {' '.join(props)}")
            sh(f"cd {wt} && git checkout -q -- .")
            det = [p for p in props if f"VIOLATION property={p} " in out]
            weak = [p for p in props if f"VIOLATION property={p} " in out and
                    any(l.startswith(f"VIOLATION property={p} ") and "no-failing-input-found" in l for l in out.splitlines())]
            meta["detected_by"] = det
            meta["detected_without_failing_input"] = weak
            meta["checks_run"] = [f"VERIF_REPO=<patched worktree> ./check {p} --tier quick (isolated copy of /verif)" for p in props]
            meta["check_output"] = [l for l in out.splitlines() if "VIOLATION" in l or "tier=" in l][:12]
            json.dump(meta, open(os.path.join(d, "meta.json"), "w", encoding="utf-8"), indent=1)
            results.append((name, "ok", det, weak))
            print(name, "detected by", det, ("(no failing input: %s)" % weak) if weak else "", flush=True)
    finally:
        sh(f"git -C /repo worktree remove --force {wt}; rm -rf {wt}")
    return results


def main():
    argv = sys.argv[1:]
    jobs = 4
    if argv[:1] == ["-j"]:
        jobs = int(argv[1])
        argv = argv[2:]
    names = argv or sorted(os.path.basename(d) for d in glob.glob(os.path.join(HERE, "seeded", "*")))
    slots = [(i, names[i::jobs]) for i in range(jobs)]
    with ThreadPoolExecutor(jobs) as ex:
        allres = [r for rs in ex.map(work, slots) for r in rs]
    missed = [r[0] for r in allres if r[1] != "ok" or r[0].split("-")[0] not in r[2]]
    print("seeds:", len(allres), "missed by the targeted property's check:", missed)


if __name__ == "__main__":
    main()
