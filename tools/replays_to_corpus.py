#!/venv/bin/python
"""Turn the failing histories the checks found on seeded changes (/tmp/seed_replays/<seed>/<prop>-*.json, written by
tools/recheck_seeds.py) into corpus cases corpus/<prop>/seed-<seed>.json of the gateway-family checks, so that the
scenario of every seeded change is replayed first on every run, whatever the generators draw."""
import glob
import json
import os

HERE = os.path.dirname(os.path.dirname(os.path.abspath(__file__)))
FAMILY = {"C01", "C04", "C05", "C06", "C07", "C08", "C10", "C14"}
n = 0
for path in sorted(glob.glob("/tmp/seed_replays/*/*.json")):
    seed = os.path.basename(os.path.dirname(path))
    prop = os.path.basename(path).split("-")[0]
    if prop not in FAMILY or prop != seed.split("-")[0]:
        continue
    d = json.load(open(path, encoding="utf-8"))
    r = d.get("replay") or {}
    if d.get("kind") != "failing-input" or "hist" not in r or r.get("case", "").startswith(("seed-", "d")):
        continue
    hist = r["hist"]
    if any(op[0] == "R" and (i == 0 or hist[i - 1][0] != "X") for i, op in enumerate(hist)):
        continue            # shrunk past the stop: a crash restart, outside the histories the oracle judges
    out = {"name": f"seed-{seed}", "version": r["version"], "kind": r.get("kind", "base"),
           "persist": r.get("persist", "none"), "hist": r["hist"],
           "note": f"found on seeded change {seed}: {d.get('what', '')[:160]}"}
    dst = os.path.join(HERE, "corpus", prop, f"seed-{seed}.json")
    os.makedirs(os.path.dirname(dst), exist_ok=True)
    json.dump(out, open(dst, "w", encoding="utf-8"), indent=1)
    n += 1
    print("wrote", dst, len(r["hist"]), "ops")
print(n, "corpus cases")
