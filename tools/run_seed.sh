#!/bin/bash
# Run checks against a seeded change WITHOUT touching /repo or /verif:
#   tools/run_seed.sh <repo-worktree-with-patch-applied> <tier> C01 C05 ...
# Works on a private copy of /verif (incl. its Lean build output) so concurrent work is not disturbed.
set -u
WT="$1"; TIER="$2"; shift 2
COPY=$(mktemp -d /tmp/verif_seed.XXXXXX)
rsync -a --exclude .git --exclude replays /verif/ "$COPY/"
cd "$COPY"
for P in "$@"; do
  VERIF_REPO="$WT" ./check "$P" --tier "$TIER" 2>&1 | grep -v "^WARNING conda" | grep -E "VIOLATION|KNOWN-FINDING|tier=|Traceback|Error" | cut -c1-400
  if ls replays/$P-* >/dev/null 2>&1; then
    echo "--- replay:"; head -c 1500 replays/$P-*; echo
    if [ -n "${SEED_REPLAY_DIR:-}" ]; then mkdir -p "$SEED_REPLAY_DIR"; cp replays/$P-* "$SEED_REPLAY_DIR"/; fi
    rm -f replays/$P-*
  fi
done
rm -rf "$COPY"
