#!/venv/bin/python
"""Prints the per-property summary of the seeded changes (DESIGN.md §11.5) from seeded/*/meta.json;
`tools/seed_table.py > seeded/TABLE.md` writes the full table next to the seeds."""
import collections
import glob
import json
import os

HERE = os.path.dirname(os.path.dirname(os.path.abspath(__file__)))
rows = collections.defaultdict(lambda: {"n": 0, "own": 0, "own_input": 0, "elsewhere": [], "missed": []})
for d in sorted(glob.glob(os.path.join(HERE, "seeded", "C*"))):
    try:
        m = json.load(open(os.path.join(d, "meta.json"), encoding="utf-8"))
    except OSError:
        continue
    name = os.path.basename(d)
    prop = name.split("-")[0]
    r = rows[prop]
    r["n"] += 1
    det = m.get("detected_by", [])
    if prop in det:
        r["own"] += 1
        if prop not in m.get("detected_without_failing_input", []):
            r["own_input"] += 1
    elif det:
        r["elsewhere"].append(f"{name} ({', '.join(det)})")
    else:
        r["missed"].append(name)
print("| property | seeds | reported by its own check | … with a failing input | reported by another check only | not reported |")
print("|---|---|---|---|---|---|")
tot = collections.Counter()
for prop in sorted(rows):
    r = rows[prop]
    tot.update({"n": r["n"], "own": r["own"], "own_input": r["own_input"], "else": len(r["elsewhere"]), "miss": len(r["missed"])})
    print(f"| {prop} | {r['n']} | {r['own']} | {r['own_input']} | {', '.join(r['elsewhere']) or '—'} | {', '.join(r['missed']) or '—'} |")
print(f"| all | {tot['n']} | {tot['own']} | {tot['own_input']} | {tot['else']} | {tot['miss']} |")
