#!/venv/bin/python
"""Prints the markdown table of seeded changes (DESIGN.md §11.5) from seeded/*/meta.json."""
import glob
import json
import os

HERE = os.path.dirname(os.path.dirname(os.path.abspath(__file__)))


def cut(s, n):
    s = " ".join(str(s).split())
    return s if len(s) <= n else s[:n] + "…"


print("| seed | change | needs | reported by |")
print("|---|---|---|---|")
for d in sorted(glob.glob(os.path.join(HERE, "seeded", "*"))):
    try:
        m = json.load(open(os.path.join(d, "meta.json"), encoding="utf-8"))
    except OSError:
        continue
    det = ", ".join(m.get("detected_by", [])) or "— (missed)"
    print(f"| {os.path.basename(d)} | {cut(m.get('summary', ''), 150)} | {cut(m.get('needs', ''), 150)} | {det} |")
