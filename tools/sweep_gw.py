import sys, logging, random, collections, time
sys.path.insert(0,'/verif'); logging.disable(logging.CRITICAL)
from harness import gw, gw_spec
cnt=collections.Counter(); ex={}
t=time.time()
N=int(sys.argv[1]) if len(sys.argv)>1 else 300
for seed in range(N):
    rng=random.Random(seed)
    ver=rng.choice(gw.VERSIONS)
    kind=rng.choice(["base","base","tcp","mqtt"])
    persist=rng.choice(["none","none","json","pickle"])
    h=gw.gen_history(rng,ver,rng.choice([10,25,40]),persist=persist!="none")
    obs,g=gw.run_history(h,ver,kind,persist)
    fails=gw_spec.judge(h,obs,ver,kind,persist)
    for f in fails:
        key=(f['prop'],f['key']['kind'],f['key'].get('exc'))
        cnt[key]+=1
        ex.setdefault(key,(seed,ver,kind,persist,f['at'],f['what'][:300],h[f['at']] if h[f['at']][0]!='U' else h[f['at']][:4]))
print(time.time()-t)
for k,v in sorted(cnt.items()): print(k,v,ex[k])
